import Chain33Model.Model.C19
/-!
C19 — Validity checks are independent of process history.  Property theorems only.
-/
namespace C19

variable {A E : Type} [DecidableEq A]

/-- every cache entry holds the history-free verdict of every query that maps to its key. -/
def CacheOK (ds : List (Drv A E)) (c : Cache A E) : Prop :=
  ∀ k v, (k, v) ∈ c → ∀ h, mask ds h = k.1 → v = checkPure ds k.2 h

theorem lookup_mem (c : Cache A E) (k : List Bool × A) (v : Option E) (h : lookup c k = some v) :
    (k, v) ∈ c := by
  induction c with
  | nil => simp [lookup] at h
  | cons x xs ih =>
    obtain ⟨k', v'⟩ := x
    simp only [lookup] at h
    split at h
    · rename_i hk; subst hk; simp only [Option.some.injEq] at h; subst h; exact List.mem_cons_self
    · exact List.mem_cons_of_mem _ (ih h)

omit [DecidableEq A] in
/-- the verdict depends on the height only through the set of enabled drivers. -/
theorem checkPure_mask_congr (ds : List (Drv A E)) (a : A) (h h' : Int) (hm : mask ds h = mask ds h') :
    checkPure ds a h = checkPure ds a h' := by
  unfold checkPure; rw [hm]

theorem evictBy_subset {α : Type} (l : List α) (k : List Bool) : ∀ x, x ∈ evictBy l k → x ∈ l := by
  induction l generalizing k with
  | nil => intro x hx; simp [evictBy] at hx
  | cons y ys ih =>
    intro x hx
    cases k with
    | nil => simp only [evictBy] at hx; exact List.mem_cons_of_mem _ (ih [] x hx)
    | cons b bs =>
      simp only [evictBy] at hx
      split at hx
      · rcases List.mem_cons.mp hx with rfl | hx
        · exact List.mem_cons_self
        · exact List.mem_cons_of_mem _ (ih bs x hx)
      · exact List.mem_cons_of_mem _ (ih bs x hx)

theorem check_ok (ds : List (Drv A E)) (c : Cache A E) (hc : CacheOK ds c) (a : A) (h : Int) :
    (check ds c a h).1 = checkPure ds a h ∧ CacheOK ds (check ds c a h).2 := by
  unfold check
  split
  · rename_i v hl
    exact ⟨hc _ v (lookup_mem c _ v hl) h rfl, hc⟩
  · refine ⟨rfl, ?_⟩
    intro k v hm h' hk
    rcases List.mem_cons.mp hm with hm | hm
    · simp only [Prod.mk.injEq] at hm
      obtain ⟨rfl, rfl⟩ := hm
      exact checkPure_mask_congr ds a h h' hk.symm
    · exact hc k v hm h' hk

theorem runHist_ok (ds : List (Drv A E)) (c : Cache A E) (hc : CacheOK ds c) (hist : List (Ev A)) :
    CacheOK ds (runHist ds c hist) := by
  induction hist generalizing c with
  | nil => exact hc
  | cons e rest ih =>
    cases e with
    | query a h => exact ih _ (check_ok ds c hc a h).2
    | evict k => exact ih _ (fun key v hm => hc key v (evictBy_subset c k _ hm))

/-- **Address validity is independent of process history**: after ANY history of earlier queries
(any addresses, any heights) and cache evictions, the answer to a query — including the exact error
for an invalid address — is the history-free verdict, a function of the address, the height and the
driver configuration only. -/
theorem check_history_independent (ds : List (Drv A E)) (hist : List (Ev A)) (a : A) (h : Int) :
    (check ds (runHist ds [] hist) a h).1 = checkPure ds a h :=
  (check_ok ds _ (runHist_ok ds [] (fun _ _ hm => by simp at hm) hist) a h).1

/-- the verdict of an address that some enabled driver accepts is "valid", whatever else was tried. -/
theorem accepted_is_valid (a : A) (l : List (Drv A E × Bool)) (acc : Option E)
    (h : ∃ p ∈ l, p.2 = true ∧ p.1.validate a = none) : tryDrivers a l acc = none := by
  induction l generalizing acc with
  | nil => obtain ⟨p, hp, _⟩ := h; simp at hp
  | cons x xs ih =>
    obtain ⟨d, en⟩ := x
    simp only [tryDrivers]
    obtain ⟨p, hp, hen, hv⟩ := h
    rcases List.mem_cons.mp hp with rfl | hp'
    · simp only at hen hv; simp [hen, hv]
    · cases en
      · simp only [Bool.false_eq_true, if_false]; exact ih acc ⟨p, hp', hen, hv⟩
      · simp only [if_true]
        cases hd : d.validate a with
        | none => rfl
        | some e => exact ih _ ⟨p, hp', hen, hv⟩

/-- non-vacuity / concrete table: ids 0,1,2 enabled at 0, 40, 100. -/
def sampleDrivers : List (Drv Nat Nat) :=
  [⟨0, 0, fun a => if a = 1 then none else some 10⟩,
   ⟨1, 40, fun a => if a = 2 then none else some 11⟩,
   ⟨2, 100, fun a => if a = 3 then none else some 12⟩]

example : (check sampleDrivers (runHist sampleDrivers [] [.query 3 200, .query 3 50, .evict [true]]) 3 50).1 = some 10
    ∧ (check sampleDrivers (runHist sampleDrivers [] [.query 3 50]) 3 200).1 = none := by decide

/-- regression witness for the repaired defect "error depends on map iteration order": the old loop
(last error wins, arbitrary order) gives different errors for two orders of the same driver table. -/
theorem old_order_dependent :
    tryOld (5 : Nat) 200 sampleDrivers none ≠ tryOld (5 : Nat) 200 sampleDrivers.reverse none := by decide

/-! eth `PubKeyToAddr` -/

variable {P T : Type} [DecidableEq P]

def EthCacheOK (cx : EthCtx P T) (c : List (P × T)) : Prop := ∀ p t, c.lookup p = some t → t = cx.raw p

theorem pub2addr_ok (cx : EthCtx P T) (c : List (P × T)) (hc : EthCacheOK cx c) (fk : Bool) (p : P) :
    (pub2addr cx c fk p).1 = cx.fmt fk (cx.raw p) ∧ EthCacheOK cx (pub2addr cx c fk p).2 := by
  unfold pub2addr
  split
  · rename_i t hl; rw [hc p t hl]; exact ⟨rfl, hc⟩
  · refine ⟨rfl, ?_⟩
    intro q t hq
    simp only [List.lookup_cons] at hq
    split at hq
    · rename_i he; simp only [beq_iff_eq] at he; subst he; simp only [Option.some.injEq] at hq; exact hq.symm
    · exact hc q t hq

/-- **Which address a public key maps to is independent of history**: after any sequence of earlier
calls at any heights (before or after the format fork), the answer is the format for the *current*
height applied to the key's address. -/
theorem pub2addr_history_independent (cx : EthCtx P T) (hist : List (Bool × P)) (fk : Bool) (p : P) :
    (pub2addr cx (hist.foldl (fun c q => (pub2addr cx c q.1 q.2).2) []) fk p).1 = cx.fmt fk (cx.raw p) := by
  have : ∀ (c : List (P × T)), EthCacheOK cx c →
      EthCacheOK cx (hist.foldl (fun c q => (pub2addr cx c q.1 q.2).2) c) := by
    induction hist with
    | nil => intro c hc; exact hc
    | cons q rest ih => intro c hc; exact ih _ (pub2addr_ok cx c hc q.1 q.2).2
  exact (pub2addr_ok cx _ (this [] (fun _ _ h => by simp at h)) fk p).1

/-- `isEnable` is the pure predicate: no height context (negative) enables everything; otherwise a
driver/type is enabled from its non-negative enable height on. -/
theorem isEnable_spec (h eh : Int) : isEnable h eh = true ↔ (h < 0 ∨ (0 ≤ eh ∧ eh ≤ h)) := by
  unfold isEnable
  simp only [Bool.or_eq_true, decide_eq_true_eq, Bool.not_eq_true', Bool.or_eq_false_iff, decide_eq_false_iff_not]
  omega

end C19
