import Chain33Model.Model.C20
import Chain33Model.Proofs.C20
/-!
C20 — Difficulty compact encoding round-trips and orders work.  Property theorems only.
-/
namespace C20

/-- The work derived from a target never increases when the target increases
(both targets positive; a non-positive target has work 0 by definition). -/
theorem calcWork_antitone (c₁ c₂ : Nat)
    (h₁ : 0 < compactToBig c₁) (h : compactToBig c₁ ≤ compactToBig c₂) :
    calcWork c₂ ≤ calcWork c₁ := by
  have h₂ : 0 < compactToBig c₂ := Int.lt_of_lt_of_le h₁ h
  unfold calcWork
  simp only [show ¬ compactToBig c₁ ≤ 0 from by omega, show ¬ compactToBig c₂ ≤ 0 from by omega, if_false]
  generalize compactToBig c₁ = d₁ at *
  generalize compactToBig c₂ = d₂ at *
  have ha : (0 : Int) ≤ 2 ^ 256 := by decide
  have hq : (0 : Int) ≤ 2 ^ 256 / (d₂ + 1) := Int.ediv_nonneg ha (by omega)
  apply Int.le_ediv_of_mul_le (by omega)
  calc 2 ^ 256 / (d₂ + 1) * (d₁ + 1) ≤ 2 ^ 256 / (d₂ + 1) * (d₂ + 1) :=
        Int.mul_le_mul_of_nonneg_left (by omega) hq
    _ ≤ 2 ^ 256 := Int.ediv_mul_le _ (by omega)

/-- The positivity hypothesis of `calcWork_antitone` cannot be dropped: across the sign boundary the statement
"work never increases when the target increases" is false of `CalcWork`, because a non-positive target has
work 0 by definition (`if difficultyNum.Sign() <= 0 { return big.NewInt(0) }`) while the smallest positive
target has the largest work.  Witness: compact 0 decodes to target 0 (work 0) and compact 0x01010000 to target 1
(work 2^255).  Non-positive targets are not valid block targets; the harness compares these inputs with the model
and the fork-choice theorems (`td_antitone`) carry the same hypothesis. -/
theorem calcWork_antitone_needs_positive :
    compactToBig 0 ≤ compactToBig 0x01010000 ∧ calcWork 0 < calcWork 0x01010000 := by decide

/-- Work of a non-positive target is zero, so it never outranks a positive target. -/
theorem calcWork_nonpos (c : Nat) (h : compactToBig c ≤ 0) : calcWork c = 0 := by
  unfold calcWork; simp [h]

theorem calcWork_nonneg (c : Nat) : 0 ≤ calcWork c := by
  unfold calcWork
  by_cases h : compactToBig c ≤ 0
  · simp [h]
  · simp only [h, if_false]; exact Int.ediv_nonneg (by decide) (by omega)

/-! ### re-compaction is canonical -/

/-- For every 32-bit compact value, decoding the re-encoded value gives back the decoded value
(proved by case analysis on the exponent and the byte length of the mantissa, both signs). -/
theorem recompact_value (c : Nat) (_hc : c < 2 ^ 32) :
    compactToBig (bigToCompact (compactToBig c)) = compactToBig c := by
  have he : c / 2 ^ 24 % 256 ≤ 255 := by omega
  have hm : c % 2 ^ 23 < 2 ^ 23 := Nat.mod_lt _ (by omega)
  rw [compactToBig_eq c]
  generalize c / 2 ^ 24 % 256 = e at *
  generalize c % 2 ^ 23 = mant at *
  rcases Nat.eq_zero_or_pos (dec e mant) with h0 | hpos
  · rw [h0]
    have z : compactToBig (bigToCompact 0) = 0 := by
      unfold bigToCompact compactToBig; simp
    split <;> simpa using z
  · obtain ⟨hfit, hdvd⟩ := canon e mant he hm hpos
    generalize dec e mant = a at *
    have hcancel : a / 256 ^ lost a * 256 ^ lost a = a := Nat.div_mul_cancel hdvd
    split
    · rw [roundtrip_neg a hpos hfit ?_, hcancel]
      intro h3
      refine Nat.dvd_trans (Nat.pow_dvd_pow 256 ?_) hdvd
      unfold lost; omega
    · rw [roundtrip_pos a hpos hfit, hcancel]

/-- `f = BigToCompact ∘ CompactToBig` is idempotent on all 2^32 compact values: `f c` is the
canonical compact form of `c`. -/
theorem recompact_idem (c : Nat) (hc : c < 2 ^ 32) :
    bigToCompact (compactToBig (bigToCompact (compactToBig c))) = bigToCompact (compactToBig c) := by
  rw [recompact_value c hc]

/-- non-vacuity / a non-canonical input: 0x0500_0012 (exponent 5, mantissa 0x12) decodes to
0x12_0000, whose canonical compact form is 0x0312_0000. -/
example : compactToBig 0x05000012 = 0x120000 ∧ compactToBig 0x03120000 = 0x120000 := by
  constructor <;> (unfold compactToBig; simp)

/-! ### round trip of integers -/

/-- The property as stated, for every non-negative integer: the round trip never increases the
value and loses less than the bytes below the (23-bit, or 15-bit after the sign-bit shift) mantissa. -/
def BigRoundtripFull : Prop :=
  ∀ n : Int, 0 ≤ n →
    compactToBig (bigToCompact n) ≤ n ∧
    n - compactToBig (bigToCompact n) < 256 ^ (byteLen n.natAbs - 2)

/-- `BigRoundtripFull` restricted to integers of at most 254 bytes (added hypothesis: the byte
length, plus one when the sign-bit shift occurs, must fit the 8-bit exponent field). -/
theorem big_roundtrip_partial (n : Int) (h0 : 0 ≤ n) (hL : byteLen n.natAbs ≤ 254) :
    compactToBig (bigToCompact n) ≤ n ∧
    n - compactToBig (bigToCompact n) < 256 ^ (byteLen n.natAbs - 2) := by
  obtain ⟨a, rfl⟩ := Int.eq_ofNat_of_zero_le h0
  have hab : (a : Int).natAbs = a := by simp
  rw [hab] at hL ⊢
  rcases Nat.eq_zero_or_pos a with h | ha
  · subst h
    have z : compactToBig (bigToCompact 0) = 0 := by unfold bigToCompact compactToBig; simp
    simp [z, byteLen_zero]
  · have hfit : byteLen a + bump (m0 a) ≤ 255 := by unfold bump; split <;> omega
    have := roundtrip_pos a ha hfit
    rw [show ((a : Nat) : Int) = Int.ofNat a from rfl, this]
    have hp := pow256_pos (lost a)
    have hle : a / 256 ^ lost a * 256 ^ lost a ≤ a := Nat.div_mul_le_self _ _
    have hmono : 256 ^ lost a ≤ 256 ^ (byteLen a - 2) := Nat.pow_le_pow_right (by decide) (lost_le a)
    have hmod : a - a / 256 ^ lost a * 256 ^ lost a < 256 ^ lost a := by
      have := Nat.mod_lt a hp
      have e := Nat.div_add_mod a (256 ^ lost a)
      rw [Nat.mul_comm] at e
      omega
    have hcast : ((256 ^ (byteLen a - 2) : Nat) : Int) = (256 : Int) ^ (byteLen a - 2) := Int.natCast_pow _ _
    rw [← hcast]
    generalize a / 256 ^ lost a * 256 ^ lost a = r at *
    generalize 256 ^ (byteLen a - 2) = Q at *
    generalize 256 ^ lost a = P at *
    show (r : Int) ≤ (a : Int) ∧ (a : Int) - (r : Int) < (Q : Int)
    omega

/-- non-vacuity: the difficulty-1 target of 0x1d00ffff (0xffff·256^26, 28 bytes) is in the range. -/
example : ∃ n : Int, 0 ≤ n ∧ byteLen n.natAbs ≤ 254 ∧ 3 < byteLen n.natAbs := by
  have h : byteLen (0xffff * 256 ^ 26) = 28 := by
    rw [byteLen_mul_pow 0xffff 26 (by omega)]
    have : byteLen 0xffff = 2 := by
      rw [byteLen_pos 0xffff (by omega), byteLen_pos (0xffff / 256) (by omega)]
      have : 0xffff / 256 / 256 = 0 := by omega
      rw [this, byteLen_zero]
    rw [this]
  refine ⟨Int.ofNat (0xffff * 256 ^ 26), Int.natCast_nonneg _, ?_, ?_⟩ <;>
    (rw [show (Int.ofNat (0xffff * 256 ^ 26)).natAbs = 0xffff * 256 ^ 26 from rfl, h]; omega)

/-- Sharper bound when the top bit of the top byte is clear (no sign-bit shift): only the bytes
below the top three are lost, and integers of at most three bytes are reproduced exactly. -/
theorem big_roundtrip_sharp (n : Int) (h0 : 0 ≤ n) (hL : byteLen n.natAbs ≤ 255)
    (htop : 2 * n.natAbs < 256 ^ byteLen n.natAbs) :
    compactToBig (bigToCompact n) ≤ n ∧
    n - compactToBig (bigToCompact n) < 256 ^ (byteLen n.natAbs - 3) ∧
    (byteLen n.natAbs ≤ 3 → compactToBig (bigToCompact n) = n) := by
  obtain ⟨a, rfl⟩ := Int.eq_ofNat_of_zero_le h0
  have hab : (a : Int).natAbs = a := by simp
  rw [hab] at hL htop ⊢
  rcases Nat.eq_zero_or_pos a with h | ha
  · subst h
    have z : compactToBig (bigToCompact 0) = 0 := by unfold bigToCompact compactToBig; simp
    simp [z, byteLen_zero]
  · have hnb : ¬ 2 ^ 23 ≤ m0 a := by rw [bump_iff a ha]; omega
    have hb0 : bump (m0 a) = 0 := by unfold bump; simp [hnb]
    have hfit : byteLen a + bump (m0 a) ≤ 255 := by omega
    have hlost : lost a = byteLen a - 3 := by unfold lost; omega
    have := roundtrip_pos a ha hfit
    rw [show ((a : Nat) : Int) = Int.ofNat a from rfl, this, hlost]
    have hp := pow256_pos (byteLen a - 3)
    have hcast : ((256 ^ (byteLen a - 3) : Nat) : Int) = (256 : Int) ^ (byteLen a - 3) := Int.natCast_pow _ _
    rw [← hcast]
    have hP1 : byteLen a ≤ 3 → 256 ^ (byteLen a - 3) = 1 := by
      intro h3
      have : byteLen a - 3 = 0 := by omega
      rw [this]
    clear htop hnb hb0 hfit hlost this hcast
    generalize 256 ^ (byteLen a - 3) = P at *
    have hle : a / P * P ≤ a := Nat.div_mul_le_self _ _
    have hmod : a - a / P * P < P := by
      have := Nat.mod_lt a hp
      have e := Nat.div_add_mod a P
      rw [Nat.mul_comm] at e
      omega
    have hex : byteLen a ≤ 3 → a / P * P = a := by
      intro h3; rw [hP1 h3]; simp
    generalize a / P * P = r at *
    show (r : Int) ≤ (a : Int) ∧ (a : Int) - (r : Int) < (P : Int) ∧ (byteLen a ≤ 3 → (r : Int) = (a : Int))
    refine ⟨by omega, by omega, ?_⟩
    intro h3; have := hex h3; omega

/-- non-vacuity of the hypotheses (any positive integer with a clear top bit, e.g. 1). -/
example : ∃ n : Int, 0 ≤ n ∧ byteLen n.natAbs ≤ 255 ∧ 2 * n.natAbs < 256 ^ byteLen n.natAbs := by
  have h1 : byteLen 1 = 1 := by
    rw [byteLen_pos 1 (by omega)]
    have : 1 / 256 = 0 := by omega
    rw [this, byteLen_zero]
  refine ⟨1, by omega, ?_, ?_⟩ <;> simp [h1]

/-- The full statement is false of the code: for the 255-byte integer `2^2039` (top byte 0x80)
the exponent after the sign-bit shift is 256, `uint32(exponent<<24)` wraps to 0, and the value
decodes to 0 — the whole integer is lost, not only the bits below the mantissa. -/
theorem big_roundtrip_full_false : ¬ BigRoundtripFull := by
  intro h
  have hbl : byteLen (128 * 256 ^ 254) = 255 := by
    rw [byteLen_mul_pow 128 254 (by omega)]
    have : byteLen 128 = 1 := by
      rw [byteLen_pos 128 (by omega)]
      have : 128 / 256 = 0 := by omega
      rw [this, byteLen_zero]
    rw [this]
  have hm0 : m0 (128 * 256 ^ 254) = 2 ^ 23 := by
    unfold m0
    rw [hbl]
    simp only [show ¬ 255 ≤ 3 by decide, if_false]
  have henc : bigToCompact (Int.ofNat (128 * 256 ^ 254)) = 32768 := by
    rw [bigToCompact_pos _ (Nat.mul_pos (by decide) (pow256_pos _)), hbl, hm0]
    unfold enc; decide
  have hdec : compactToBig 32768 = 0 := by unfold compactToBig; simp
  have := (h (Int.ofNat (128 * 256 ^ 254)) (Int.natCast_nonneg _)).2
  rw [henc, hdec] at this
  have hab : (Int.ofNat (128 * 256 ^ 254)).natAbs = 128 * 256 ^ 254 := by simp
  rw [hab, hbl] at this
  have hcast : ((256 ^ (255 - 2) : Nat) : Int) = (256 : Int) ^ (255 - 2) := Int.natCast_pow _ _
  rw [← hcast] at this
  have hlt : (256 : Nat) ^ (255 - 2) < 128 * 256 ^ 254 := by
    have : (256 : Nat) ^ 254 = 256 ^ 253 * 256 := by rw [← Nat.pow_succ]
    rw [show 255 - 2 = 253 from rfl, this]
    have := pow256_pos 253
    omega
  generalize (256 : Nat) ^ (255 - 2) = Q at *
  generalize 128 * 256 ^ 254 = N at *
  simp at this
  omega

/-! ### total difficulty -/

/-- Appending blocks never decreases the total difficulty (sum of works). -/
theorem td_monotone (chain ext : List Nat) : td chain ≤ td (chain ++ ext) := by
  unfold td
  induction chain with
  | nil =>
    simp only [List.nil_append, List.map_nil, List.foldr_nil]
    induction ext with
    | nil => simp
    | cons b bs ih =>
      simp only [List.map_cons, List.foldr_cons]
      have := calcWork_nonneg b
      omega
  | cons c cs ih =>
    simp only [List.cons_append, List.map_cons, List.foldr_cons]
    omega

/-- Block by block easier targets (larger target values) give a total difficulty that is not
larger: fork choice by total work agrees with the encoded targets. -/
theorem td_antitone (bs bs' : List Nat)
    (hlen : bs.length = bs'.length)
    (h : ∀ p ∈ bs.zip bs', 0 < compactToBig p.1 ∧ compactToBig p.1 ≤ compactToBig p.2) :
    td bs' ≤ td bs := by
  unfold td
  induction bs generalizing bs' with
  | nil =>
    cases bs' with
    | nil => simp
    | cons _ _ => simp at hlen
  | cons c cs ih =>
    cases bs' with
    | nil => simp at hlen
    | cons c' cs' =>
      simp only [List.map_cons, List.foldr_cons]
      have hc := h (c, c') (by simp)
      have := calcWork_antitone c c' hc.1 hc.2
      have := ih cs' (by simpa using hlen) (fun p hp => h p (by simp [hp]))
      omega

end C20
