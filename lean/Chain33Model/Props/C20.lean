import Chain33Model.Model.C20
/-!
C20 — Difficulty compact encoding round-trips and orders work.  Property theorems only.
-/
namespace C20

/-- The work derived from a target never increases when the target increases
(both targets positive; a non-positive target has work 0 by definition). -/
theorem calcWork_antitone (c₁ c₂ : Nat)
    (h₁ : 0 < compactToBig c₁) (h : compactToBig c₁ ≤ compactToBig c₂) :
    calcWork c₂ ≤ calcWork c₁ := by
  have h₂ : 0 < compactToBig c₂ := Int.lt_of_lt_of_le h₁ h
  unfold calcWork
  simp only [show ¬ compactToBig c₁ ≤ 0 from by omega, show ¬ compactToBig c₂ ≤ 0 from by omega, if_false]
  generalize compactToBig c₁ = d₁ at *
  generalize compactToBig c₂ = d₂ at *
  have ha : (0 : Int) ≤ 2 ^ 256 := by decide
  have hq : (0 : Int) ≤ 2 ^ 256 / (d₂ + 1) := Int.ediv_nonneg ha (by omega)
  apply Int.le_ediv_of_mul_le (by omega)
  calc 2 ^ 256 / (d₂ + 1) * (d₁ + 1) ≤ 2 ^ 256 / (d₂ + 1) * (d₂ + 1) :=
        Int.mul_le_mul_of_nonneg_left (by omega) hq
    _ ≤ 2 ^ 256 := Int.ediv_mul_le _ (by omega)

/-- Work of a non-positive target is zero, so it never outranks a positive target. -/
theorem calcWork_nonpos (c : Nat) (h : compactToBig c ≤ 0) : calcWork c = 0 := by
  unfold calcWork; simp [h]

theorem calcWork_nonneg (c : Nat) : 0 ≤ calcWork c := by
  unfold calcWork
  by_cases h : compactToBig c ≤ 0
  · simp [h]
  · simp only [h, if_false]; exact Int.ediv_nonneg (by decide) (by omega)

end C20
