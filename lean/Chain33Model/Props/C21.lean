import Chain33Model.Model.C21
/-!
C21 — Mempool bookkeeping stays consistent.  Property theorems only (helpers in Proofs/C21*.lean).
-/
namespace C21

/-- Removing a hash that is not pooled changes nothing. -/
theorem remove_absent_unchanged (p : Pool) (id : Nat) (h : qExist p id = false) : remove p id = p := by
  unfold remove qGet kget
  unfold qExist kexist at h
  have : p.q.find? (fun it => it.tx.id == id) = none := by
    rw [List.find?_eq_none]
    intro x hx
    have := (List.any_eq_false.mp h) x hx
    simpa using this
  simp [this]

end C21
