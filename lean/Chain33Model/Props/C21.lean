import Chain33Model.Proofs.C21Sh
/-!
C21 — Mempool bookkeeping stays consistent.  Property theorems only (helpers: Proofs/C21*.lean).

The model (`Model/C21.lean`) has one labelled step per event the Go code performs under
`proxyMtx`: `push` (PushTx / the tail of admission), `removeTxs` (RemoveTxs, RemoveTxsOfBlock),
`setHeader`, `removeExpired` (the sweep), and the composite events `addBlock` (eventAddBlock) and
`delBlock` (eventDelBlock: new header, then re-push).  `run` folds any list of such events, so
a statement about `run cfg (Pool.empty h bt) ops` for all `ops` covers every interleaving of
submissions, block additions and rollbacks, removals, sweeps and queries.

Configuration hypotheses: `0 < perAcc`, `0 < lastMax` (NewMempool replaces 0 by 100 / 10).
-/
namespace C21

def witCfg : Cfg := ⟨4, 4, 3, 3, true⟩
/-- The two real transactions of corpus/C21/shash_collision.ops: hashes 5e1d34cf85 36cd… / a23b…. -/
def witA : Tx := ⟨1, 0, 175, 100000, 0, [0], false, false, 145098, 0x5e1d34cf85⟩
def witB : Tx := ⟨2, 1, 174, 100000, 0, [0], false, false, 523892, 0x5e1d34cf85⟩

/-- All transactions a history may push (direct pushes and rolled-back block contents). -/
def allTxs (ops : List Op) : List Tx := ops.flatMap Op.txs

/-- **pool_inv** — after every event of every history: no duplicate hash; size ≤ capacity; every
sender ≤ its limit; the per-sender index is exactly the contents grouped by sender in arrival order
(`GetAccTxs`, `TxNumOfAccount`), has no empty entry and no duplicate key; the latest-transactions
list is a sub-sequence of the contents in arrival order and never longer than its bound; the byte
counter and the fee total are the sums over the contents; the short-hash index holds only pooled
transactions, in arrival order, one per short hash. -/
theorem pool_inv (cfg : Cfg) (hper : 0 < cfg.perAcc) (hlast : 0 < cfg.lastMax) (h bt : Int) (ops : List Op) :
    let p := run cfg (Pool.empty h bt) ops
    (ids p).Nodup ∧ p.q.length ≤ cfg.cap ∧ (∀ s, (bySender p s).length ≤ cfg.perAcc) ∧
    (∀ s, accTxs p.acc s = bySender p s) ∧ (∀ s, accNum p.acc s = (bySender p s).length) ∧
    (∀ e ∈ p.acc, e.2 ≠ []) ∧ (p.acc.map (·.1)).Nodup ∧
    p.last.Sublist (contents p) ∧ p.last.length ≤ cfg.lastMax ∧
    p.bytes = sumSize p.q ∧ p.fee = sumFee p.q ∧
    p.sh.Sublist (contents p) ∧ (p.sh.map (·.sh)).Nodup := by
  intro p
  have hi : Inv cfg p :=
    (inv_closed cfg hper hlast).run ops _ (fun _ _ _ _ => trivial) (inv_empty cfg h bt)
  refine ⟨hi.nodup, hi.cap, hi.perSender, hi.accAgree, ?_, hi.accNoEmpty, hi.accKeys, hi.lastSub, hi.lastLen,
    hi.bytes, hi.fee, hi.shSub, hi.shKeys⟩
  intro s
  have := hi.accAgree s
  unfold accTxs at this
  unfold accNum
  cases hg : accGet p.acc s with
  | none => rw [hg] at this; rw [← this]; rfl
  | some l => rw [hg] at this; rw [← this]

/-- The invariant is inductive: it survives any single event from any state satisfying it
(so it also holds between the lock-protected sub-steps of the composite events). -/
theorem pool_inv_step (cfg : Cfg) (hper : 0 < cfg.perAcc) (hlast : 0 < cfg.lastMax) (p : Pool) (op : Op)
    (hi : Inv cfg p) : Inv cfg (step cfg p op).1 :=
  (inv_closed cfg hper hlast).step p op (fun _ _ => trivial) hi

/-- A push that is refused (per-sender limit, duplicate hash, pool full) changes nothing. -/
theorem push_fail_unchanged (cfg : Cfg) (hper : 0 < cfg.perAcc) (p : Pool) (tx : Tx) (now : Int)
    (h : (push cfg p tx now).2 ≠ .ok) : (push cfg p tx now).1 = p :=
  push_fail_unchanged' cfg hper p tx now h

/-- Removing a hash that is not pooled changes nothing. -/
theorem remove_absent_unchanged (p : Pool) (id : Nat) (h : qExist p id = false) : remove p id = p := by
  unfold remove
  have : qGet p id = none := kget_none_of_not_exist _ _ _ h
  simp [this]

/-- `RemoveTxs` of hashes none of which is pooled changes nothing. -/
theorem removeTxs_absent_unchanged (p : Pool) (is : List Nat) (h : ∀ id ∈ is, qExist p id = false) :
    removeTxs p is = p := by
  induction is with
  | nil => rfl
  | cons i is ih =>
    rw [removeTxs_cons]
    have hi := h i (List.mem_cons_self ..)
    simp only [hi, Bool.false_eq_true, if_false]
    exact ih (fun id hid => h id (List.mem_cons_of_mem _ hid))

/-- **block_removed** — at the instant after `RemoveTxsOfBlock`, and at the end of the add-block
event taken as one step (header update, removal, expiry sweep), no transaction of the block is in
the pool.  This is NOT an invariant of later states: in the Go code the three parts of
`eventAddBlock` are separate lock sections and a submission that passed `CheckDupTx` before the
block connected may be pushed afterwards (`block_removed_not_invariant`); absence is kept exactly
until a transaction with that hash is pushed again (`block_removed_until_pushed`). -/
theorem block_removed (cfg : Cfg) (p : Pool) (bh bbt : Int) (blockIds : List Nat) (now : Int) :
    (∀ id ∈ blockIds, id ∉ ids (removeTxs p blockIds)) ∧
    (∀ id ∈ blockIds, id ∉ ids (addBlock cfg p bh bbt blockIds now)) :=
  ⟨removeTxs_gone blockIds p, addBlock_gone cfg p bh bbt blockIds now⟩

/-- Once absent, a hash stays absent through every event that does not push a transaction with that
hash (removals, sweeps, header updates, other pushes, other blocks). -/
theorem block_removed_until_pushed (cfg : Cfg) (hper : 0 < cfg.perAcc) (id : Nat) (p : Pool) (ops : List Op)
    (habs : id ∉ ids p) (hno : ∀ op ∈ ops, ∀ t ∈ op.txs, t.id ≠ id) : id ∉ ids (run cfg p ops) :=
  (absent_closed cfg hper id).run ops p hno habs

/-- The witness: block {1} is added (tx 1 leaves the pool), then a late `PushTx` of tx 1 — already
past the duplicate check — puts it back. -/
theorem block_removed_not_invariant :
    1 ∈ ids (run witCfg (Pool.empty 5 100) [.push witA 100, .addBlock 6 200 [1] 150, .push witA 160]) ∧
    1 ∉ ids (run witCfg (Pool.empty 5 100) [.push witA 100, .addBlock 6 200 [1] 150]) := by decide

/-- After a successful push the new transaction is the newest entry of the pool and of the
latest-transactions list. -/
theorem latest_has_newest (cfg : Cfg) (hper : 0 < cfg.perAcc) (hlast : 0 < cfg.lastMax) (p : Pool) (tx : Tx)
    (now : Int) (hi : Inv cfg p) (hok : (push cfg p tx now).2 = .ok) :
    (contents (push cfg p tx now).1).getLast? = some tx ∧ ((push cfg p tx now).1).last.getLast? = some tx :=
  push_ok_newest cfg hper hlast p tx now hi hok

/-! ### short-hash lookup -/

/-- Unconditional half: whatever a short-hash lookup returns is pooled and has that short hash. -/
theorem shash_lookup_sound (cfg : Cfg) (hper : 0 < cfg.perAcc) (hlast : 0 < cfg.lastMax) (h bt : Int) (ops : List Op)
    (s : Nat) (t : Tx) (hb : byShort (run cfg (Pool.empty h bt) ops) s = some t) :
    t ∈ contents (run cfg (Pool.empty h bt) ops) ∧ t.sh = s :=
  byShort_sound cfg _ ((inv_closed cfg hper hlast).run ops _ (fun _ _ _ _ => trivial) (inv_empty cfg h bt)) s t hb

/-- The full statement of the property text for the short-hash lookup: every pooled transaction is
found through its short hash (the answer being a pooled transaction with that short hash). -/
def ShashFullStatement : Prop :=
  ∀ (cfg : Cfg), 0 < cfg.perAcc → 0 < cfg.lastMax → cfg.cap ≤ cfg.shMax → ∀ (h bt : Int) (ops : List Op),
    ∀ t ∈ contents (run cfg (Pool.empty h bt) ops),
      ∃ t', byShort (run cfg (Pool.empty h bt) ops) t.sh = some t' ∧
        t' ∈ contents (run cfg (Pool.empty h bt) ops) ∧ t'.sh = t.sh

def witOps : List Op := [.push witA 1700000100, .push witB 1700000100, .removeTxs [2]]

/-- **S-C21** — the full statement is false of the model (and of the code, replayed by
corpus/C21/shash_collision.ops): push A, push B with the same 5-byte short hash (B is not indexed),
remove B (deletes A's entry): A is pooled but its short hash finds nothing. -/
theorem shash_agrees_full_false : ¬ ShashFullStatement := by
  intro h
  have := h witCfg (by decide) (by decide) (by decide) 5 1700000100 witOps witA (by decide)
  revert this
  decide

/-- **shash_agrees_partial** — hypothesis added: no two transactions of the history with different
hashes share a short hash (and the index is at least as large as the queue, `cap ≤ shMax`, as the
timeline constructor guarantees).  Then every pooled transaction is found by its short hash. -/
theorem shash_agrees_partial (cfg : Cfg) (hper : 0 < cfg.perAcc) (hlast : 0 < cfg.lastMax) (hcap : cfg.cap ≤ cfg.shMax)
    (h bt : Int) (ops : List Op)
    (hnc : ∀ a ∈ allTxs ops, ∀ b ∈ allTxs ops, a.sh = b.sh → a.id = b.id) :
    ∀ t ∈ contents (run cfg (Pool.empty h bt) ops), byShort (run cfg (Pool.empty h bt) ops) t.sh = some t := by
  let U : Tx → Prop := fun t => t ∈ allTxs ops
  have hU : ∀ a b, U a → U b → a.sh = b.sh → a.id = b.id := fun a b ha hb => hnc a ha b hb
  have hc := shInv_closed cfg hper hlast hcap U hU
  have hrun := hc.run ops (Pool.empty h bt)
    (fun op ho t ht => List.mem_flatMap.mpr ⟨op, ho, ht⟩) (shInv_empty cfg U h bt)
  exact byShort_of_shInv cfg U hU _ hrun

/-! ### non-vacuity -/

def exC : Tx := ⟨3, 0, 200, 150000, 12, [12], false, false, 7, 0x1122334455⟩
def exOps : List Op :=
  [.push witA 100, .push exC 100, .push witA 101, .addBlock 6 200 [3] 150, .push exC 160, .removeExpired 800]

/-- the hypotheses of `pool_inv` / `shash_agrees_partial` are met by a concrete configuration and
history, whose run is non-trivial (two pushes succeed, one is refused as a duplicate, a block
removes one, the sweep removes the rest). -/
example : 0 < witCfg.perAcc ∧ 0 < witCfg.lastMax ∧ witCfg.cap ≤ witCfg.shMax ∧
    (∀ a ∈ allTxs exOps, ∀ b ∈ allTxs exOps, a.sh = b.sh → a.id = b.id) ∧
    (ids (run witCfg (Pool.empty 5 100) (exOps.take 2))) = [1, 3] ∧
    (push witCfg (run witCfg (Pool.empty 5 100) (exOps.take 2)) witA 101).2 = .errTxExist ∧
    (ids (run witCfg (Pool.empty 5 100) (exOps.take 4))) = [1] ∧
    (ids (run witCfg (Pool.empty 5 100) exOps)) = [] := by decide

end C21
