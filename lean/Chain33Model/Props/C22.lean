import Chain33Model.Model.C22
/-!
C22 — Mempool admits only acceptable transactions.  Property theorems only.
-/
namespace C22
open C21

/-- A submission that fails any check before `PushTx` leaves the pool untouched. -/
theorem precheck_reject_no_change (cfg : Cfg) (a : ACfg) (p : Pool) (v : View) (s : Sub) (now : Int) (e : Err)
    (h : precheck cfg a p v s now = .error e) : (admitTx cfg a p v s now).1 = p := by
  simp [admitTx, h]

end C22
