import Chain33Model.Proofs.C22
/-!
C22 — Mempool admits only acceptable transactions.  Property theorems only.

`admitTx cfg a p v s now` models the whole path of one `EventTx`: `checkTxs` (types-level fee check,
tiered fee, per-member `checkTx`), `checkSign`, `checkTxRemote` (duplicate-on-chain, executor
check, `evmTxNonceCheck`) and `PushTx`.  A submission `s` is the pooled record `s.tx` plus one
`Member` per group member (one for a plain transaction).  Oracle inputs: signature validity,
recipient validity, blacklist hit (per member), the chain's duplicate set, the executor verdict,
the senders' current nonces (`View`).
-/
namespace C22
open C21

/-- **admit_sound_partial** — if a submission is admitted then, for a plain transaction and for every
member of a group: all signatures verify; the hash is not already pooled; no member is on the chain;
the HEAD's eth nonce (the code checks `tx.Tx()` only) is neither below its sender's current nonce nor
already pending; and the new pool is exactly `push` of the record.  Hypothesis added for the other six
clauses, `s.fwd = false` (the node does not forward the transaction to the main chain — always true on
a main-chain node): no member is expired for the next block (height / block time / TxHeight window);
the fee covers the minimum at the base rate and, when the tiered fee is enabled, at the tier's rate;
every recipient is valid; every member's sender is below the per-sender limit; no involved account
is blacklisted.  See `admit_full_false` / `member_nonce_full_false` for what fails without it. -/
theorem admit_sound_partial (cfg : Cfg) (a : ACfg) (p : Pool) (v : View) (s : Sub) (now : Int) (p' : Pool)
    (h : admitTx cfg a p v s now = (p', .ok ())) :
    (∀ m ∈ s.ms, m.sigOk = true) ∧
    s.tx.id ∉ ids p ∧
    (∀ m ∈ s.ms, m.id ∉ v.chain) ∧
    (s.tx.eth = true → curNonce v s.tx.snd ≤ s.tx.nonce ∧
        ∀ t ∈ accTxs p.acc s.tx.snd, t.id ≠ s.tx.id → t.nonce ≠ s.tx.nonce) ∧
    push cfg p s.tx now = (p', .ok) ∧
    (s.fwd = false →
      (∀ m ∈ s.ms, expired1 cfg m.exp (p.h + 1) p.bt = false) ∧
      (a.minFee ≠ 0 → ∃ t, totalFee s.ms a.minFee = .ok t ∧ t ≤ s.tx.fee) ∧
      (a.level = true → ∃ t, totalFee s.ms (levelRate a p) = .ok t ∧ t ≤ s.tx.fee) ∧
      (∀ m ∈ s.ms, m.toOk = true) ∧
      (∀ m ∈ s.ms, accNum p.acc m.snd < cfg.perAcc) ∧
      (∀ m ∈ s.ms, m.bl = false)) := by
  unfold admitTx at h
  cases hpre : precheck cfg a p v s now with
  | error e => rw [hpre] at h; simp at h
  | ok u =>
    cases u
    rw [hpre] at h
    simp only at h
    have hpush : push cfg p s.tx now = (p', .ok) := by
      cases hp : push cfg p s.tx now with
      | mk q r =>
        rw [hp] at h
        cases r <;> simp at h
        rw [h]
    unfold precheck at hpre
    simp only [seq_ok] at hpre
    obtain ⟨htxs, hsig, hdup, _, hnonce⟩ := hpre
    refine ⟨?_, ?_, ?_, fun heth => nonceCheck_ok p v s.tx hnonce heth, hpush, ?_⟩
    · by_cases hs : s.ms.all (·.sigOk) = true
      · intro m hmm; exact List.all_eq_true.mp hs m hmm
      · simp [hs] at hsig
    · have := push_ok_not_exist cfg p s.tx now (by rw [hpush])
      exact (qExist_false_iff p s.tx.id).mp this
    · by_cases hd : s.ms.any (fun m => v.chain.contains m.id) = true
      · simp only [hd, if_true] at hdup; cases hdup
      · intro m hmm hc
        apply hd
        rw [List.any_eq_true]
        exact ⟨m, hmm, by simpa using hc⟩
    · intro hf
      unfold checkTxs at htxs
      simp only [hf, Bool.false_eq_true, if_false, seq_ok] at htxs
      obtain ⟨hfee, hlvl, hmem⟩ := htxs
      rw [firstErr_ok] at hmem
      have hm := fun m hm => checkMember_ok cfg p now m (hmem m hm)
      refine ⟨fun m h => (hm m h).2.2.2.1, fun hmin => checkFee_ok a s hfee hmin, ?_,
        fun m h => (hm m h).1, fun m h => (hm m h).2.2.1, fun m h => (hm m h).2.1⟩
      intro hl
      rw [hl] at hlvl
      exact checkLevelFee_ok a p s hlvl

/-- The property text without the forwarding hypothesis: an admitted submission has no expired
member, only valid recipients, no blacklisted account and every sender below its limit. -/
def AdmitFullStatement : Prop :=
  ∀ (cfg : Cfg) (a : ACfg) (p : Pool) (v : View) (s : Sub) (now : Int),
    replyCode (admitTx cfg a p v s now).2 = none →
      (∀ m ∈ s.ms, expired1 cfg m.exp (p.h + 1) p.bt = false) ∧ (∀ m ∈ s.ms, m.toOk = true) ∧
      (∀ m ∈ s.ms, accNum p.acc m.snd < cfg.perAcc) ∧ (∀ m ∈ s.ms, m.bl = false)

/-- The nonce clause for every eth-signed member (the property says "for eth-signed senders"). -/
def MemberNonceFullStatement : Prop :=
  ∀ (cfg : Cfg) (a : ACfg) (p : Pool) (v : View) (s : Sub) (now : Int),
    replyCode (admitTx cfg a p v s now).2 = none →
      ∀ m ∈ s.ms, m.eth = true → curNonce v m.snd ≤ m.nonce

def fwCfg : Cfg := ⟨4, 4, 2, 3, false⟩
def fwA : ACfg := ⟨100000, 1000000000, 10000000, false, false, true, 10000⟩
/-- forwarded on a para-chain node: expired at the next height (6), invalid recipient, blacklisted, fee 0 -/
def fwSub : Sub :=
  ⟨⟨1, 0, 175, 0, 6, [6], false, false, 3, 0x5e1d34cf85⟩, [⟨1, 0, 175, 0, 6, true, false, true, true, false, 3⟩], true⟩
/-- a group whose second member is eth-signed with nonce 2 while its sender's current nonce is 5 -/
def mnSub : Sub :=
  ⟨⟨1, 0, 700, 200000, 0, [0, 0], false, false, 9, 0x5e1d34cf85⟩,
   [⟨1, 0, 250, 200000, 0, true, true, false, true, false, 9⟩, ⟨2, 7, 260, 0, 0, true, true, false, true, true, 2⟩], false⟩

/-- **C22-forward** — `AdmitFullStatement` is false of the model, and of the code (harness: para-chain
histories, finding `C22|checkTxs-forward2main|admitted-without-basic-checks`). -/
theorem admit_full_false : ¬ AdmitFullStatement := by
  intro h
  have := h fwCfg fwA (Pool.empty 5 100) ⟨[], [], []⟩ fwSub 100 (by decide)
  revert this
  decide

/-- **C22-member-nonce** — only the head's nonce is checked (finding
`C22|evmTxNonceCheck|admitted-group-with-unchecked-non-head-eth-member-nonce`). -/
theorem member_nonce_full_false : ¬ MemberNonceFullStatement := by
  intro h
  have := h fwCfg fwA (Pool.empty 5 100) ⟨[], [], [(7, 5)]⟩ mnSub 100 (by decide)
  revert this
  decide

/-- **reject_no_change** — a submission that is not admitted leaves the pool exactly as it was. -/
theorem reject_no_change (cfg : Cfg) (hper : 0 < cfg.perAcc) (a : ACfg) (p : Pool) (v : View) (s : Sub) (now : Int)
    (p' : Pool) (e : Err) (h : admitTx cfg a p v s now = (p', .error e)) : p' = p := by
  unfold admitTx at h
  cases hpre : precheck cfg a p v s now with
  | error e' => rw [hpre] at h; simp at h; exact h.1.symm
  | ok u =>
    cases u
    rw [hpre] at h
    simp only at h
    cases hp : push cfg p s.tx now with
    | mk q r =>
      have hfail := push_fail_unchanged' cfg hper p s.tx now
      rw [hp] at h hfail
      cases r
      · simp at h
      all_goals
        simp at h
        rw [← h.1]
        exact hfail (by simp)

/-- The reply is `ok` exactly when the record was pushed (no silent drop, no unannounced entry). -/
theorem admit_ok_iff_pushed (cfg : Cfg) (a : ACfg) (p : Pool) (v : View) (s : Sub) (now : Int) :
    (admitTx cfg a p v s now).2 = .ok () ↔
      precheck cfg a p v s now = .ok () ∧ (push cfg p s.tx now).2 = .ok := by
  unfold admitTx
  cases hpre : precheck cfg a p v s now with
  | error e => simp
  | ok u =>
    cases u
    cases hp : push cfg p s.tx now with
    | mk q r => cases r <;> simp

/-! ### non-vacuity: a concrete acceptable submission (`fwd = false`) is admitted, a violating one is rejected -/

def exCfg : Cfg := ⟨4, 4, 2, 3, true⟩
def exA : ACfg := ⟨100000, 1000000000, 10000000, false, false, true, 10000⟩
def exTx : Tx := ⟨1, 0, 175, 100000, 0, [0], true, true, 3, 0x5e1d34cf85⟩
def exSub : Sub := ⟨exTx, [⟨1, 0, 175, 100000, 0, true, true, false, true, true, 3⟩], false⟩
def exView : View := ⟨[9], [], [(0, 3)]⟩

example : replyCode (admitTx exCfg exA (Pool.empty 5 100) exView exSub 100).2 = none ∧
    ids (admitTx exCfg exA (Pool.empty 5 100) exView exSub 100).1 = [1] ∧
    replyCode (admitTx exCfg exA (Pool.empty 5 100) ⟨[1], [], []⟩ exSub 100).2 = some .dupTx ∧
    replyCode (admitTx exCfg exA (Pool.empty 5 100) ⟨[], [], [(0, 4)]⟩ exSub 100).2 = some .nonceTooLow ∧
    replyCode (admitTx exCfg { exA with minFee := 100001 } (Pool.empty 5 100) exView exSub 100).2 =
      some .txFeeTooLow := by
  decide

end C22
