import Chain33Model.Model.C23
/-!
C23 — Mempool hands block producers only packable transactions.  Property theorems only.
-/
namespace C23
open C21

/-- The walk never collects more than `count` entries (`count > 0`). -/
theorem collect_len_le (keep : Item → Bool) (count : Nat) (hc : 0 < count) :
    ∀ (l : List Item) (n : Nat), n < count → (collect keep count l n).length + n ≤ count := by
  intro l
  induction l with
  | nil => intro n hn; simp [collect]; omega
  | cons it rest ih =>
    intro n hn
    unfold collect
    by_cases hk : keep it
    · simp only [hk, if_true]
      by_cases he : (decide (count > 0) && n + 1 == count) = true
      · simp [he]; omega
      · simp only [he]
        have hne : n + 1 ≠ count := by
          intro h; apply he; simp [h, hc]
        have := ih (n + 1) (by omega)
        simp only [List.length_cons, Bool.false_eq_true, if_false]
        omega
    · simp only [hk, Bool.false_eq_true, if_false]
      exact ih n hn

end C23
