import Chain33Model.Proofs.C23
/-!
C23 — Mempool hands block producers only packable transactions.  Property theorems only.

`getTxList cfg p count excl isAll now forkSort order cur` models `Mempool.getTxList` /
`filterTxList` followed (after ForkCheckEthTxSort) by `sortEthSignTyTx`.  `order` is the order in
which the Go code happens to iterate its map of eth senders — every theorem below holds for EVERY
duplicate-free `order` (a Go map has distinct keys), and `cur` is the current-nonce oracle
(`getCurrentNonce`).  `isAll = false` is the block-producer path (`EventTxList`).
-/
namespace C23
open C21

variable (cfg : Cfg) (p : Pool) (count : Nat) (excl : List Nat) (now : Int) (forkSort : Bool)
  (order : List Nat) (cur : Nat → Int)

/-- **len_le_count** — at most the requested number of entries (`0 < count`: `EventTxList` refuses
`count ≤ 0` with ErrSize; internally `count = 0` means "all", used by `EventGetMempool`). -/
theorem len_le_count (hc : 0 < count) (hnd : order.Nodup) (isAll : Bool) :
    (getTxList cfg p count excl isAll now forkSort order cur).length ≤ count := by
  unfold getTxList
  have h := collect_len (keeps cfg p excl isAll now) count hc p.q 0 hc
  simp only [Nat.add_zero] at h
  cases forkSort
  · simpa using h
  · simp only [if_true]
    exact Nat.le_trans (sortEth_len order hnd cur _) h

/-- every returned transaction is a pooled entry that the walk kept -/
theorem returned_kept (isAll : Bool) (t : Tx)
    (ht : t ∈ getTxList cfg p count excl isAll now forkSort order cur) :
    ∃ it ∈ p.q, it.tx = t ∧ keeps cfg p excl isAll now it = true := by
  unfold getTxList at ht
  cases forkSort
  · exact collect_keep _ _ _ _ _ (by simpa using ht)
  · exact collect_keep _ _ _ _ _ (mem_sortEth order cur _ t (by simpa using ht))

/-- **nodup** — no transaction is returned twice (for a pool without duplicate hashes, which
`C21.pool_inv` guarantees). -/
theorem nodup (hp : (ids p).Nodup) (hnd : order.Nodup) (isAll : Bool) :
    ((getTxList cfg p count excl isAll now forkSort order cur).map (·.id)).Nodup := by
  have hcn : ((contents p).map (·.id)).Nodup := by rw [← ids_eq]; exact hp
  have hsub := collect_sublist (keeps cfg p excl isAll now) count p.q 0
  have hcol : ((collect (keeps cfg p excl isAll now) count p.q 0).map (·.id)).Nodup :=
    hcn.sublist (hsub.map _)
  unfold getTxList
  cases forkSort
  · simpa using hcol
  · simp only [if_true]
    apply List.Nodup.map_on
    · intro a ha b hb hab
      have ha' := hsub.subset (mem_sortEth order cur _ a ha)
      have hb' := hsub.subset (mem_sortEth order cur _ b hb)
      exact key_inj_of_nodup Tx.id _ hcn a ha' b hb' hab
    · exact sortEth_nodup order hnd cur _ (List.Nodup.of_map _ hcol)

/-- **excluded_absent** — none of the caller-excluded hashes is returned. -/
theorem excluded_absent (isAll : Bool) :
    ∀ id ∈ excl, id ∉ (getTxList cfg p count excl isAll now forkSort order cur).map (·.id) := by
  intro id hid hmem
  obtain ⟨t, ht, rfl⟩ := List.mem_map.mp hmem
  obtain ⟨it, _, rfl, hk⟩ := returned_kept cfg p count excl now forkSort order cur isAll t ht
  unfold keeps at hk
  simp at hk
  exact hk.1 hid

/-- **none_expired** — on the block-producer path no returned transaction is expired for the next
block: not by pool age (600 s), not by height, block time or TxHeight window of any member, evaluated
at the next height and the current header's block time exactly as `isExpired` does. -/
theorem none_expired (t : Tx) (ht : t ∈ getTxList cfg p count excl false now forkSort order cur) :
    ∃ it ∈ p.q, it.tx = t ∧ now - it.enter < poolExpire ∧ ∀ v ∈ t.exps, expired1 cfg v (p.h + 1) p.bt = false := by
  obtain ⟨it, hit, rfl, hk⟩ := returned_kept cfg p count excl now forkSort order cur false t ht
  refine ⟨it, hit, rfl, ?_⟩
  unfold keeps isExpired txExpired at hk
  simp only [Bool.not_false, Bool.and_true, Bool.and_eq_true, Bool.not_eq_true', Bool.or_eq_false_iff,
    decide_eq_false_iff_not, List.any_eq_false] at hk
  refine ⟨by omega, ?_⟩
  intro v hv
  have := hk.2.2 v hv
  simpa using this

/-- **non_eth_keep_order** — the transactions outside the nonce-sorted class (not eth-signed, or
para-chain) are returned exactly as the walk collected them: nothing dropped, nothing reordered,
and in the pool's arrival order. -/
theorem non_eth_keep_order (isAll : Bool) :
    (getTxList cfg p count excl isAll now forkSort order cur).filter (fun t => !t.esort) =
      (collect (keeps cfg p excl isAll now) count p.q 0).filter (fun t => !t.esort) ∧
    ((getTxList cfg p count excl isAll now forkSort order cur).filter (fun t => !t.esort)).Sublist (contents p) := by
  have h1 : (getTxList cfg p count excl isAll now forkSort order cur).filter (fun t => !t.esort) =
      (collect (keeps cfg p excl isAll now) count p.q 0).filter (fun t => !t.esort) := by
    unfold getTxList
    cases forkSort
    · simp
    · simp only [if_true]; exact sortEth_plain order cur _
  refine ⟨h1, ?_⟩
  rw [h1]
  exact (List.filter_sublist).trans (collect_sublist _ _ _ _)

/-- **eth_consecutive_partial** — hypotheses added to the property text: (1) `forkSort = true`, i.e.
ForkCheckEthTxSort is active at the header's height (below it the code does not sort at all);
(2) the class is `esort` = eth-signed AND NOT a para-chain executor (`sortEthSignTyTx` leaves
eth-signed `user.p.` transactions in arrival order: the main chain cannot know their nonces).
Then for every sender the returned transactions of that class carry the nonces
`cur s, cur s + 1, cur s + 2, …` in that order.  Both hypotheses are necessary:
`eth_consecutive_full_false_para`, `eth_consecutive_full_false_prefork`. -/
theorem eth_consecutive_partial (hnd : order.Nodup) (isAll : Bool) (s : Nat) :
    consecFrom (cur s)
      (((getTxList cfg p count excl isAll now true order cur).filter (fun t => t.esort && t.snd == s)).map (·.nonce)) := by
  unfold getTxList
  simp only [if_true]
  exact sortEth_eth order hnd cur _ s

/-- **eth_up_to_first_gap_partial** (same two hypotheses as `eth_consecutive_partial`) — the chain of a sender is not cut short: the nonce following the last
returned one is carried by none of that sender's collected transactions (so the sender's returned
transactions are exactly the nonces `cur s, cur s + 1, …` up to the first gap).  `s ∈ order`: the
Go map's keys are all eth senders of the collected list. -/
theorem eth_up_to_first_gap_partial (hnd : order.Nodup) (isAll : Bool) (s : Nat) (hs : s ∈ order) :
    ∀ t ∈ collect (keeps cfg p excl isAll now) count p.q 0, t.esort = true → t.snd = s →
      t.nonce ≠ cur s +
        ((getTxList cfg p count excl isAll now true order cur).filter (fun t => t.esort && t.snd == s)).length := by
  intro t ht he hsnd
  unfold getTxList
  simp only [if_true]
  rw [sortEth_sender_eq order hnd cur _ s hs ⟨t, ht, he⟩]
  unfold chainOf
  apply chain_gap
  rw [List.mem_filter]
  exact ⟨ht, by simp [he, hsnd]⟩

/-- The property text as written: for every sender, ALL its eth-signed returned transactions carry
consecutive nonces from the current nonce — whatever the fork state and the executor. -/
def EthFullStatement : Prop :=
  ∀ (cfg : Cfg) (p : Pool) (count : Nat) (excl : List Nat) (now : Int) (forkSort : Bool) (order : List Nat)
    (cur : Nat → Int), order.Nodup → ∀ s,
    consecFrom (cur s)
      (((getTxList cfg p count excl false now forkSort order cur).filter (fun t => t.eth && t.snd == s)).map (·.nonce))

def wCfg : Cfg := ⟨8, 8, 8, 3, true⟩
/-- eth-signed, para-chain executor (`esort = false`), sender 7, nonces 5 then 3 in arrival order -/
def wPara : Pool :=
  { Pool.empty 10 1000 with
    q := [⟨⟨1, 7, 100, 100000, 0, [0], true, false, 5, 1⟩, 50⟩, ⟨⟨2, 7, 100, 100000, 0, [0], true, false, 3, 2⟩, 50⟩] }
/-- eth-signed main-chain transactions, nonces 4 then 3 in arrival order -/
def wPre : Pool :=
  { Pool.empty 10 1000 with
    q := [⟨⟨1, 7, 100, 100000, 0, [0], true, true, 4, 1⟩, 50⟩, ⟨⟨2, 7, 100, 100000, 0, [0], true, true, 3, 2⟩, 50⟩] }

instance (n : Int) (l : List Int) : Decidable (consecFrom n l) := by
  induction l generalizing n with
  | nil => exact isTrue trivial
  | cons x xs ih => unfold consecFrom; exact inferInstanceAs (Decidable (_ ∧ _))

/-- eth-signed para-chain transactions are returned in arrival order (nonces 5, 3 with current nonce 3),
also on the real code (finding `C23|sortEthSignTyTx|eth-signed-para-exec-not-nonce-ordered`). -/
theorem eth_consecutive_full_false_para : ¬ EthFullStatement := by
  intro h
  have := h wCfg wPara 5 [] 100 true [7] (fun _ => 3) (by decide) 7
  revert this
  decide

/-- below ForkCheckEthTxSort nothing is sorted (nonces 4, 3 returned in arrival order) -/
theorem eth_consecutive_full_false_prefork : ¬ EthFullStatement := by
  intro h
  have := h wCfg wPre 5 [] 100 false [7] (fun _ => 3) (by decide) 7
  revert this
  decide

/-! ### non-vacuity -/

def exCfg : Cfg := ⟨8, 8, 8, 3, true⟩
def mk (id snd : Nat) (es : Bool) (nonce : Int) (exp : Int) : Tx := ⟨id, snd, 100, 100000, exp, [exp], es, es, nonce, id⟩
/-- pool: plain t1, eth sender 7 with nonces 4,3,6 (arrival order), plain t5 expired by height, plain t6 -/
def exPool : Pool :=
  { Pool.empty 10 1000 with
    q := [⟨mk 1 0 false 0 0, 50⟩, ⟨mk 2 7 true 4 0, 50⟩, ⟨mk 3 7 true 3 0, 50⟩, ⟨mk 4 7 true 6 0, 50⟩,
          ⟨mk 5 1 false 0 11, 50⟩, ⟨mk 6 1 false 0 0, 50⟩] }

/-- a concrete query: count 5, t6 excluded, sender 7's current nonce is 3 → `t1` then `t3, t2`
(nonces 3, 4; 6 is behind a gap; t5 expired; t6 excluded). -/
example : (getTxList exCfg exPool 5 [6] false 100 true [7] (fun _ => 3)).map (·.id) = [1, 3, 2] ∧
    [7].Nodup ∧ 7 ∈ [7] ∧ (ids exPool).Nodup := by decide

end C23
