import Chain33Model.Proofs.C24Queue
/-!
C24 — Score-ordered queue keeps order and capacity.  Property theorems only (helpers are in
`Proofs/C24.lean`, `Proofs/C24Queue.lean`).

Layers: (1) the skip list as lanes over one node list: the multi-lane search equals the linear
search, `Insert`/`Delete` keep the lanes invariant for every level choice and are the sorted-list
operations; (2) the queue (`Push`/`Remove` with buckets, map, byte counter) refines the reference
stable sorted list `specPush`/`specRemove` for every op sequence and every level choice;
(3) the reference list itself has the stated order/capacity/eviction properties.
-/
namespace C24

/-! ## (1) skip list -/

/-- **lanes_inv**: holds initially, and is preserved by `Insert` for *every* level `≥ 1` (whatever
`randomLevel` returns) and by `Delete`. -/
theorem lanes_inv {β : Type} (sl : SkipList β) (inv : LanesInv sl) (score : Int) (v : β) (lvl : Nat)
    (hl : 1 ≤ lvl) :
    LanesInv (SkipList.new : SkipList β) ∧
    LanesInv (sl.insert score v lvl) ∧
    LanesInv (sl.delete score).1 :=
  ⟨lanesInv_new, lanesInv_insert sl inv score v lvl hl, lanesInv_delete sl inv score⟩

/-- what the invariant says about the lanes: every lane is in descending score order, lane `i+1`
is a sub-list of lane `i`, lane 0 is the whole list and lanes at or above `sl.level` are empty. -/
theorem lanes_sorted_nested {β : Type} (sl : SkipList β) (inv : LanesInv sl) (i : Nat) :
    Desc (lane sl.nodes i) ∧ (lane sl.nodes (i + 1)).Sublist (lane sl.nodes i) ∧
    lane sl.nodes 0 = sl.nodes ∧ (sl.level ≤ i → lane sl.nodes i = []) :=
  ⟨lane_desc _ inv.sorted i, lane_sublist_succ _ i, lane_zero sl inv, lane_top_empty sl inv i⟩

/-- non-vacuity: a three-node list with levels 2,1,3 satisfies the invariant -/
example : LanesInv ({ nodes := [⟨9, 2, ()⟩, ⟨5, 1, ()⟩, ⟨5, 3, ()⟩], level := 3 } : SkipList Unit) :=
  ⟨by simp [Desc], by decide, by simp, Or.inr ⟨⟨5, 3, ()⟩, by simp, rfl⟩⟩

/-- **lane0_eq_sorted_insert**: the bottom lane after `Insert` is the stable sorted insert (behind
every node whose score is ≥ the new one) — for every level; after `Delete` it is the list without
the first node of that score, and `Delete` reports whether there was one. -/
theorem lane0_eq_sorted_insert {β : Type} (sl : SkipList β) (inv : LanesInv sl) (score : Int) (v : β)
    (lvl : Nat) :
    (sl.insert score v lvl).nodes = sortedInsert sl.nodes ⟨score, lvl, v⟩ ∧
    (sl.delete score).1.nodes = eraseScore sl.nodes score ∧
    ((sl.delete score).2 = true ↔ ∃ n ∈ sl.nodes, n.score = score) :=
  ⟨insert_nodes sl inv score v lvl, (delete_nodes sl inv score).1, (delete_nodes sl inv score).2⟩

/-- **update_array_correct**: in `Insert`, for every lane `i < sl.level` there is no lane-`i` node
between `update[i]` and the insertion point (`UpdOK` lists `update[level-1] … update[0]`), so the
pointer splice `x.next[i] = update[i].next[i]; update[i].next[i] = x` on each lane `i < lvl` produces
exactly lane `i` of the model's list (insert on the bottom lane, lanes by level filter). -/
theorem update_array_correct {β : Type} (sl : SkipList β) (inv : LanesInv sl) (score : Int) :
    UpdOK (sl.nodes.takeWhile (fun n => decide (n.score ≥ score))) sl.level
      (updates (fun s => decide (s ≥ score)) sl.nodes sl.level 0) :=
  insert_updates_ok sl inv score

example : updates (fun s => decide (s ≥ 6)) ([⟨9, 2, ()⟩, ⟨7, 1, ()⟩, ⟨5, 3, ()⟩] : List (Node Unit)) 3 0
    = [0, 1, 2] := by decide

/-- **find_correct**: the descending multi-lane search stops exactly behind the nodes with a greater
score (the position a linear scan of the bottom lane finds); `Find` returns the first node with
that score, `FindGreaterOrEqual` the first node whose score is not greater. -/
theorem find_correct {β : Type} (sl : SkipList β) (inv : LanesInv sl) (score : Int) :
    sl.findPos score = (sl.nodes.takeWhile (fun n => decide (n.score > score))).length ∧
    sl.find score = sl.nodes.find? (fun n => decide (n.score = score)) ∧
    sl.findGE score = sl.nodes.find? (fun n => decide (n.score ≤ score)) :=
  ⟨search_eq_takeWhile _ (upClosed_gt score) sl inv, find_eq sl inv score, findGE_eq sl inv score⟩

example : (({ nodes := [⟨9, 2, 'a'⟩, ⟨5, 1, 'b'⟩, ⟨5, 3, 'c'⟩], level := 3 } : SkipList Char).find 5).map (·.val)
    = some 'b' := by decide

/-! ## (2) the queue refines the reference list -/

/-- **queue_refines_sortedlist**: for every capacity, every sequence of `Push`/`Remove` and every
choice of node levels `≥ 1`, the queue's invariant holds, its walk order is the reference list and
every result code is the reference's. -/
theorem queue_refines_sortedlist (cap : Int) (ops : List QOp) (h : ∀ o ∈ ops, o.levelOk) :
    QueueInv (runQ (Queue.new cap) ops).1 ∧
    (runQ (Queue.new cap) ops).1.items = (runSpec cap [] ops).1 ∧
    (runQ (Queue.new cap) ops).2 = (runSpec cap [] ops).2 := by
  obtain ⟨h1, _, h3⟩ := run_refines (Queue.new cap) (queueInv_new cap) ops h
  have e : (Queue.new cap).items = [] := rfl
  have m : (Queue.new cap).maxsize = cap := rfl
  rw [e, m] at h3
  exact ⟨h1, by rw [← h3], by rw [← h3]⟩

/-- one step, from any state satisfying the invariant (what the run theorem iterates) -/
theorem queue_step_refines (q : Queue) (inv : QueueInv q) (it : Item) (lvl : Nat) (hl : 1 ≤ lvl) (k : Nat) :
    (QueueInv (q.push it lvl).1 ∧
      ((q.push it lvl).1.items, (q.push it lvl).2) = specPush q.maxsize q.items it) ∧
    (QueueInv (q.remove k).1 ∧ (q.remove k).1.items = specRemove q.items k ∧
      (q.remove k).2 = if q.items.any (fun x => decide (x.id = k)) then Res.ok else Res.notfound) :=
  ⟨⟨(push_spec q inv it lvl hl).1, (push_spec q inv it lvl hl).2.1⟩,
   ⟨(remove_spec q inv k).1, (remove_spec q inv k).2.1, (remove_spec q inv k).2.2.2⟩⟩

/-- **observers**: `Walk`, `First`, `Last`, `Exist`, `GetItem`, `Size` and the byte counter are
functions of the walk order alone (no panic). -/
theorem queue_observers (q : Queue) (inv : QueueInv q) (count : Int) (k : Nat) :
    q.walk count = (if count ≥ 1 then q.items.take count.toNat else q.items) ∧
    q.first = .ok q.items.head? ∧ q.last = .ok q.items.getLast? ∧
    q.exist k = q.items.any (fun x => decide (x.id = k)) ∧
    q.getItem k = q.items.find? (fun x => decide (x.id = k)) ∧
    q.size = q.items.length ∧
    q.bytes = (q.items.map (·.size)).sum ∧
    (q.items.map (·.id)).Nodup :=
  ⟨rfl, first_eq q inv, last_eq q inv, exist_eq q inv k, getItem_eq q inv k, size_eq q inv, inv.bytes, inv.ids⟩

/-- non-vacuity: capacity 2; three equal scores then a better one.  The third push is `full`
(equal score does not rank strictly higher), the fourth evicts exactly the last item. -/
example : (runQ (Queue.new 2)
    [.push ⟨1, 5, 0, 10⟩ 1, .push ⟨2, 5, 0, 20⟩ 3, .push ⟨3, 5, 0, 30⟩ 2, .push ⟨4, 7, 0, 1⟩ 1, .remove 9]).2
    = [.ok, .ok, .full, .ok, .notfound] := by decide
example : ((runQ (Queue.new 2)
    [.push ⟨1, 5, 0, 10⟩ 1, .push ⟨2, 5, 0, 20⟩ 3, .push ⟨3, 5, 0, 30⟩ 2, .push ⟨4, 7, 0, 1⟩ 1, .remove 9]).1.items.map (·.id))
    = [4, 1] := by decide
example : ∀ o ∈ [QOp.push ⟨1, 5, 0, 10⟩ 1, .push ⟨2, 5, 0, 20⟩ 3, .remove 9], o.levelOk := by
  intro o ho; simp at ho; rcases ho with rfl | rfl | rfl <;> simp [QOp.levelOk]

/-! ## (3) the reference list has the stated properties -/

/-- **order**: every reference run keeps descending score order, and an admitted item is placed
behind every item whose score is ≥ its own and in front of every smaller one — ties in arrival
order. -/
theorem reference_order (cap : Int) (ops : List QOp) (l : List Item) (hd : DescItems l) (it : Item) :
    DescItems (runSpec cap [] ops).1 ∧
    ∃ l₁ l₂, l = l₁ ++ l₂ ∧ specInsert l it = l₁ ++ it :: l₂ ∧
      (∀ x ∈ l₁, x.score ≥ it.score) ∧ (∀ x ∈ l₂, x.score < it.score) :=
  ⟨runSpec_desc cap [] List.Pairwise.nil ops, specInsert_split l hd it⟩

/-- **capacity**: a reference run from the empty list never holds more than `cap` items. -/
theorem reference_capacity (cap : Int) (hc : 0 ≤ cap) (ops : List QOp) :
    (((runSpec cap [] ops).1).length : Int) ≤ cap :=
  runSpec_length cap [] ops (by simpa using hc)

/-- **eviction rule**: on a full list a fresh item is admitted iff it ranks strictly higher than the
last item (greater score, or equal score and the `Scorer`'s tie-break answers `Big`); then exactly
the last item is evicted, otherwise the list is unchanged and the answer is `full`. -/
theorem reference_eviction (cap : Int) (l : List Item) (it tail : Item)
    (hfresh : l.any (fun x => decide (x.id = it.id)) = false) (hfull : (l.length : Int) ≥ cap)
    (hlast : l.getLast? = some tail) :
    let better := it.score > tail.score ∨ (it.score = tail.score ∧ it.cmpBig tail = true)
    (better → specPush cap l it = (specInsert l.dropLast it, .ok)) ∧
    (¬ better → specPush cap l it = (l, .full)) := by
  intro better
  unfold specPush
  simp only [hfresh, Bool.false_eq_true, if_false, hfull, if_true, hlast]
  constructor
  · intro hb; simp only [better] at hb; simp [hb]
  · intro hb; simp only [better] at hb; simp [hb]

/-- **capacity and order of the queue itself** (corollary of refinement + reference facts). -/
theorem queue_order_capacity (cap : Int) (hc : 0 ≤ cap) (ops : List QOp) (h : ∀ o ∈ ops, o.levelOk) :
    DescItems (runQ (Queue.new cap) ops).1.items ∧
    (((runQ (Queue.new cap) ops).1.size : Nat) : Int) ≤ cap := by
  obtain ⟨hinv, hitems, _⟩ := queue_refines_sortedlist cap ops h
  rw [size_eq _ hinv, hitems]
  exact ⟨runSpec_desc cap [] List.Pairwise.nil ops, reference_capacity cap hc ops⟩

/-- **ties in arrival order, globally**: for every capacity, op sequence and level choice, the
queue's walk order can be stamped with arrival indices — each item carries the index (in `ops`) of
the `Push` that admitted it — such that the walk is ordered by `Rank`: strictly higher score first,
and among equal scores the earlier arrival first. -/
theorem ties_in_arrival_order (cap : Int) (ops : List QOp) (h : ∀ o ∈ ops, o.levelOk) :
    ∃ L : List (Nat × Item),
      (runQ (Queue.new cap) ops).1.items = L.map (·.2) ∧
      L.Pairwise Rank ∧
      ∀ p ∈ L, ∃ lvl, ops[p.1]? = some (.push p.2 lvl) := by
  obtain ⟨_, hitems, _⟩ := queue_refines_sortedlist cap ops h
  obtain ⟨h1, h2, h3⟩ := runStamped_spec cap ops [] [] List.Pairwise.nil (by simp) (by simp)
  refine ⟨runStamped cap [] 0 ops, ?_, h2, ?_⟩
  · rw [hitems]; exact h1.symm
  · simpa using h3

/-- non-vacuity: three equal scores pushed at ops 0, 1, 3 (op 2 removes the first): walk = arrival order -/
example : runStamped 5 [] 0
    [.push ⟨1, 5, 0, 1⟩ 1, .push ⟨2, 5, 0, 1⟩ 2, .remove 1, .push ⟨1, 5, 0, 1⟩ 1, .push ⟨3, 9, 0, 1⟩ 1]
    = [(4, ⟨3, 9, 0, 1⟩), (1, ⟨2, 5, 0, 1⟩), (3, ⟨1, 5, 0, 1⟩)] := by decide

end C24
