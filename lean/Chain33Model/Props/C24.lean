import Chain33Model.Model.C24
namespace C24
theorem placeholder : True := trivial
end C24
