import Chain33Model.Model.C25
import Chain33Model.Proofs.C25Basic
import Chain33Model.Proofs.C25Fresh
import Chain33Model.Proofs.C25Lift
import Chain33Model.Proofs.C25Tx
import Chain33Model.Proofs.C25Ext
/-!
C25 — Best chain converges to the heaviest branch for any delivery order.  Property theorems.

Vocabulary (all from `Model/C25.lean` and `Proofs/C25*.lean`):
* `deliverAll (init F m r g) ds` — node state after the blocks `ds` were handed one by one to
  `ProcessBlock` on a node holding only the genesis block `g` (finalised height `F`, margin `m`,
  sequence recording `r`);
* `Tree g T` — `T` is a finite tree of valid blocks above `g`: ids (hashes) are unique, every
  block's parent is in `g :: T` and is one lower, no transaction occurs twice on one branch;
* `TD U b` — total difficulty of `b`: the work summed along its parent chain in `U`;
* `chainTo U b.height b` — the branch of `b`: `b`, its parent, …, down to genesis;
* `view c h` — the height→hash index described by a chain `c`.
-/
namespace C25

/-- `disconnectBlock` undoes `connectBlock` on the main-chain-indexed state (height index,
last height, best-chain view, transaction index); index, orphan pool and finalised height are
untouched.  Hypotheses: the height slot of `b` was free and `b` sits directly above the stored
height (both hold on every reachable state when `b` extends the tip); the sequence counter is
not below its initial value −1; the transactions of `b` were not indexed before (valid block:
no duplicate of a transaction already on the chain). -/
theorem connect_disconnect_inverse (s s1 : State) (b : Block)
    (hc : connectBlock s b = .ok s1)
    (hfree : s.h2h b.height = none) (hlast : s.last + 1 = b.height) (hseq : -1 ≤ s.lastSeq)
    (htx : ∀ t ∈ b.txs, s.txIdx t = none) :
    ∃ s2, disconnectBlock s1 b = .ok s2 ∧
      s2.best = s.best ∧ s2.h2h = s.h2h ∧ s2.last = s.last ∧ s2.txIdx = s.txIdx ∧
      s2.index = s.index ∧ s2.orphans = s.orphans ∧ s2.fin = s.fin := by
  obtain ⟨tip, rest, sq, ptd, hbest, hpar, hsq, hptd, hs1⟩ := connectBlock_ok hc
  have hf := saveSeq_frame hsq
  have e1 : s1.best = b :: s.best := by rw [hs1]
  have e2 : s1.h2h = upd s.h2h b.height (some b.id) := by rw [hs1]
  have e6 : s1.txIdx = addTxs s.txIdx b := by rw [hs1]
  have e3 : s1.lastSeq = sq.lastSeq := by rw [hs1]
  have e4 : s1.recSeq = sq.recSeq := by rw [hs1]
  have e5 : s1.index = s.index ∧ s1.orphans = s.orphans ∧ s1.fin = s.fin := by
    rw [hs1]; exact ⟨hf.2.2.2.1, hf.2.2.2.2.1, hf.1⟩
  have hsq2 : ∃ s', saveSeq s1 false b = .ok s' := by
    apply saveSeq_succeeds
    rw [e3, e4]
    rcases saveSeq_ok hsq with ⟨h, rfl⟩ | ⟨h, _, rfl⟩
    · right; exact h
    · left; simp [seqAfter]; omega
  obtain ⟨s', hs'⟩ := hsq2
  have hf' := saveSeq_frame hs'
  refine ⟨{ s' with h2h := upd s1.h2h b.height none, last := (b.height : Int) - 1, best := s.best,
                    txIdx := delTxs s1.txIdx b }, ?_, ?_⟩
  · simp only [disconnectBlock, e1, hs']
    simp [hf'.2.2.2.2.2.2.2.2.1, hf'.2.2.2.2.2.2.2.2.2.2]
  · simp only [hf'.1, hf'.2.2.2.1, hf'.2.2.2.2.1, e5, e2, e6, true_and, and_true]
    exact ⟨upd_upd_none _ _ _ hfree, by omega, delTxs_addTxs _ _ htx⟩

/-- Non-vacuity: the hypotheses hold when block 1 is connected on a fresh genesis node. -/
example : ∃ s1, connectBlock (init 0 12 true ⟨0, 0, 0, 5, []⟩) ⟨1, 0, 1, 3, []⟩ = .ok s1 ∧
    (init 0 12 true ⟨0, 0, 0, 5, []⟩).h2h 1 = none ∧ (init 0 12 true ⟨0, 0, 0, 5, []⟩).last + 1 = (1 : Nat) := by
  refine ⟨_, rfl, ?_, ?_⟩ <;> simp [init, upd]

/-- **reorg_lands.**  In every reachable state (ANY blocks delivered, any order), for every
indexed block `b`, the reorganize branch of `connectBestChain` succeeds (no error, result
`main`), the best chain becomes the branch of `b`, and the persisted main-chain state (height
index, last height) is the one described by that branch; index, pool, total difficulties and
stored blocks are untouched. -/
theorem reorg_lands (F m : Nat) (r : Bool) (g : Block) (hg : g.height = 0) (ds : List Block)
    (b : Block) :
    let s := deliverAll (init F m r g) ds
    b ∈ s.index →
    ∃ s', reorgTo s b (findFork s b) = (s', .main) ∧
      s'.best = chainTo s.index b.height b ∧
      (∀ h, s'.h2h h = view (chainTo s.index b.height b) h) ∧ s'.last = b.height ∧
      s'.index = s.index ∧ s'.orphans = s.orphans ∧ s'.tds = s.tds ∧ s'.stored = s.stored := by
  intro s hb
  have hi : Inv s := deliverAll_inv F m r g hg ds
  obtain ⟨s', h1, hi', hbest, h2, h3, h4, h5, _⟩ := reorgTo_spec hi hb
  obtain ⟨rr, hc, _, _⟩ := chainTo_linked hi.uniq hi.closed b.height b hb rfl
  refine ⟨s', h1, hbest, fun h => by rw [← hbest]; exact hi'.h2h h, ?_, h2, h3, h4, h5⟩
  exact hi'.last b rr (by rw [hbest, hc])

/-- the persisted main-chain view is a function of the best chain alone, in every reachable
state (this is what makes "identical to a fresh node fed only that branch" meaningful). -/
theorem persisted_is_view (F m : Nat) (r : Bool) (g : Block) (hg : g.height = 0) (ds : List Block) :
    let s := deliverAll (init F m r g) ds
    (∀ h, s.h2h h = view s.best h) ∧ (∀ t rest, s.best = t :: rest → s.last = t.height) ∧
    (∀ x ∈ s.best, s.stored x.id = some x ∧ (s.tds x.id).isSome) := by
  intro s
  have hi : Inv s := deliverAll_inv F m r g hg ds
  exact ⟨hi.h2h, hi.last, fun x hx => ⟨hi.stored x (hi.bestIn x hx), hi.tdSome x (hi.bestIn x hx)⟩⟩

/-- **tip_is_max** (fixed finalised height 0, as on a node without finaliser): after any
deliveries drawn from a block tree, the tip's total difficulty is maximal among the accepted
blocks that are at least `m` high; the stored total difficulties are the tree's. -/
theorem tip_is_max {g : Block} {T : List Block} (ht : Tree g T) (m : Nat) (r : Bool)
    (ds : List Block) (hds : ∀ b ∈ ds, b ∈ T) :
    let s := deliverAll (init 0 m r g) ds
    ∀ tip rest, s.best = tip :: rest →
      (∀ b ∈ s.index, m ≤ b.height → TD (g :: T) b ≤ TD (g :: T) tip) ∧
      (∀ b ∈ s.index, s.tds b.id = some (TD (g :: T) b)) := by
  intro s tip rest hbest
  have hr := deliverAll_run ht 0 m r ds hds
  have hm : s.margin = m := by
    have := (margin_mainPred m).deliverAll ds (init 0 m r g) rfl
    exact this
  refine ⟨fun b hb hh => hr.base.tipMax rfl tip rest hbest b hb (by rw [hm]; exact hh), hr.base.tdEq⟩

/-- ties go to the earlier-connected block: a newly accepted block that does not extend the tip
and is not strictly heavier leaves the best chain unchanged. -/
theorem tie_keeps_tip {g : Block} {T : List Block} (ht : Tree g T) (F m : Nat) (r : Bool)
    (ds : List Block) (hds : ∀ b ∈ ds, b ∈ T) (b : Block) (hb : b ∈ T) :
    let s := deliverAll (init F m r g) ds
    (∀ x ∈ s.index, x.id ≠ b.id) → (∀ o ∈ s.orphans, o.id ≠ b.id) →
    ∀ tip rest p, s.best = tip :: rest → p ∈ s.index → p.id = b.parent → b.parent ≠ tip.id →
      TD (g :: T) b ≤ TD (g :: T) tip → (maybeAcceptBlock s b).1.best = s.best := by
  intro s hfresh hforph tip rest p hbest hp hpid hne hle
  have hr := deliverAll_run ht F m r ds hds
  have hpU := hr.base.idxSub p hp
  obtain ⟨p', hp', hp'id, hh'⟩ := ht.closed b hb
  have hpp : p = p' := ht.uniq p hpU p' hp' (hpid.trans hp'id.symm)
  have hlk : lookup s.index b.parent = some p := by rw [← hpid]; exact lookup_of_mem hr.base.inv.uniq hp
  rcases maybeAcceptBlock_spec hr.base.inv hfresh hforph with ⟨e, _, hno | ⟨q, hq, hneq⟩⟩ |
      ⟨q, tp, s0, s', res, hq, hqid, hqh, hqtd, he, hi0, hi', e1, e2, e3, e4, e5, e6, e7, e8, hss, hout⟩
  · rw [hlk] at hno; cases hno
  · rw [hlk] at hq; cases hq; rw [hpp] at hneq; exact absurd hh' hneq
  · rw [he]
    have hqp : q = p := hr.base.inv.uniq q hq p hp (hqid.trans hpid.symm)
    have htin : tip ∈ s.index := hr.base.inv.bestIn tip (by rw [hbest]; simp)
    cases hout with
    | extend t rest' hb0 hpar _ _ =>
      rw [e3, hbest] at hb0
      exact absurd (by rw [(List.cons.inj hb0).1]; exact hpar) hne
    | stay t rest' tt tb _ _ _ _ _ hb' _ => rw [hb', e3]
    | reorg t rest' tt tb hb0 _ htt htb hlt _ _ _ =>
      exfalso
      rw [e3, hbest] at hb0
      have htt' : t = tip := (List.cons.inj hb0).1.symm
      rw [e7, htt', upd_other _ _ _ _ (hfresh tip htin), hr.base.tdEq tip htin] at htt
      rw [e7, upd_same] at htb
      have h1 := Option.some.inj htt
      have h2 := Option.some.inj htb
      have hTDb : TD (g :: T) b = b.diff + TD (g :: T) p := TD_child ht.uniq hpU hpid (hpp ▸ hh')
      have htp : tp = TD (g :: T) p := by
        have := hr.base.tdEq p hp; rw [← hqp, hqtd] at this; rw [← hqp]; exact Option.some.inj this
      omega

/-- **Orphan lemma**: after any deliveries `ds` drawn from a block tree, a tree block is in the
index (accepted) iff it and all its ancestors were delivered; and no block still waiting in the
orphan pool has its parent in the index. -/
theorem accepted_closure {g : Block} {T : List Block} (ht : Tree g T) (F m : Nat) (r : Bool)
    (ds : List Block) (hds : ∀ b ∈ ds, b ∈ T) :
    let s := deliverAll (init F m r g) ds
    (∀ b ∈ g :: T, (b ∈ s.index ↔ ∀ x ∈ chainTo (g :: T) b.height b, x = g ∨ x ∈ ds)) ∧
    (∀ o ∈ s.orphans, ∀ x ∈ s.index, x.id ≠ o.parent) ∧
    (∀ b ∈ ds, b ∈ s.index ∨ b ∈ s.orphans) := by
  intro s
  have hr := deliverAll_run ht F m r ds hds
  exact ⟨fun b hb => accepted_iff ht hr b.height b hb rfl, hr.orph, hr.got⟩

/-- **order_independent.**  For every finite tree of valid blocks and EVERY delivery sequence
`ds` over it (any order: children before parents, interleaved branches; duplicates allowed)
that contains every block at least once: if the block `w` of greatest total difficulty is
unique and at least the margin above the finalised height `F`, then
* the node's best chain is the branch of `w`, and
* the persisted chain — height index, last height, best-chain view, transaction index, and on
  that branch the stored blocks (headers, bodies) and total difficulties — is identical to that of a fresh node that received only
  that branch, in order (`sref`).
(`F` is the finalised height the node starts with; the model's `resetFin` may lower it during
the run, which the proof allows — a finaliser moving *up* concurrently is outside the model.) -/
theorem order_independent {g : Block} {T : List Block} (ht : Tree g T) (F m : Nat) (r : Bool)
    (ds : List Block) (hds : ∀ b ∈ ds, b ∈ T) (hall : ∀ b ∈ T, b ∈ ds)
    (w : Block) (hw : w ∈ g :: T)
    (hmax : ∀ b ∈ g :: T, b ≠ w → TD (g :: T) b < TD (g :: T) w) (hel : F + m ≤ w.height) :
    let s := deliverAll (init F m r g) ds
    let path := chainTo (g :: T) w.height w
    let sref := deliverAll (init F m r g) path.reverse.tail
    s.best = path ∧ sref.best = path ∧ s.h2h = sref.h2h ∧ s.last = sref.last ∧
    s.txIdx = sref.txIdx ∧
    (∀ x ∈ path, s.stored x.id = sref.stored x.id ∧ s.tds x.id = sref.tds x.id) ∧
    s.orphans = [] := by
  intro s path sref
  have hr := deliverAll_run ht F m r ds hds
  have hm : s.margin = m := (margin_mainPred m).deliverAll ds (init F m r g) rfl
  have hbest : s.best = path := converge ht hr hall hw hmax (by rw [hm]; exact hel)
  obtain ⟨hrefbest, hrefT⟩ := fresh_in_order ht F m r hw
  have hrr := deliverAll_run ht F m r path.reverse.tail hrefT
  have hi := hr.base.inv
  have hi' := hrr.base.inv
  have hrefbest' : sref.best = path := hrefbest
  refine ⟨hbest, hrefbest', ?_, ?_, by rw [hr.base.txv, hrr.base.txv, hbest, hrefbest'], ?_, ?_⟩
  · funext h; rw [hi.h2h h, hi'.h2h h, hbest, hrefbest']
  · obtain ⟨t, rest, hb⟩ := List.exists_cons_of_ne_nil hi.linked.ne_nil
    rw [hi.last t rest hb, hi'.last t rest (by rw [hrefbest', ← hbest]; exact hb)]
  · intro x hx
    have hx1 : x ∈ s.index := hi.bestIn x (by rw [hbest]; exact hx)
    have hx2 : x ∈ sref.index := hi'.bestIn x (by rw [hrefbest']; exact hx)
    exact ⟨by rw [hi.stored x hx1, hi'.stored x hx2], by rw [hr.base.tdEq x hx1, hrr.base.tdEq x hx2]⟩
  · -- nothing is left in the pool: every delivered block is indexed, and pool ∩ index = ∅
    cases horph : s.orphans with
    | nil => rfl
    | cons o rest =>
      exfalso
      have ho : o ∈ s.orphans := by rw [horph]; simp
      have hoU := hr.base.orphSub o ho
      have hoi := all_accepted ht hr hall o hoU
      exact hi.orphFresh o ho o hoi rfl

/-- Non-vacuity of `order_independent`: a concrete tree with a fork (blocks 2–3 vs the heavier
block 4 on trunk 1), margin 2, delivered children-first with a duplicate. -/
example :
    let g : Block := ⟨0, 0, 0, 5, []⟩
    let T : List Block := [⟨1, 0, 1, 1, [7]⟩, ⟨2, 1, 2, 1, [8]⟩, ⟨3, 2, 3, 1, [9]⟩, ⟨4, 1, 2, 9, [8, 9]⟩]
    let s := deliverAll (init 0 2 true g)
      [⟨3, 2, 3, 1, [9]⟩, ⟨4, 1, 2, 9, [8, 9]⟩, ⟨2, 1, 2, 1, [8]⟩, ⟨4, 1, 2, 9, [8, 9]⟩, ⟨1, 0, 1, 1, [7]⟩]
    Tree g T ∧ (∀ b ∈ g :: T, b ≠ (⟨4, 1, 2, 9, [8, 9]⟩ : Block) → TD (g :: T) b < TD (g :: T) ⟨4, 1, 2, 9, [8, 9]⟩) ∧
    s.best.map (·.id) = [4, 1, 0] ∧ [7, 8, 9].map s.txIdx = [some 1, some 2, some 2] := by
  refine ⟨⟨rfl, by unfold UniqIds; decide, by decide, by decide⟩, by decide, by decide, by decide⟩

end C25

/-! ## Moving finaliser, orphan-pool limits and expiry (extension layer `Model/C25Ext.lean`)

`runX (initX M F m r g lim ttl) es` runs the events `es` — deliveries, clock ticks, finaliser
requests (`snowmanAcceptBlock`), restarts — on a node with `maxOrphanBlocks = lim` and
`orphanExpirationTime = ttl` seconds; `M` is the representation of the orphan metadata table
(hash map in the driver, function in the witnesses; the theorems hold for every lawful one). -/
namespace C25X
open C25

/-- **order_independent with a moving finaliser and the real orphan pool.**  Events in any order:
deliveries (`delivered es`) over a tree `T` (each block at least once, duplicates allowed), finaliser requests for
arbitrary `(height, hash)` pairs (the node itself only honours blocks on its best chain, strictly
upwards, and resets downwards on a deep fork), clock ticks.  Hypotheses that bound the run:
* `|T| ≤ maxOrphanBlocks` — the pool can hold every block of the tree that may have to wait;
* the ticks add up to at most `orphanExpirationTime` — no waiting orphan expires;
* no restart (a restart forgets side branches and the pool);
* every finalised height requested, and the initial one, is `≤ Fmax`.
If the heaviest block `w` is unique and `Fmax + margin ≤ w.height`: no start-up panics (`runX … =
some x`, immediate without restarts), EVERY delivery of the run is answered main / side / orphan /
already-have-it (`Res.fine`: in particular never `.err .panic` — the `removeOrphanBlock(nil)` of a
full pool — nor any other error), the best chain is the branch of `w`, and the persisted chain
equals that of a fresh node fed only that branch in order. -/
theorem order_independent_events {M : Type} [OMap M] [LawfulOMap M] {g : Block} {T : List Block}
    (ht : Tree g T) (F Fmax m : Nat) (r : Bool) (lim ttl : Nat) (es : List Event)
    (hnr : ∀ e ∈ es, e ≠ Event.restart)
    (hds : ∀ b ∈ delivered es, b ∈ T) (hall : ∀ b ∈ T, b ∈ delivered es)
    (hlim : T.length ≤ lim) (htime : elapsed es ≤ ttl)
    (hF : F ≤ Fmax) (hfin : ∀ h id, Event.finalize h id ∈ es → h ≤ Fmax)
    (w : Block) (hw : w ∈ g :: T)
    (hmax : ∀ b ∈ g :: T, b ≠ w → TD (g :: T) b < TD (g :: T) w) (hel : Fmax + m ≤ w.height) :
    let path := chainTo (g :: T) w.height w
    let sref := deliverAll (init F m r g) path.reverse.tail
    ∃ x, runX (initX M F m r g lim ttl) es = some x ∧
      (∀ res ∈ resultsX (initX M F m r g lim ttl) es, Res.fine res = true) ∧
      x.base.best = path ∧ sref.best = path ∧ x.base.h2h = sref.h2h ∧ x.base.last = sref.last ∧
      x.base.txIdx = sref.txIdx ∧
      (∀ y ∈ path, x.base.stored y.id = sref.stored y.id ∧ x.base.tds y.id = sref.tds y.id) ∧
      x.base.orphans = [] := by
  intro path sref
  -- the initial state satisfies the invariant for the bound Fmax
  have h0 : RunX g T Fmax [] (initX M F m r g lim ttl) := by
    have h := initX_runX (M := M) ht F m r lim ttl
    refine ⟨⟨?_, h.run.orph, h.run.got, h.run.only⟩, h.on, h.xinv⟩
    have hb := h.run.base
    exact ⟨hb.inv, hb.gIn, hb.idxSub, hb.orphSub, hb.tdEq,
      fun h0 => hb.tipMax (by omega),
      fun w' hw' hmax' hel' => hb.win w' hw' hmax' (by omega),
      Nat.le_trans hb.finLe hF, hb.txv⟩
  obtain ⟨x, hrun, hr, hm, hres⟩ := runX_run ht es [] _ h0 hlim hnr
    (fun b hb => hds b (mem_delivered.mpr hb)) hfin (by simpa [initX] using htime)
  have hmarg : x.base.margin = m := by rw [hm]; rfl
  have hall' : ∀ b ∈ T, b ∈ [] ++ delivered es := fun b hb => by simpa using hall b hb
  exact ⟨x, hrun, hres, converged ht hr.run hall' hw hmax (by rw [hmarg]; exact hel) F m r⟩

/-! ### the bounds are needed: refuting witnesses (orphan metadata as a function, `decide`) -/

abbrev FM := Map (Nat × Nat)

/-- `order_independent_events` without the pool bound `|T| ≤ maxOrphanBlocks`. -/
def NoPoolBound : Prop :=
  ∀ (g : Block) (T : List Block) (m lim ttl : Nat) (es : List Event) (w : Block), Tree g T →
    (∀ e ∈ es, e ≠ Event.restart) → (∀ b ∈ delivered es, b ∈ T) → (∀ b ∈ T, b ∈ delivered es) →
    elapsed es ≤ ttl → w ∈ g :: T → (∀ b ∈ g :: T, b ≠ w → TD (g :: T) b < TD (g :: T) w) → m ≤ w.height →
    ∃ x, runX (initX FM 0 m true g lim ttl) es = some x ∧ x.base.best = chainTo (g :: T) w.height w

def wg : Block := ⟨0, 0, 0, 5, []⟩
def wT : List Block := [⟨1, 0, 1, 1, []⟩, ⟨2, 1, 2, 1, []⟩, ⟨3, 2, 3, 1, []⟩, ⟨4, 3, 4, 1, []⟩]

/-- a chain of four blocks delivered children first into a pool of two: block 4 is evicted when
block 2 arrives, the chain stops at height 3 although every block was delivered. -/
theorem noPoolBound_false : ¬ NoPoolBound := by
  intro h
  have := h wg wT 1 2 600
    [.deliver ⟨4, 3, 4, 1, []⟩, .deliver ⟨3, 2, 3, 1, []⟩, .deliver ⟨2, 1, 2, 1, []⟩, .deliver ⟨1, 0, 1, 1, []⟩]
    ⟨4, 3, 4, 1, []⟩ ⟨rfl, by unfold UniqIds; decide, by decide, by decide⟩
    (by decide) (by decide) (by decide) (by decide) (by decide) (by decide) (by decide)
  revert this
  decide

/-- `order_independent_events` without the bound on elapsed time. -/
def NoTimeBound : Prop :=
  ∀ (g : Block) (T : List Block) (m lim ttl : Nat) (es : List Event) (w : Block), Tree g T →
    (∀ e ∈ es, e ≠ Event.restart) → (∀ b ∈ delivered es, b ∈ T) → (∀ b ∈ T, b ∈ delivered es) →
    T.length ≤ lim → w ∈ g :: T → (∀ b ∈ g :: T, b ≠ w → TD (g :: T) b < TD (g :: T) w) → m ≤ w.height →
    ∃ x, runX (initX FM 0 m true g lim ttl) es = some x ∧ x.base.best = chainTo (g :: T) w.height w

/-- block 4 waits in the pool for 601 s; the next `AddOrphanBlock` (block 3) drops it. -/
theorem noTimeBound_false : ¬ NoTimeBound := by
  intro h
  have := h wg wT 1 10240 600
    [.deliver ⟨4, 3, 4, 1, []⟩, .tick 601, .deliver ⟨3, 2, 3, 1, []⟩, .deliver ⟨2, 1, 2, 1, []⟩, .deliver ⟨1, 0, 1, 1, []⟩]
    ⟨4, 3, 4, 1, []⟩ ⟨rfl, by unfold UniqIds; decide, by decide, by decide⟩
    (by decide) (by decide) (by decide) (by decide) (by decide) (by decide) (by decide)
  revert this
  decide

/-- the finaliser only ever finalises a block of the current best chain at least `margin` below
the tip (checked along the run). -/
def respects {M : Type} [OMap M] : XState M → List Event → Bool
  | _, [] => true
  | x, e :: es =>
    (match e with
     | .finalize h id =>
       (match x.base.best with
        | tip :: _ => contains x.base.best ⟨id, 0, h, 0, []⟩ && decide (h + x.base.margin ≤ tip.height)
        | [] => false)
     | _ => true) &&
    (match stepX x e with
     | some x' => respects x' es
     | none => true)

/-- the variant that measures the margin against the finalised height the node ENDS with, for a
finaliser that respects the rule: false, because a heavier block can be shelved while the
finalised height is high and the height is lowered again by a later deep reorganisation. -/
def FinalFinSuffices : Prop :=
  ∀ (g : Block) (T : List Block) (m : Nat) (es : List Event) (w : Block), Tree g T →
    (∀ e ∈ es, e ≠ Event.restart) → (∀ b ∈ delivered es, b ∈ T) → (∀ b ∈ T, b ∈ delivered es) →
    respects (initX FM 0 m true g 10240 600) es = true → elapsed es ≤ 600 → T.length ≤ 10240 →
    w ∈ g :: T → (∀ b ∈ g :: T, b ≠ w → TD (g :: T) b < TD (g :: T) w) →
    ∃ x, runX (initX FM 0 m true g 10240 600) es = some x ∧
      (x.base.fin + m ≤ w.height → x.base.best = chainTo (g :: T) w.height w)

def fT : List Block :=
  [⟨1, 0, 1, 1, []⟩, ⟨2, 1, 2, 1, []⟩, ⟨3, 2, 3, 1, []⟩, ⟨4, 3, 4, 1, []⟩, ⟨5, 4, 5, 1, []⟩, ⟨6, 5, 6, 1, []⟩,
   ⟨12, 1, 2, 1, []⟩, ⟨13, 12, 3, 1, []⟩, ⟨14, 13, 4, 100, []⟩,
   ⟨23, 2, 3, 2, []⟩, ⟨24, 23, 4, 2, []⟩, ⟨25, 24, 5, 2, []⟩, ⟨26, 25, 6, 2, []⟩, ⟨27, 26, 7, 2, []⟩]

/-- margin 2.  Branch 1–6 is best, block 3 (height 3 ≤ 6 − 2) is finalised; the heaviest block 14
(height 4 < 3 + 2) is shelved; branch 23–27 forks below the finalised block, wins at block 25 and
resets the finalised height to 2.  At the end `fin + margin = 4 ≤ height 14`, but the tip is 27. -/
theorem finalFinSuffices_false : ¬ FinalFinSuffices := by
  intro h
  have := h wg fT 2
    [.deliver ⟨1, 0, 1, 1, []⟩, .deliver ⟨2, 1, 2, 1, []⟩, .deliver ⟨3, 2, 3, 1, []⟩, .deliver ⟨4, 3, 4, 1, []⟩,
     .deliver ⟨5, 4, 5, 1, []⟩, .deliver ⟨6, 5, 6, 1, []⟩, .finalize 3 3,
     .deliver ⟨12, 1, 2, 1, []⟩, .deliver ⟨13, 12, 3, 1, []⟩, .deliver ⟨14, 13, 4, 100, []⟩,
     .deliver ⟨23, 2, 3, 2, []⟩, .deliver ⟨24, 23, 4, 2, []⟩, .deliver ⟨25, 24, 5, 2, []⟩,
     .deliver ⟨26, 25, 6, 2, []⟩, .deliver ⟨27, 26, 7, 2, []⟩]
    ⟨14, 13, 4, 100, []⟩ ⟨rfl, by unfold UniqIds; decide, by decide, by decide⟩
    (by decide) (by decide) (by decide) (by decide) (by decide) (by decide) (by decide) (by decide)
  revert this
  decide

/-! ### concurrent deliveries: `ProcessBlock` is two steps (`probe`, `finish`) -/

/-- both halves back to back are `ProcessBlock`: the sequential theorems are about schedules in which
the `ProcessBlock` calls do not overlap. -/
theorem probe_finish (s : State) (b : Block) : finish (probe s b).1 b (probe s b).2 = processBlock s b := by
  unfold probe processBlock
  by_cases h1 : haveBlock s b.id = true
  · simp [h1, finish]
  · simp only [h1, Bool.false_eq_true, if_false]
    by_cases h2 : isKnownOrphan s b.id = true ∧ (!haveBlock s b.parent) = true
    · simp [h2, finish]
    · simp only [h2, if_false]
      by_cases h3 : (!haveBlock (unorphan s b) b.parent) = true
      · simp [h3, finish]
      · have hb : haveBlock (unorphan s b) b.id = false := by
          simp only [haveBlock, unorphan_index] at h1 ⊢; simpa using h1
        simp [h3, finish, hb]

theorem crun_sequential (s : State) (ds : List Block) :
    crun ⟨s, []⟩ (sequential ds) = ⟨deliverAll s ds, []⟩ := by
  induction ds generalizing s with
  | nil => rfl
  | cons b bs ih =>
    have : crun ⟨s, []⟩ (sequential (b :: bs)) = crun ⟨(processBlock s b).1, []⟩ (sequential bs) := by
      simp only [sequential, crun, List.foldl_cons, cstep, List.nil_append, List.find?_cons, beq_self_eq_true,
        probe_finish]
      congr 1
      simp
    rw [this, ih]
    rfl

/-- `order_independent` for schedules in which the two halves of different `ProcessBlock` calls may
interleave (every block's delivery is started and completed). -/
def OrderIndependentConcurrent : Prop :=
  ∀ (g : Block) (T : List Block) (m : Nat) (sched : List Step) (w : Block), Tree g T →
    (∀ b ∈ T, Step.probe b ∈ sched) → (crun ⟨init 0 m true g, []⟩ sched).pending = [] →
    (∀ st ∈ sched, ∃ b ∈ T, st = Step.probe b ∨ st = Step.finish b) →
    w ∈ g :: T → (∀ b ∈ g :: T, b ≠ w → TD (g :: T) b < TD (g :: T) w) → m ≤ w.height →
    (crun ⟨init 0 m true g, []⟩ sched).s.best = chainTo (g :: T) w.height w

/-- **refuted**: parent 1 and child 2 delivered concurrently.  The child's first half sees no parent
(plan: pool); the parent is then decided, accepted and its `ProcessOrphans` finds an empty pool;
only now the child is put into the pool.  Both deliveries have returned, every block was delivered,
the heaviest block 2 is stranded in the orphan pool with its parent on the chain. -/
theorem orderIndependentConcurrent_false : ¬ OrderIndependentConcurrent := by
  intro h
  have := h wg [⟨1, 0, 1, 1, []⟩, ⟨2, 1, 2, 1, []⟩] 1
    [.probe ⟨2, 1, 2, 1, []⟩, .probe ⟨1, 0, 1, 1, []⟩, .finish ⟨1, 0, 1, 1, []⟩, .finish ⟨2, 1, 2, 1, []⟩]
    ⟨2, 1, 2, 1, []⟩ ⟨rfl, by unfold UniqIds; decide, by decide, by decide⟩
    (by decide) (by decide) (by decide) (by decide) (by decide) (by decide)
  revert this
  decide

/-- the stranded state of the witness: block 2 waits in the pool although its parent 1 is indexed
and on the best chain; delivering it AGAIN takes the "known orphan whose parent exists" path of
`ProcessBlock` and connects it. -/
example :
    let c := crun ⟨init 0 1 true wg, []⟩
      [.probe ⟨2, 1, 2, 1, []⟩, .probe ⟨1, 0, 1, 1, []⟩, .finish ⟨1, 0, 1, 1, []⟩, .finish ⟨2, 1, 2, 1, []⟩]
    c.s.orphans.map (·.id) = [2] ∧ c.s.best.map (·.id) = [1, 0] ∧
    (processBlock c.s ⟨2, 1, 2, 1, []⟩).1.best.map (·.id) = [2, 1, 0] ∧
    (processBlock c.s ⟨2, 1, 2, 1, []⟩).1.orphans = [] := by
  decide

end C25X
