import Chain33Model.Model.C25
import Chain33Model.Proofs.C25Basic
/-!
C25 — Best chain converges to the heaviest branch for any delivery order.  Property theorems.
-/
namespace C25

/-- `disconnectBlock` undoes `connectBlock` on the main-chain-indexed state (height index,
last height, best-chain view); index, orphan pool and finalised height are untouched.
Hypotheses: the height slot of `b` was free and `b` sits directly above the stored height
(both hold on every reachable state when `b` extends the tip); the sequence counter is not
below its initial value −1. -/
theorem connect_disconnect_inverse (s s1 : State) (b : Block)
    (hc : connectBlock s b = .ok s1)
    (hfree : s.h2h b.height = none) (hlast : s.last + 1 = b.height) (hseq : -1 ≤ s.lastSeq) :
    ∃ s2, disconnectBlock s1 b = .ok s2 ∧
      s2.best = s.best ∧ s2.h2h = s.h2h ∧ s2.last = s.last ∧
      s2.index = s.index ∧ s2.orphans = s.orphans ∧ s2.fin = s.fin := by
  obtain ⟨tip, rest, sq, ptd, hbest, hpar, hsq, hptd, hs1⟩ := connectBlock_ok hc
  have hf := saveSeq_frame hsq
  have e1 : s1.best = b :: s.best := by rw [hs1]
  have e2 : s1.h2h = upd s.h2h b.height (some b.id) := by rw [hs1]
  have e3 : s1.lastSeq = sq.lastSeq := by rw [hs1]
  have e4 : s1.recSeq = sq.recSeq := by rw [hs1]
  have e5 : s1.index = s.index ∧ s1.orphans = s.orphans ∧ s1.fin = s.fin := by
    rw [hs1]; exact ⟨hf.2.2.2.1, hf.2.2.2.2.1, hf.1⟩
  have hsq2 : ∃ s', saveSeq s1 false b = .ok s' := by
    apply saveSeq_succeeds
    rw [e3, e4]
    rcases saveSeq_ok hsq with ⟨h, rfl⟩ | ⟨h, _, rfl⟩
    · right; exact h
    · left; simp [seqAfter]; omega
  obtain ⟨s', hs'⟩ := hsq2
  have hf' := saveSeq_frame hs'
  refine ⟨{ s' with h2h := upd s1.h2h b.height none, last := (b.height : Int) - 1, best := s.best }, ?_, ?_⟩
  · simp only [disconnectBlock, e1, hs']
    simp [hf'.2.2.2.2.2.2.2.2.1]
  · simp only [hf'.1, hf'.2.2.2.1, hf'.2.2.2.2.1, e5, e2, true_and, and_true]
    exact ⟨upd_upd_none _ _ _ hfree, by omega⟩

/-- Non-vacuity: the hypotheses hold when block 1 is connected on a fresh genesis node. -/
example : ∃ s1, connectBlock (init 0 12 true ⟨0, 0, 0, 5⟩) ⟨1, 0, 1, 3⟩ = .ok s1 ∧
    (init 0 12 true ⟨0, 0, 0, 5⟩).h2h 1 = none ∧ (init 0 12 true ⟨0, 0, 0, 5⟩).last + 1 = (1 : Nat) := by
  refine ⟨_, rfl, ?_, ?_⟩ <;> simp [init, upd]

end C25
