import Chain33Model.Model.C26
import Chain33Model.Proofs.C26
/-!
C26 — Block sequence log replays to the best chain.  Property theorems.

`deliverAll (init fin margin true g) bs` is the node state after the blocks `bs` (ANY blocks:
no validity, tree-shape or order hypothesis) were handed to `ProcessBlock` one after the other on
a node that holds the genesis block `g` and records sequences.
-/
namespace C26
open C25

/-- Sequence numbers are assigned consecutively from zero without gaps: after any deliveries,
record `i` exists exactly for `0 ≤ i ≤ lastSeq` (and record 0 exists: `0 ≤ lastSeq`). -/
theorem seq_consecutive (fin margin : Nat) (g : Block) (bs : List Block) :
    let s := deliverAll (init fin margin true g) bs
    0 ≤ s.lastSeq ∧ ∀ i : Nat, (s.seqTab i).isSome ↔ (i : Int) ≤ s.lastSeq := by
  intro s
  have h := (logInv_mainPred _ (init_lastSeq_ge fin margin true g)).deliverAll bs _
    (logInv_init fin margin true g)
  have hrec : s.recSeq = true :=
    (recSeq_mainPred true).deliverAll bs _ rfl
  exact ⟨h.1.2.2 hrec, h.1.2.1⟩

/-- …and without reuse: a delivery never rewrites a number that was already assigned — the
log of the state before is a prefix of the log after (for every reachable `s`, every block). -/
theorem seq_no_reuse (fin margin : Nat) (g : Block) (bs : List Block) (b : Block) :
    let s := deliverAll (init fin margin true g) bs
    let s' := (processBlock s b).1
    s.lastSeq ≤ s'.lastSeq ∧ ∀ i : Nat, (i : Int) ≤ s.lastSeq → s'.seqTab i = s.seqTab i := by
  intro s s'
  have h := (logInv_mainPred _ (init_lastSeq_ge fin margin true g)).deliverAll bs _
    (logInv_init fin margin true g)
  have h' : LogInv s s := ⟨h.1, ⟨Int.le_refl _, fun _ _ => rfl⟩, h.2.2⟩
  exact ((logInv_mainPred s h.1.1).processBlock s b h').2.1

/-- Replaying the add and delete records in sequence order succeeds and yields exactly the
node's best chain (the chain view, tip on top of the stack), for any history of additions and
reorganisations. -/
theorem replay_eq_best (fin margin : Nat) (g : Block) (bs : List Block) :
    let s := deliverAll (init fin margin true g) bs
    replay (seqLog s) = some (s.best.map (·.id)) := by
  intro s
  have h := (logInv_mainPred _ (init_lastSeq_ge fin margin true g)).deliverAll bs _
    (logInv_init fin margin true g)
  exact h.2.2 ((recSeq_mainPred true).deliverAll bs _ rfl)

/-- Non-vacuity / sanity: a concrete history with a reorganisation (trunk 1, branch 2–3 vs
heavier branch 4, margin 1) produces a log with a delete record, and it replays to the chain. -/
example :
    let s := deliverAll (init 0 1 true ⟨0, 0, 0, 5⟩)
      [⟨1, 0, 1, 1⟩, ⟨2, 1, 2, 1⟩, ⟨4, 1, 2, 9⟩, ⟨3, 2, 3, 1⟩]
    seqLog s = [some (true, 0), some (true, 1), some (true, 2), some (false, 2), some (true, 4)] ∧
    replay (seqLog s) = some [4, 1, 0] := by
  decide

end C26
