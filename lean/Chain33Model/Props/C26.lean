import Chain33Model.Model.C26
import Chain33Model.Proofs.C26
import Chain33Model.Proofs.C25Deliver
import Chain33Model.Proofs.C26Restart
/-!
C26 — Block sequence log replays to the best chain.  Property theorems.

`deliverAll (init fin margin true g) bs` is the node state after the blocks `bs` (ANY blocks:
no validity, tree-shape or order hypothesis) were handed to `ProcessBlock` one after the other on
a node that holds the genesis block `g` and records sequences.
-/
namespace C26
open C25

/-- Sequence numbers are assigned consecutively from zero without gaps: after any deliveries,
record `i` exists exactly for `0 ≤ i ≤ lastSeq` (and record 0 exists: `0 ≤ lastSeq`). -/
theorem seq_consecutive (fin margin : Nat) (g : Block) (bs : List Block) :
    let s := deliverAll (init fin margin true g) bs
    0 ≤ s.lastSeq ∧ ∀ i : Nat, (s.seqTab i).isSome ↔ (i : Int) ≤ s.lastSeq := by
  intro s
  have h := (logInv_mainPred _ (init_lastSeq_ge fin margin true g)).deliverAll bs _
    (logInv_init fin margin true g)
  have hrec : s.recSeq = true :=
    (recSeq_mainPred true).deliverAll bs _ rfl
  exact ⟨h.1.2.2 hrec, h.1.2.1⟩

/-- …and without reuse: a delivery never rewrites a number that was already assigned — the
log of the state before is a prefix of the log after (for every reachable `s`, every block). -/
theorem seq_no_reuse (fin margin : Nat) (g : Block) (bs : List Block) (b : Block) :
    let s := deliverAll (init fin margin true g) bs
    let s' := (processBlock s b).1
    s.lastSeq ≤ s'.lastSeq ∧ ∀ i : Nat, (i : Int) ≤ s.lastSeq → s'.seqTab i = s.seqTab i := by
  intro s s'
  have h := (logInv_mainPred _ (init_lastSeq_ge fin margin true g)).deliverAll bs _
    (logInv_init fin margin true g)
  have h' : LogInv s s := ⟨h.1, ⟨Int.le_refl _, fun _ _ => rfl⟩, h.2.2⟩
  exact ((logInv_mainPred s h.1.1).processBlock s b h').2.1

/-- Replaying the add and delete records in sequence order succeeds and yields exactly the
node's best chain (the chain view, tip on top of the stack), for any history of additions and
reorganisations. -/
theorem replay_eq_best (fin margin : Nat) (g : Block) (bs : List Block) :
    let s := deliverAll (init fin margin true g) bs
    replay (seqLog s) = some (s.best.map (·.id)) := by
  intro s
  have h := (logInv_mainPred _ (init_lastSeq_ge fin margin true g)).deliverAll bs _
    (logInv_init fin margin true g)
  exact h.2.2 ((recSeq_mainPred true).deliverAll bs _ rfl)

/-- **replay_eq_chain.**  Replaying the log reproduces exactly the current best chain *as stored
in the height index*: the replayed stack read bottom-up is the block hash at every height
`0..last`, and there is no entry above `last` — for any history (any blocks, any order). -/
theorem replay_eq_chain (fin margin : Nat) (g : Block) (hg : g.height = 0) (bs : List Block) :
    let s := deliverAll (init fin margin true g) bs
    ∃ stack, replay (seqLog s) = some stack ∧ replayedChain s = some stack.reverse ∧
      mainChain s = stack.reverse.map some ∧ cleanAbove s = true := by
  intro s
  have hrep := replay_eq_best fin margin g bs
  have hi : Inv s := deliverAll_inv fin margin true g hg bs
  obtain ⟨t, r, hbest⟩ := List.exists_cons_of_ne_nil hi.linked.ne_nil
  have hl : Linked (t :: r) := hbest ▸ hi.linked
  have hlast : s.last = t.height := hi.last t r hbest
  refine ⟨s.best.map (·.id), hrep, by simp only [replayedChain]; rw [show replay (seqLog s) = _ from hrep]; rfl, ?_, ?_⟩
  · have h1 : (s.last + 1).toNat = t.height + 1 := by omega
    simp only [mainChain, h1]
    rw [show (List.range (t.height + 1)).map s.h2h = (List.range (t.height + 1)).map (view (t :: r)) from
      List.map_congr_left (fun k _ => by rw [hi.h2h k, hbest])]
    rw [range_view_linked r t hl, hbest]
    simp [List.map_reverse]
  · have h1 : (s.last + 1).toNat = t.height + 1 := by omega
    have h2 : (s.last + 2).toNat = t.height + 2 := by omega
    simp only [cleanAbove, h1, h2, hi.h2h, hbest]
    rw [view_above hl _ (by omega), view_above hl _ (by omega)]
    rfl

/-- Non-vacuity / sanity: a concrete history with a reorganisation (trunk 1, branch 2–3 vs
heavier branch 4, margin 1) produces a log with a delete record, and it replays to the chain. -/
example :
    let s := deliverAll (init 0 1 true ⟨0, 0, 0, 5, []⟩)
      [⟨1, 0, 1, 1, []⟩, ⟨2, 1, 2, 1, []⟩, ⟨4, 1, 2, 9, []⟩, ⟨3, 2, 3, 1, []⟩]
    seqLog s = [some (true, 0), some (true, 1), some (true, 2), some (false, 2), some (true, 4)] ∧
    replay (seqLog s) = some [4, 1, 0] := by
  decide

/-! ## Across restarts, finaliser requests, clock ticks and orphan-pool evictions

`runX (initX M F m true g lim ttl) es` / `runB (init 0 m true g) es`: the events `es` (deliver /
tick / finalize / restart) on the extension layer of `Model/C25Ext.lean`, resp. on the idealised
chain model; `none` would be the start-up panic of a restart that misses a main-chain header. -/
open C25X

/-- **seq_consecutive over restarts**: after ANY events on ANY blocks — restarts, finaliser
requests, ticks, evictions and expiries in the orphan pool included — the numbering has no gap. -/
theorem seq_consecutive_events {M : Type} [OMap M] (F m : Nat) (g : Block) (lim ttl : Nat)
    (es : List Event) (x : XState M) (hr : runX (initX M F m true g lim ttl) es = some x) :
    0 ≤ x.base.lastSeq ∧ ∀ i : Nat, (x.base.seqTab i).isSome ↔ (i : Int) ≤ x.base.lastSeq := by
  have h0 : SeqOnly (init F m true g) (init F m true g) :=
    ⟨(logInv_init F m true g).1, (logInv_init F m true g).2.1⟩
  have h := seqOnly_runX _ (init_lastSeq_ge F m true g) es (initX M F m true g lim ttl) x h0 hr
  have hrec := recSeq_runX true es (initX M F m true g lim ttl) x rfl hr
  exact ⟨h.1.2.2 hrec, h.1.2.1⟩

/-- **seq_no_reuse over restarts**: no event ever rewrites an assigned number. -/
theorem seq_no_reuse_events {M : Type} [OMap M] (F m : Nat) (g : Block) (lim ttl : Nat)
    (es : List Event) (e : Event) (x x' : XState M)
    (hr : runX (initX M F m true g lim ttl) es = some x) (hs : stepX x e = some x') :
    x.base.lastSeq ≤ x'.base.lastSeq ∧
      ∀ i : Nat, (i : Int) ≤ x.base.lastSeq → x'.base.seqTab i = x.base.seqTab i := by
  have h0 : SeqOnly (init F m true g) (init F m true g) :=
    ⟨(logInv_init F m true g).1, (logInv_init F m true g).2.1⟩
  have h := seqOnly_runX _ (init_lastSeq_ge F m true g) es (initX M F m true g lim ttl) x h0 hr
  have h' : SeqOnly x.base x.base := ⟨h.1, ⟨Int.le_refl _, fun _ _ => rfl⟩⟩
  exact (seqOnly_stepX x.base h.1.1 h' hs).2

/-- **replay_eq_chain over restarts**: deliveries drawn from a block tree (any order, duplicates),
interleaved with any number of restarts and clock ticks: no restart panics, and at the end the
replay of the log is exactly the height index of the best chain.  (Finalised height 0 and no
finaliser requests in this statement; orphan pool of the idealised model.) -/
theorem replay_eq_chain_restart {g : Block} {T : List Block} (ht : Tree g T) (m : Nat)
    (es : List Event) (hds : ∀ b ∈ delivered es, b ∈ T) (hnf : ∀ h id, Event.finalize h id ∉ es) :
    ∃ s, runB (init 0 m true g) es = some s ∧
      ∃ stack, replay (seqLog s) = some stack ∧ replayedChain s = some stack.reverse ∧
        mainChain s = stack.reverse.map some ∧ cleanAbove s = true := by
  have hinit : RestartInv g T m (init 0 m true g) (init 0 m true g) :=
    ⟨logInv_init 0 m true g, paired_init ht m, rfl⟩
  obtain ⟨s, hrun, hinv⟩ := restartInv_runB ht m _ (init_lastSeq_ge 0 m true g) es _ hinit hds hnf
  obtain ⟨s2, hrel, hs, _, _⟩ := hinv.paired
  have hrep := hinv.log.2.2 hinv.recSeq
  obtain ⟨t, r, hb2⟩ := List.exists_cons_of_ne_nil hs.inv.linked.ne_nil
  have hb1 : s.best = t :: r := by rw [hrel.best]; exact hb2
  obtain ⟨h1, h2⟩ := chain_of_view hb1 (hb2 ▸ hs.inv.linked)
    (fun h => by rw [hrel.h2h, hs.inv.h2h h, hrel.best])
    (by rw [hrel.last]; exact hs.inv.last t r hb2)
  exact ⟨s, hrun, s.best.map (·.id), hrep,
    by simp only [replayedChain]; rw [show replay (seqLog s) = _ from hrep]; rfl, h1, h2⟩

/-- Non-vacuity: a run with a reorganisation between two restarts (margin 1). -/
example :
    (runB (init 0 1 true ⟨0, 0, 0, 5, []⟩)
      [.deliver ⟨1, 0, 1, 1, []⟩, .deliver ⟨2, 1, 2, 1, []⟩, .restart, .deliver ⟨4, 1, 2, 9, []⟩, .restart,
       .deliver ⟨3, 2, 3, 1, []⟩]).map (fun s => (seqLog s, s.best.map (·.id), s.orphans.map (·.id))) =
    some ([some (true, 0), some (true, 1), some (true, 2), some (false, 2), some (true, 4)], [4, 1, 0], [3]) := by
  decide

end C26
