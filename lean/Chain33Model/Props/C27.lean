import Chain33Model.Model.C27
import Chain33Model.Proofs.C27Lift
import Chain33Model.Proofs.C27Reject
import Chain33Model.Proofs.C27NoExist
import Chain33Model.Proofs.C27Linked
/-!
C27 — Invalid blocks are rejected without side effects or poisoning.  Property theorems.

Vocabulary (Model/C27.lean, Proofs/C27*.lean):
* `Blk` — header + body + block signature; `id` = `Block.Hash` = H(header) only, so a tampered
  body travels under the genuine header's `id`;
* `P : Params`, `P.exec s b` — the verdict of `execBlock` (known parent and consecutive height are
  checked by `maybeAcceptBlock`; signatures, duplicate transactions, tx root, state root and the
  consensus check by `PreExecBlock`): `none` = passes every check.  The theorems hold for EVERY
  `exec` (it may depend on the whole node state);
* `run P (init F m hi lo r g) evs` — the node after ANY events (deliveries of any blocks from
  any source in any order, mempool traffic) on a node holding only the genesis block `g`;
* `SameChain s s'` — best chain, height index, last height, transaction index, TxHeight cache,
  sequence log and mempool (hence the state at the tip) are the same in `s` and `s'`.
-/
namespace C27

/-- **best_chain_only_executed** (first sentence of the property): after ANY events, every block
`b` on the best chain other than the bottom one passed every validity check when it was connected:
it was handed to `execBlock` in a state `s0` whose best chain was exactly the part of the chain
below `b` (its tip = `b`'s parent) and the verdict was "no error".  (Blocks of source `self` go
through the same `exec` here; own production — errReturn = false — is outside the model.) -/
theorem best_chain_only_executed (P : Params) (F m hi lo : Nat) (r : Bool) (g : Blk) (evs : List Ev) :
    ∀ pre b post, (run P (init F m hi lo r g) evs).best = pre ++ b :: post → post ≠ [] →
      ∃ s0, s0.best = post ∧ P.exec s0 b = none := by
  let Q : State → Prop := fun s => ∀ pre b post, s.best = pre ++ b :: post → post ≠ [] →
    ∃ s0, s0.best = post ∧ P.exec s0 b = none
  have hP : Pres P (fun _ => True) (fun _ => True) Q := {
    frame := by intro s s' h ha; show ∀ pre b post, s'.best = _ → _; rw [ha.2.2.2.2.1]; exact h
    conn := by
      intro s b s' h _ _ _ hc
      obtain ⟨tip, rest, s1, ptd, hb0, _, hex, hs1, _, rfl⟩ := connectBlock_ok hc
      have hbest : s1.best = s.best := (saveSeq_frame hs1).2.2.2.2.2.2.2.2.2.1
      intro pre x post hx hne
      have hx' : b :: s.best = pre ++ x :: post := by rw [← hbest]; exact hx
      cases pre with
      | nil =>
        simp only [List.nil_append, List.cons.injEq] at hx'
        obtain ⟨rfl, rfl⟩ := hx'
        exact ⟨s, rfl, hex⟩
      | cons p0 pre' =>
        simp only [List.cons_append, List.cons.injEq] at hx'
        exact h pre' x post hx'.2 hne
    disc := by
      intro s b s' r h _ _ hd
      unfold disconnectBlock at hd
      split at hd
      · cases hd; exact h
      · rename_i tip rest hbest
        split at hd
        · cases hd; exact h
        · split at hd
          · cases hd; exact h
          · rename_i s1 hs1
            cases hd
            intro pre x post hx hne
            exact h (tip :: pre) x post (by rw [hbest]; simp; exact hx) hne
    store := by
      intro s b s' _ h _ _ _ _ hs
      have := sameChain_storeBlock hs
      show ∀ pre b post, s'.best = _ → _
      rw [this.1]; exact h
    addIdx := by intro s b src h _; exact h
    poolAdd := by intro s x h _; exact h
    poolDel := by intro s x h; exact h
    restart := by intro s h; exact h }
  have h0 : QS (fun _ => True) Q (init F m hi lo r g) := by
    refine ⟨?_, seen_init F m hi lo r g trivial⟩
    intro pre b post hb hne
    simp only [init] at hb
    cases pre with
    | nil => simp only [List.nil_append, List.cons.injEq] at hb; exact absurd hb.2.symm hne
    | cons p0 pre' => simp at hb
  exact (hP.run evs _ (fun e _ => by cases e <;> trivial) h0).1

/-- **best_chain_linked** ("known parent, consecutive height"): after ANY events, for EVERY
execution verdict, the best chain — as long as it is not empty — is linked: every block names its
predecessor's hash as parent and is exactly one higher, down to genesis.  Hypotheses: the delivered
blocks `U` obey the header law (`Block.Hash` covers parent hash and height) and no block's hash is
genesis' parent hash.  (The chain view can only become empty through `disconnectBlock` of the
bottom block, which repo commit a2015e1 made unreachable in practice; the model does not prove that.) -/
theorem best_chain_linked (P : Params) (U : List Blk) (hU : HeaderLaw U) (F m hi lo : Nat) (r : Bool)
    (g : Blk) (hgU : g ∈ U) (hgp : ∀ x ∈ U, x.id ≠ g.parent) (evs : List Ev)
    (hev : ∀ b src, Ev.deliver b src ∈ evs → b ∈ U) :
    let s := run P (init F m hi lo r g) evs
    s.best ≠ [] → Linked g s.best ∧ ∀ x ∈ s.best, x ∈ U := by
  intro s hne
  have h0 : QS (fun b => b ∈ U) (LInv U g) (init F m hi lo r g) := by
    refine ⟨Or.inr ⟨rfl, ?_, ?_, ?_⟩, seen_init F m hi lo r g hgU⟩
    · intro x hx; simp only [init, List.mem_singleton] at hx; rw [hx]; exact hgU
    · intro x hx; simp only [init, List.mem_singleton] at hx; rw [hx]; exact hgU
    · intro id x hx
      simp only [init, C25.upd] at hx
      split at hx
      · cases hx; exact Or.inl rfl
      · cases hx
  have h1 := (linv_pres P hU hgp).run evs _ (fun e he => by
    cases e with
    | deliver b s => exact hev b s he
    | poolAdd x => trivial
    | poolDel x => trivial
    | restart => trivial) h0
  rcases h1.1 with hnil | G
  · exact absurd hnil hne
  · exact ⟨G.linked, G.bestU⟩

/-- **reject_tip_extension_noop.**  A block that extends the tip and fails a validity check in
the ONE state it is executed in — the node's state with the block pre-stored and indexed
(`storeBlock`, `addIndex`); the verdict may depend on the state: a mis-signed transaction the pool
does not vouch for, a duplicate of a transaction on the chain — leaves best chain, state and
indexes unchanged, from any source, in any node state (no reachability assumption needed), and is
not reported as accepted. -/
theorem reject_tip_extension_noop (P : Params) (s : State) (b : Blk) (src : Src)
    (hinv : ∀ s1, storeBlock (unorphan s b) b = some s1 → P.exec (addIndex s1 b src) b ≠ none)
    (tip : Blk) (rest : List Blk) (hbest : s.best = tip :: rest) (hpar : b.parent = tip.id) :
    SameChain s (processBlock P s b src).1 ∧
    ((processBlock P s b src).2 = .orphan ∨ ∃ e, (processBlock P s b src).2 = .err e) :=
  processBlock_reject_tip s b src hinv tip rest hbest hpar

/-- Non-vacuity: block 2 (wrong state root) on a two-block chain: refused with ErrCheckStateHash,
the tip stays. -/
example :
    let P : Params := { key := id, txh := fun _ => none, exec := fun _ b => if b.stateOk then none else some .checkStateHash }
    let g : Blk := { id := 0, parent := 0, height := 0, diff := 1, time := 0, txs := [] }
    let b1 : Blk := { id := 1, parent := 0, height := 1, diff := 1, time := 1, txs := [1] }
    let b2 : Blk := { id := 2, parent := 1, height := 2, diff := 1, time := 2, txs := [2], stateOk := false }
    let s := run P (init 0 12 600 200 true g) [.deliver b1 .peer]
    s.best = [b1, g] ∧ (∀ s1, P.exec s1 b2 ≠ none) ∧ (processBlock P s b2 .peer).2 = .err .checkStateHash := by
  refine ⟨by decide, fun s1 => by simp, by decide⟩

/-- Non-vacuity with a STATE-DEPENDENT defect under the drivers' own `ofTable`: block 2 carries
instance 1, a mis-signed copy (same hash 7) of the correctly signed instance 0.  In the state it
is executed in the pool does not hold instance 1 itself, so the verdict is ErrSign and the
hypothesis of `reject_tip_extension_noop` holds — although the same block would pass in a state
whose pool held that very instance. -/
example :
    let T : Table := fun i => { hash := 7, sigOk := i == 0, exp := .none, feeOk := true, chainOk := true }
    let P := ofTable T
    let g : Blk := { id := 0, parent := 0, height := 0, diff := 1, time := 0, txs := [] }
    let b2 : Blk := { id := 2, parent := 0, height := 1, diff := 1, time := 1, txs := [1] }
    let s := run P (init 0 12 600 200 true g) [.poolAdd 0]
    (∀ s1, storeBlock (unorphan s b2) b2 = some s1 → P.exec (addIndex s1 b2 .peer) b2 ≠ none) ∧
    (processBlock P s b2 .peer).2 = .err .sign ∧ (processBlock P s b2 .peer).1.best = [g] ∧
    P.exec { s with pool := [1] } b2 = none := by
  refine ⟨?_, by decide, by decide, by decide⟩
  intro s1 hs1
  have : s1.pool = [0] := by
    have h := sameChain_storeBlock hs1
    rw [h.2.2.2.2.2.2.2.2]; decide
  simp [ofTable, preExec, poolVouches, addIndex, this]

/-- **reject_orphan_placement_noop.**  A block (invalid or not — nothing is executed) whose parent
the node does not know is put into the orphan pool or refused: best chain, state and indexes do
not move, in any node state.  What DOES change is the orphan pool, keyed by block hash — the
poisoning left to `no_poisoning_full_false`. -/
theorem reject_orphan_placement_noop (P : Params) (s : State) (b : Blk) (src : Src)
    (hpar : blockExists (unorphan s b) b.parent = false) :
    SameChain s (processBlock P s b src).1 ∧
    ((processBlock P s b src).2 = .orphan ∨ ∃ e, (processBlock P s b src).2 = .err e) :=
  processBlock_orphan_placement s b src hpar

/-- … and when its parent has arrived and the orphan's turn comes (`ProcessOrphans` hands it to
`maybeAcceptBlock`): if it is invalid and extends the tip, an error and no change of the chain part. -/
theorem reject_processed_orphan_noop (P : Params) (s : State) (b : Blk) (src : Src)
    (hinv : ∀ s1, storeBlock s b = some s1 → P.exec (addIndex s1 b src) b ≠ none)
    (tip : Blk) (rest : List Blk) (hbest : s.best = tip :: rest) (hpar : b.parent = tip.id) :
    SameChain s (maybeAcceptBlock P s b src).1 ∧ ∃ e, (maybeAcceptBlock P s b src).2 = .err e :=
  maybeAcceptBlock_reject_tip s b src hinv tip rest hbest hpar

/-- **reject_side_placement_noop.**  A block (invalid or not — it is not executed) on a known
parent other than the tip that does not outweigh the tip, or lies below the finalisation margin,
and for which no orphan is waiting: pre-stored and indexed, best chain, state and indexes do not
move, the answer is never "main" — in any node state.  What DOES change is the block-by-hash
store and the index (`dbMaybeStoreBlock`, `index.AddNode` before any validation): exactly the
part refuted by `no_poisoning_full_false` / `rejected_body_not_served_full_false`.  Together with
`reject_tip_extension_noop` this leaves ONE way for an invalid block to move the chain: it, or an
orphan waiting for it, claims more total difficulty than the tip and triggers a reorganisation
(`reject_noop_full_false`). -/
theorem reject_side_placement_noop (P : Params) (s : State) (b : Blk) (src : Src)
    (tip : Blk) (rest : List Blk) (hbest : s.best = tip :: rest) (hpar : b.parent ≠ tip.id)
    (hid1 : b.id ≠ tip.id) (hid2 : b.id ≠ b.parent)
    (hlight : ∀ tiptd ptd, s.tds tip.id = some tiptd → s.tds b.parent = some ptd →
      b.diff + ptd ≤ tiptd ∨ b.height < s.fin + s.margin)
    (hno : ∀ o ∈ s.orphans, o.1.parent ≠ b.id) :
    SameChain s (processBlock P s b src).1 ∧ (processBlock P s b src).2 ≠ .main :=
  processBlock_side_placement s b src tip rest hbest hpar hid1 hid2 hlight hno

/-- Non-vacuity of the two placement theorems: block 3 (invalid) as a lighter sibling of the tip
is answered "side", block 5 on an unknown parent "orphan"; the chain stays 0,1,2. -/
example :
    let P : Params := { key := id, txh := fun _ => none, exec := fun _ b => if b.stateOk then none else some .checkStateHash }
    let g : Blk := { id := 0, parent := 0, height := 0, diff := 1, time := 0, txs := [] }
    let b1 : Blk := { id := 1, parent := 0, height := 1, diff := 1, time := 1, txs := [1] }
    let b2 : Blk := { id := 2, parent := 1, height := 2, diff := 1, time := 2, txs := [2] }
    let b3 : Blk := { id := 3, parent := 1, height := 2, diff := 1, time := 3, txs := [3], stateOk := false }
    let b5 : Blk := { id := 5, parent := 4, height := 4, diff := 9, time := 5, txs := [5], stateOk := false }
    let s := run P (init 0 12 600 200 true g) [.deliver b1 .peer, .deliver b2 .peer]
    (processBlock P s b3 .peer).2 = .side ∧ (processBlock P s b5 .peer).2 = .orphan ∧
    (processBlock P (processBlock P s b3 .peer).1 b5 .peer).1.best.map (·.id) = [2, 1, 0] ∧
    (processBlock P s b3 .peer).1.stored 3 = some b3 := by decide

/-- **reject_noop** — the statement at the strength of the property text ("a rejected block
leaves them unchanged"), for the code's literal margin 12: a block that fails validity leaves
best chain, state and indexes unchanged, whatever it extends.  FALSE of model and code. -/
def RejectNoop : Prop :=
  ∀ (P : Params) (F hi lo : Nat) (r : Bool) (g : Blk) (evs : List Ev) (b : Blk) (src : Src),
    g.height = 0 → (∀ s1, P.exec s1 b ≠ none) →
    SameChain (run P (init F 12 hi lo r g) evs) (processBlock P (run P (init F 12 hi lo r g) evs) b src).1

namespace Witness
def P0 : Params :=
  { key := id, txh := fun _ => none, exec := fun _ b => if b.stateOk then none else some .checkStateHash }
def g0 : Blk := { id := 0, parent := 0, height := 0, diff := 1, time := 0, txs := [] }
def mk (id parent height diff : Nat) (ok : Bool := true) : Blk :=
  { id := id, parent := parent, height := height, diff := diff, time := height, txs := [id], stateOk := ok }
/-- trunk 1..12, main branch 13,14 (work 5 each), side block 20 on 12 (work 1). -/
def evs0 : List Ev :=
  (List.range 12).map (fun i => Ev.deliver (mk (i+1) i (i+1) 1) .peer) ++
  [.deliver (mk 13 12 13 5) .peer, .deliver (mk 14 13 14 5) .peer, .deliver (mk 20 12 13 1) .peer]
/-- invalid (wrong state root) and claiming work 100, on the side block. -/
def x : Blk := mk 21 20 14 100 false
end Witness

open Witness in
/-- S-C27c: the invalid block 21 on the side branch claims the greater total difficulty:
`reorganizeChain` disconnects 14, 13, connects 20, then fails on 21 — the node is left on the
LIGHTER branch …,12,20.  Replayed on the real code by corpus/C27/03-s-c27c-lastinvalid.ops. -/
theorem reject_noop_full_false : ¬ RejectNoop := by
  intro h
  have h1 := h P0 0 600 200 false g0 evs0 x .peer rfl (fun s1 => by simp [P0, x, mk])
  have h2 : ((processBlock P0 (run P0 (init 0 12 600 200 false g0) evs0) x .peer).1.best.map (·.id)).take 2 = [20, 12] := by decide
  have h3 : ((run P0 (init 0 12 600 200 false g0) evs0).best.map (·.id)).take 2 = [14, 13] := by decide
  rw [h1.1, h3] at h2
  exact absurd h2 (by decide)

/-- **reject_no_fork_noop** (repo commit a2015e1).  A block that is not on the tip and whose fork
point with the best chain is not found — an ancestor's index node lost its parent pointer
(`index.DelNode` after a failed execution on the download path) — is refused with an error and
leaves best chain, state and indexes unchanged, in any node state.  (`findFork` reads index,
deleted nodes and best chain only; the hypothesis is stated for the index with the block's own
node added, as `maybeAcceptBlock` does before `connectBestChain`.) -/
theorem reject_no_fork_noop (P : Params) (s : State) (b : Blk) (src : Src)
    (tip : Blk) (rest : List Blk) (hbest : s.best = tip :: rest) (hpar : b.parent ≠ tip.id)
    (hnf : findFork (addIndex s b src) b = none) :
    SameChain s (processBlock P s b src).1 ∧
    ((processBlock P s b src).2 = .orphan ∨ ∃ e, (processBlock P s b src).2 = .err e) :=
  processBlock_no_fork s b src tip rest hbest hpar hnf

namespace Witness
/-- trunk 1..12, RESTART, main 13,14; X = 20 (wrong state root, download path, side branch of 12);
Y = 21 on X claims work 100: the reorganisation fails on X, whose node is deleted. -/
def evsD : List Ev :=
  (List.range 12).map (fun i => Ev.deliver (mk (i+1) i (i+1) 1) .peer) ++
  [.restart, .deliver (mk 13 12 13 1) .peer, .deliver (mk 14 13 14 1) .peer,
   .deliver (mk 20 12 13 1 false) .download, .deliver (mk 21 20 14 100) .peer]
def sD : State := run P0 (init 0 12 600 200 false g0) evsD
/-- Z on Y claims still more work. -/
def z : Blk := mk 22 21 15 1000
/-- the state in which `maybeAcceptBlock` calls `connectBestChain` for Z. -/
def sZ : State :=
  match storeBlock sD z with
  | some s1 => addIndex s1 z .peer
  | none => sD
end Witness

open Witness in
/-- Non-vacuity of `reject_no_fork_noop`, and **regression witness** for the behaviour before
a2015e1: in the state reached by the deliveries above no fork point is found for Z; the repaired
`connectBestChain` refuses Z and the chain 0..12 stays; the OLD `connectBestChain` hands the nil
fork to getReorganizeNodes: every block down to genesis is disconnected, then the panic
(corpus/C27/05-delnode-descendants-chain-wiped.ops replays both on the real code). -/
theorem no_fork_regression_old_connectBestChain :
    sD.best.length = 13 ∧ findFork (addIndex sD z .peer) z = none ∧
    (processBlock P0 sD z .peer).2 = .err .parentNoExist ∧ (processBlock P0 sD z .peer).1.best.length = 13 ∧
    (connectBestChainOld P0 sZ z).1.best = [] ∧ (connectBestChainOld P0 sZ z).2 = .err .panic := by decide

/-- **no_poisoning** — the statement at the strength of the property text: after a tampered
body `t` under the header of a valid block `b` (same `id`; `b` passes every check, `t` does not)
was delivered, delivery of `b` is never answered `ErrBlockExist` — provided the hash was unknown
to the node before.  FALSE of model and code. -/
def NoPoisoning : Prop :=
  ∀ (P : Params) (F m hi lo : Nat) (r : Bool) (g : Blk) (evs : List Ev) (t b : Blk) (src1 src2 : Src),
    NX P → t.id = b.id → (∀ s1, P.exec s1 t ≠ none) → (∀ s1, P.exec s1 b = none) →
    Fresh b.id (run P (init F m hi lo r g) evs) →
    (processBlock P (processBlock P (run P (init F m hi lo r g) evs) t src1).1 b src2).2 ≠ .err .exist

/-- S-C27a: the tampered body (wrong tx root) extends the tip and comes from a peer: execution
fails, `handleErrBlk` keeps the index node with `errLog`; the genuine block is then answered
`ErrBlockExist`.  Replayed on the real code by corpus/C27/01-s-c27a-tip-reorder.ops. -/
theorem no_poisoning_full_false : ¬ NoPoisoning := by
  intro h
  let P : Params := { key := id, txh := fun _ => none, exec := fun _ b => if b.rootOk then none else some .checkTxHash }
  let g : Blk := { id := 0, parent := 0, height := 0, diff := 1, time := 0, txs := [] }
  let b : Blk := { id := 1, parent := 0, height := 1, diff := 1, time := 1, txs := [1, 2] }
  let t : Blk := { id := 1, parent := 0, height := 1, diff := 1, time := 1, txs := [2, 1], rootOk := false }
  have h1 := h P 0 12 600 200 false g [] t b .peer .peer
    (by intro s x; show (if x.rootOk then none else some Err.checkTxHash) ≠ some .exist; split <;> simp)
    rfl (fun s1 => by simp [P, t]) (fun s1 => by simp [P, b])
    ⟨by decide, by decide, fun hh => by
      show (init 0 12 600 200 false g).h2h hh ≠ some 1
      simp only [init, C25.upd]
      split <;> simp [g]⟩
  exact h1 (by decide)

/-- the same through a side branch (S-C27b: the tampered body is pre-stored without being
executed) and through the orphan pool: in both cases the genuine block is answered ErrBlockExist. -/
example :
    let P : Params := { key := id, txh := fun _ => none, exec := fun _ b => if b.rootOk then none else some .checkTxHash }
    let g : Blk := { id := 0, parent := 0, height := 0, diff := 1, time := 0, txs := [] }
    let a : Blk := { id := 1, parent := 0, height := 1, diff := 5, time := 1, txs := [9] }
    let b : Blk := { id := 2, parent := 0, height := 1, diff := 1, time := 2, txs := [1, 2] }
    let t : Blk := { b with txs := [2, 1], rootOk := false }
    let o : Blk := { id := 3, parent := 7, height := 5, diff := 1, time := 2, txs := [2, 1], rootOk := false }
    let s := run P (init 0 12 600 200 false g) [.deliver a .peer, .deliver t .peer, .deliver o .peer]
    s.stored 2 = some t ∧ (processBlock P s b .peer).2 = .err .exist ∧
    (processBlock P s { o with txs := [1, 2], rootOk := true } .peer).2 = .err .exist := by decide

/-- **no_poisoning_partial.**  Hypotheses added: the tampered body arrives through the
fast-download path (`pid = "download"`, where `handleErrBlk` deletes the index node), extends
the tip, whose hash the node knows, and fails execution in the one state it is executed in.  Then, in ANY node state in which the hash is fresh, the
genuine block delivered afterwards (from any source) is not answered `ErrBlockExist`. -/
theorem no_poisoning_partial (P : Params) (hnx : NX P) (s : State) (t b : Blk) (src2 : Src)
    (hid : t.id = b.id) (hinv : ∀ s1, storeBlock s t = some s1 → P.exec (addIndex s1 t .download) t ≠ none)
    (tip : Blk) (rest : List Blk) (hbest : s.best = tip :: rest) (hpar : t.parent = tip.id)
    (hpk : blockExists s t.parent = true) (hf : Fresh b.id s) :
    (processBlock P (processBlock P s t .download).1 b src2).2 ≠ .err .exist := by
  have h1 := download_reject_fresh (P := P) s t hinv tip rest hbest hpar hpk (by rw [hid]; exact hf)
  rw [hid] at h1
  exact processBlock_ne_exist hnx _ b src2 h1.1 h1.2.1 h1.2.2

/-- Non-vacuity of `no_poisoning_partial`: tampered body by download, then the genuine block
becomes the tip. -/
example :
    let P : Params := { key := id, txh := fun _ => none, exec := fun _ b => if b.rootOk then none else some .checkTxHash }
    let g : Blk := { id := 0, parent := 0, height := 0, diff := 1, time := 0, txs := [] }
    let b : Blk := { id := 1, parent := 0, height := 1, diff := 1, time := 1, txs := [1, 2] }
    let t : Blk := { b with txs := [2, 1], rootOk := false }
    let s := init 0 12 600 200 false g
    blockExists s t.parent = true ∧ inIndex s 1 = false ∧ isKnownOrphan s 1 = false ∧
    (processBlock P s t .download).2 = .err .checkTxHash ∧
    (processBlock P (processBlock P s t .download).1 b .peer).2 = .main := by decide

/-- **rejected_body_not_served** — the last clause of the property ("the node never serves or
re-executes the rejected body under that block's hash"): after a body was rejected, the store
does not hold it under the block hash.  FALSE of model and code, for peers and for the download path. -/
def RejectedBodyNotServed : Prop :=
  ∀ (P : Params) (F m hi lo : Nat) (r : Bool) (g : Blk) (evs : List Ev) (t : Blk) (src : Src),
    (∀ s1, P.exec s1 t ≠ none) →
    (processBlock P (run P (init F m hi lo r g) evs) t src).1.stored t.id ≠ some t

/-- `dbMaybeStoreBlock` stores the body before it is executed and nothing removes it (not even
`index.DelNode` on the download path); `LoadBlockByHash` serves it, `reorganizeChain` re-executes it.
Replayed by `stored <hdr>` in corpus/C27/01-s-c27a-tip-reorder.ops. -/
theorem rejected_body_not_served_full_false : ¬ RejectedBodyNotServed := by
  intro h
  let P : Params := { key := id, txh := fun _ => none, exec := fun _ b => if b.rootOk then none else some .checkTxHash }
  let g : Blk := { id := 0, parent := 0, height := 0, diff := 1, time := 0, txs := [] }
  let t : Blk := { id := 1, parent := 0, height := 1, diff := 1, time := 1, txs := [2, 1], rootOk := false }
  exact h P 0 12 600 200 false g [] t .download (fun s1 => by simp [P, t]) (by decide)

end C27
