import Chain33Model.Model.C27
namespace C27
theorem placeholder : True := trivial
end C27
