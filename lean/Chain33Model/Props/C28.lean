import Chain33Model.Model.C27
namespace C28
theorem placeholder : True := trivial
end C28
