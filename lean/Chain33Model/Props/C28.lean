import Chain33Model.Model.C27
import Chain33Model.Proofs.C27Lift
import Chain33Model.Proofs.C28Inv
import Chain33Model.Proofs.C28Window
/-!
C28 — Chain holds no replayed, expired or mis-signed transactions.  Property theorems.

Vocabulary (Model/C27.lean, Proofs/C28Inv.lean):
* `T : Table` — the transaction instances: `(T i).hash` is `Transaction.Hash()` (every field except
  signature and public key), `sigOk` the signature check, `exp`/`feeOk`/`chainOk` what the
  executor's `checkTx` looks at;
* `ofTable T` — block execution = `preExec`: PreExecBlock's checks in the order of the code;
* `node T F m hi lo r g evs` — the node after ANY sequence `evs` of events on a node holding only
  the genesis block `g`: blocks handed to `ProcessBlock` (any header, any body, valid or not, any
  order, from peers or the download path), transaction instances admitted by / leaving the mempool, node restarts;
* `chainKeys T best` — the transaction hashes along the best chain.

Scope of "however the block arrived": blocks from peers (broadcast, sync) and from the download
path — every chain theorem below carries `hns : no Ev.deliver _ .self in evs`.  Blocks the node
produces itself go through `PreExecBlock(errReturn = false)` (no signature check, failing
transactions dropped, block re-hashed), which `connectBlock` of the model does not distinguish; for
that path only the single-step `produced_block_clean` is proved (what the producer keeps of an
offered body); signatures there rest on the mempool (C22).
-/
namespace C28
open C27

/-- the node state after the events `evs`. -/
def node (T : Table) (F m hi lo : Nat) (r : Bool) (g : Blk) (evs : List Ev) : State :=
  run (ofTable T) (init F m hi lo r g) evs

/-- **chain_tx_unexpired_fee_chainid.**  After ANY events, every transaction of every block of
the best chain is unexpired at that block's height and time and passes the fee and chain-id
checks (`g.txs = []`: the genesis block is not subject to them). -/
theorem chain_tx_unexpired_fee_chainid (T : Table) (F m hi lo : Nat) (r : Bool) (g : Blk)
    (hg : g.txs = []) (evs : List Ev) (_hns : ∀ b, Ev.deliver b .self ∉ evs) :
    let s := node T F m hi lo r g evs
    ∀ b ∈ s.best, ∀ t ∈ b.txs,
      isExpire hi lo (T t) b.height b.time = false ∧ (T t).feeOk = true ∧ (T t).chainOk = true := by
  intro s b hb t ht
  have h0 : QS (fun _ => True) (StaticInv hi lo T) (init F m hi lo r g) := by
    refine ⟨⟨rfl, rfl, ?_⟩, seen_init F m hi lo r g trivial⟩
    intro x hx u hu
    simp only [init, List.mem_singleton] at hx
    subst hx; rw [hg] at hu; cases hu
  have h1 := (static_pres hi lo T).run evs _ (fun e _ => by cases e <;> trivial) h0
  exact checkTx_true (h1.1.2.2 b hb t ht)

/-- Non-vacuity: a chain with a height-expiring transaction (instance 1, expires at height 3)
connected at height 1; the same transaction offered at height 3 is refused. -/
example :
    let T : Table := fun i => { hash := i, sigOk := true, exp := if i = 1 then .height 3 else .none, feeOk := true, chainOk := true }
    let g : Blk := { id := 0, parent := 0, height := 0, diff := 1, time := 0, txs := [] }
    let b1 : Blk := { id := 1, parent := 0, height := 1, diff := 1, time := 1, txs := [1] }
    let b2 : Blk := { id := 2, parent := 1, height := 2, diff := 1, time := 2, txs := [2] }
    let b3 : Blk := { id := 3, parent := 2, height := 3, diff := 1, time := 3, txs := [1] }
    let s := node T 0 12 600 200 true g [.deliver b1 .peer, .deliver b2 .peer, .deliver b3 .peer]
    s.best.map (·.id) = [2, 1, 0] ∧ s.txIdx 1 = some 1 := by decide

/-- **chain_tx_signed** — FULL statement (since repo commit 28243c8, mirrored by `preExec`).
Modelling assumption, stated as the hypothesis `hpool`: the mempool only ADMITS correctly signed
transactions (`Ev.poolAdd t` events; mempool admission itself is C22's subject).  Then after ANY
events — any peer blocks, including key-substituted / re-signed copies of pooled transactions, any
order, reorganisations — every transaction on the best chain is correctly signed.
The mempool's other way in, `delBlock` on EventDelBlock, re-inserts the transactions of a
disconnected block WITHOUT verifying them; the proof covers it (invariant `SigInv`: the body the
store holds under a best-chain hash is the connected one and was verified or vouched for by the
very same pooled transaction), so no mis-signed transaction can reach the pool that way. -/
theorem chain_tx_signed (T : Table) (F m hi lo : Nat) (r : Bool) (g : Blk) (hg : g.txs = [])
    (evs : List Ev) (_hns : ∀ b, Ev.deliver b .self ∉ evs)
    (hpool : ∀ t, Ev.poolAdd t ∈ evs → (T t).sigOk = true) :
    ∀ b ∈ (node T F m hi lo r g evs).best, ∀ t ∈ b.txs, (T t).sigOk = true := by
  have h0 : QS (fun _ => True) (SigInv T) (init F m hi lo r g) := by
    refine ⟨⟨?_, ?_, ?_⟩, seen_init F m hi lo r g trivial⟩
    · intro x hx; simp [init] at hx
    · intro x hx
      simp only [init, List.mem_singleton] at hx
      subst hx
      exact ⟨x, by simp [init, C25.upd], by rw [hg]; intro t ht; cases ht⟩
    · intro x hx u hu
      simp only [init, List.mem_singleton] at hx
      subst hx; rw [hg] at hu; cases hu
  have h1 := (sig_pres T).run evs _ (fun e he => by
    cases e with
    | deliver b s => trivial
    | poolAdd x => exact hpool x he
    | poolDel x => trivial
    | restart => trivial) h0
  exact h1.1.2.2

/-- Non-vacuity, and the S-C28 input on the repaired model: instance 0 (hash 7, correctly signed)
is pooled; the peer block with instance 1 (same hash 7, invalid signature) is refused with ErrSign
and the pool keeps instance 0; the block with instance 0 itself is accepted without verification
and leaves the pool; after a reorganisation away from it (margin 1) instance 0 is back in the pool. -/
example :
    let T : Table := fun i => { hash := if i ≤ 1 then 7 else i, sigOk := i != 1, exp := .none, feeOk := true, chainOk := true }
    let g : Blk := { id := 0, parent := 0, height := 0, diff := 1, time := 0, txs := [] }
    let b1 : Blk := { id := 1, parent := 0, height := 1, diff := 1, time := 1, txs := [1] }
    let b2 : Blk := { id := 2, parent := 0, height := 1, diff := 1, time := 2, txs := [0] }
    let b3 : Blk := { id := 3, parent := 0, height := 1, diff := 9, time := 3, txs := [5] }
    let b4 : Blk := { id := 4, parent := 3, height := 2, diff := 1, time := 4, txs := [1] }
    let s := node T 0 1 600 200 false g [.poolAdd 0, .deliver b1 .peer, .deliver b2 .peer]
    let s' := node T 0 1 600 200 false g [.poolAdd 0, .deliver b1 .peer, .deliver b2 .peer, .deliver b3 .peer, .deliver b4 .peer]
    s.errLog 1 = some .sign ∧ s.best.map (·.id) = [2, 0] ∧ s.pool = [] ∧
    s'.best.map (·.id) = [3, 0] ∧ s'.pool = [0] ∧ s'.errLog 4 = some .sign := by decide

/-- the signature clause over the OLD `PreExecBlock` (before repo commit 28243c8: exemption by
`Hash()` alone, `preExecOld`). -/
def ChainTxSignedOld : Prop :=
  ∀ (T : Table) (F m hi lo : Nat) (r : Bool) (g : Blk) (evs : List Ev), g.txs = [] →
    (∀ t, Ev.poolAdd t ∈ evs → (T t).sigOk = true) →
    ∀ b ∈ (run (ofTableOld T) (init F m hi lo r g) evs).best, ∀ t ∈ b.txs, (T t).sigOk = true

/-- **regression witness S-C28**: with the old exemption rule the statement is false — instance 0
(hash 7, correctly signed) is pooled; a peer block carries instance 1, the same hash 7 with an
invalid signature; verification is skipped and the block becomes the tip.  (Replayed on the real
code by corpus/C28/01-s-c28.ops: before 28243c8 `main` and the victim debited, now ErrSign.) -/
theorem chain_tx_signed_regression_old_preExec : ¬ ChainTxSignedOld := by
  intro h
  let T : Table := fun i => { hash := 7, sigOk := i == 0, exp := .none, feeOk := true, chainOk := true }
  let g : Blk := { id := 0, parent := 0, height := 0, diff := 1, time := 0, txs := [] }
  let b1 : Blk := { id := 1, parent := 0, height := 1, diff := 1, time := 1, txs := [1] }
  have h1 := h T 0 12 600 200 false g [.poolAdd 0, .deliver b1 .peer] rfl
    (by
      intro x hx
      simp only [List.mem_cons, Ev.poolAdd.injEq, reduceCtorEq, List.not_mem_nil, or_false] at hx
      subst hx; rfl)
    b1 (by decide) 1 (by decide)
  exact absurd h1 (by decide)

/-- **chain_tx_unique** — FULL statement: TxHeight transactions included, several bodies under
one block hash allowed (the one-body-per-hash hypothesis of the earlier partial theorem is NOT
needed: S-C27b poisons the index and the store, but whatever is connected was executed and is what
the store then holds under that hash).  Hypotheses = the laws of the two hash functions over the
delivered blocks `U` and the transaction table, and the shape of genesis:
`HashLaw` — `Transaction.Hash()` covers Expire; `HeaderLaw` — `Block.Hash` covers parent hash and
height; genesis has height 0, no transactions, and a parent hash that is no block's hash; the
window `hi + lo` is at least 1 (`initAllowPackHeight` requires both > 0).
After ANY events — valid and invalid blocks in any order, tampered bodies, reorganisations back
and forth, mempool traffic, node RESTARTS — a transaction hash occurs in at most one block of the
best chain and at most once in it (`KeyUniq`), i.e. the list of hashes along the chain has no
duplicate; a TxHeight transaction can only sit inside its validity window
(`chain_tx_unexpired_fee_chainid`), so this is "unique within its validity window". -/
theorem chain_tx_unique (T : Table) (hT : HashLaw T) (U : List Blk) (hU : HeaderLaw U)
    (F m hi lo : Nat) (hw : 1 ≤ hi + lo) (r : Bool) (g : Blk) (hgU : g ∈ U) (hg0 : g.height = 0)
    (hgt : g.txs = []) (hgp : ∀ x ∈ U, x.id ≠ g.parent) (evs : List Ev)
    (_hns : ∀ b, Ev.deliver b .self ∉ evs) (hev : ∀ b src, Ev.deliver b src ∈ evs → b ∈ U) :
    let s := node T F m hi lo r g evs
    KeyUniq T s.best ∧ (chainKeys T s.best).Nodup := by
  intro s
  have H : Hyp T U g hi lo := ⟨hT, hU, hgU, hg0, hgt, hgp, hw⟩
  have h0 : QS (fun b => b ∈ U) (WInv T U g hi lo) (init F m hi lo r g) :=
    ⟨Or.inr (good_init H F m r), seen_init F m hi lo r g hgU⟩
  have h1 := (winv_pres H).run evs _ (fun e he => by
    cases e with
    | deliver b s => exact hev b s he
    | poolAdd x => trivial
    | poolDel x => trivial
    | restart => trivial) h0
  rcases h1.1 with hnil | G
  · have : s.best = [] := hnil
    rw [this]
    exact ⟨⟨fun x hx => absurd hx (List.not_mem_nil), fun x hx => absurd hx (List.not_mem_nil)⟩, by simp [chainKeys]⟩
  · exact ⟨G.uniq, KeyUniq.nodup_chainKeys (Linked.nodup G.linked) G.uniq⟩

/-- Non-vacuity with a TxHeight transaction and a restart (window hi = 2, lo = 1): instance 5
(txHeight 2, packable at heights 1..4) is packed at height 1; after a restart the cache is rebuilt
and its replay at height 3 is refused as a duplicate; at height 5 it is refused as expired. -/
example :
    let T : Table := fun i => { hash := i, sigOk := true, exp := if i = 5 then .txHeight 2 else .none, feeOk := true, chainOk := true }
    let g : Blk := { id := 0, parent := 0, height := 0, diff := 1, time := 0, txs := [] }
    let b1 : Blk := { id := 1, parent := 0, height := 1, diff := 1, time := 1, txs := [5] }
    let b2 : Blk := { id := 2, parent := 1, height := 2, diff := 1, time := 2, txs := [6] }
    let b3 : Blk := { id := 3, parent := 2, height := 3, diff := 1, time := 3, txs := [5, 7] }
    let c3 : Blk := { id := 4, parent := 2, height := 3, diff := 1, time := 3, txs := [8] }
    let c4 : Blk := { id := 5, parent := 4, height := 4, diff := 1, time := 4, txs := [9] }
    let b5 : Blk := { id := 6, parent := 5, height := 5, diff := 1, time := 5, txs := [5] }
    let s := node T 0 12 2 1 false g [.deliver b1 .peer, .deliver b2 .peer, .restart, .deliver b3 .peer,
      .deliver c3 .peer, .deliver c4 .peer, .deliver b5 .peer]
    s.best.map (·.id) = [5, 4, 2, 1, 0] ∧ s.errLog 3 = some .txDup ∧ s.errLog 6 = some .blockExec ∧
    chainKeys T s.best = [9, 8, 6, 5] := by decide

/-- Non-vacuity of `chain_tx_unique` / `txheight_window_cached` WITH their hypotheses: a table
and a history (duplicate in a later block, TxHeight transaction 5 replayed after a restart, a
heavier sibling) for which `HashLaw`, `HeaderLaw`, the genesis conditions (`g.parent = 99` is no
block's hash), `hns` and `hev` all hold. -/
example :
    let T : Table := fun i => { hash := i, sigOk := true, exp := if i = 5 then .txHeight 2 else .none, feeOk := true, chainOk := true }
    let g : Blk := { id := 0, parent := 99, height := 0, diff := 1, time := 0, txs := [] }
    let b1 : Blk := { id := 1, parent := 0, height := 1, diff := 1, time := 1, txs := [5] }
    let b2 : Blk := { id := 2, parent := 1, height := 2, diff := 1, time := 2, txs := [6] }
    let b3 : Blk := { id := 3, parent := 2, height := 3, diff := 1, time := 3, txs := [5, 7] }
    let c3 : Blk := { id := 4, parent := 2, height := 3, diff := 1, time := 3, txs := [6] }
    let d3 : Blk := { id := 5, parent := 2, height := 3, diff := 1, time := 4, txs := [8] }
    let U := [g, b1, b2, b3, c3, d3]
    let evs : List Ev := [.deliver b1 .peer, .deliver b2 .download, .restart, .deliver b3 .peer,
      .deliver c3 .peer, .deliver d3 .peer]
    HashLaw T ∧ HeaderLaw U ∧ g ∈ U ∧ g.height = 0 ∧ g.txs = [] ∧ (∀ x ∈ U, x.id ≠ g.parent) ∧
    (∀ b, Ev.deliver b .self ∉ evs) ∧ (∀ b src, Ev.deliver b src ∈ evs → b ∈ U) ∧
    (node T 0 12 2 1 false g evs).best.map (·.id) = [5, 2, 1, 0] ∧
    (node T 0 12 2 1 false g evs).errLog 3 = some .txDup ∧ (node T 0 12 2 1 false g evs).errLog 4 = some .txDup := by
  refine ⟨?_, by unfold HeaderLaw; decide, by decide, rfl, rfl, by decide, ?_, ?_, by decide, by decide, by decide⟩
  · intro i j h
    have : i = j := h
    rw [this]
  · intro b hb
    simp at hb
  · intro b src hb
    simp only [List.mem_cons, Ev.deliver.injEq, reduceCtorEq, List.not_mem_nil, or_false, false_or] at hb
    rcases hb with ⟨rfl, _⟩ | ⟨rfl, _⟩ | ⟨rfl, _⟩ | ⟨rfl, _⟩ | ⟨rfl, _⟩ <;> decide

/-- **txheight_window_cached** — the cache-exactness invariant behind it (the direction the
duplicate check relies on): after ANY events, restarts included (`InitCache` rebuilds the cache from
the last `hi + lo` heights of the database), every TxHeight transaction of a best-chain block less
than `hi + lo` below the tip is in the running `txHashCache`; the transaction index holds exactly
the hashes on the best chain; the stored main-chain block at every height is the connected one. -/
theorem txheight_window_cached (T : Table) (hT : HashLaw T) (U : List Blk) (hU : HeaderLaw U)
    (F m hi lo : Nat) (hw : 1 ≤ hi + lo) (r : Bool) (g : Blk) (hgU : g ∈ U) (hg0 : g.height = 0)
    (hgt : g.txs = []) (hgp : ∀ x ∈ U, x.id ≠ g.parent) (evs : List Ev)
    (_hns : ∀ b, Ev.deliver b .self ∉ evs) (hev : ∀ b src, Ev.deliver b src ∈ evs → b ∈ U) :
    let s := node T F m hi lo r g evs
    ∀ tip rest, s.best = tip :: rest →
      (∀ x ∈ s.best, ∀ t ∈ x.txs, ∀ th, txhOf (T t) = some th →
        tip.height < x.height + (hi + lo) → (th, (T t).hash) ∈ s.cache) ∧
      (∀ k, (s.txIdx k).isSome = true ↔ k ∈ chainKeys T s.best) ∧
      (∀ x ∈ s.best, blockAt s x.height = some x) := by
  intro s tip rest hbest
  have H : Hyp T U g hi lo := ⟨hT, hU, hgU, hg0, hgt, hgp, hw⟩
  have h0 : QS (fun b => b ∈ U) (WInv T U g hi lo) (init F m hi lo r g) :=
    ⟨Or.inr (good_init H F m r), seen_init F m hi lo r g hgU⟩
  have h1 := (winv_pres H).run evs _ (fun e he => by
    cases e with
    | deliver b s => exact hev b s he
    | poolAdd x => trivial
    | poolDel x => trivial
    | restart => trivial) h0
  rcases h1.1 with hnil | G
  · have : s.best = [] := hnil
    rw [this] at hbest; cases hbest
  · exact ⟨G.win tip rest hbest, G.idx, fun x hx => G.atBest hx⟩

/-- Non-vacuity of `chain_tx_unique`: duplicates in one block, in a later block, and after
a reorganisation (margin 1): block 3 (heavier branch) carries the transaction of block 1. -/
example :
    let T : Table := fun i => { hash := i, sigOk := true, exp := .none, feeOk := true, chainOk := true }
    let g : Blk := { id := 0, parent := 0, height := 0, diff := 1, time := 0, txs := [] }
    let b1 : Blk := { id := 1, parent := 0, height := 1, diff := 1, time := 1, txs := [5] }
    let b2 : Blk := { id := 2, parent := 1, height := 2, diff := 1, time := 2, txs := [5] }   -- later block: dup
    let b3 : Blk := { id := 3, parent := 0, height := 1, diff := 9, time := 1, txs := [5, 6] } -- heavier sibling
    let b4 : Blk := { id := 4, parent := 3, height := 2, diff := 1, time := 2, txs := [7, 7] } -- same block: dup
    let b5 : Blk := { id := 5, parent := 3, height := 2, diff := 1, time := 2, txs := [6] }    -- after reorg: dup
    let s := node T 0 1 600 200 true g [.deliver b1 .peer, .deliver b2 .peer, .deliver b3 .peer,
      .deliver b4 .peer, .deliver b5 .peer]
    s.best.map (·.id) = [3, 0] ∧ chainKeys T s.best = [5, 6] ∧ s.txIdx 5 = some 1 ∧
    s.errLog 2 = some .txDup ∧ s.errLog 4 = some .txDup ∧ s.errLog 5 = some .txDup := by decide

/-- **produced_block_clean** (the producer side of the property): whatever body the node's own
block production is offered (`PreExecBlock` with errReturn = false on the tip), in ANY node state,
the transactions it keeps carry pairwise different hashes, none of them is reported by the
duplicate lookup (transaction index / TxHeight window cache), and each is unexpired at the
block's height and time and passes the fee and chain-id checks. -/
theorem produced_block_clean (T : Table) (s : State) (b : Blk) :
    ((produce T s b).map (fun t => (T t).hash)).Nodup ∧
    ∀ t ∈ produce T s b, hasTx T s t = false ∧
      isExpire s.hi s.lo (T t) b.height b.time = false ∧ (T t).feeOk = true ∧ (T t).chainOk = true := by
  have h := produce_spec T s b
  exact ⟨h.1, fun t ht => ⟨(h.2 t ht).2.1, checkTx_true (h.2 t ht).2.2⟩⟩

/-- Non-vacuity: body [5, 5', 6 (expired), 7] on a chain that already holds hash 5: only 7 is kept. -/
example :
    let T : Table := fun i => { hash := if i = 50 then 5 else i, sigOk := true,
                                exp := if i = 6 then .height 2 else .none, feeOk := true, chainOk := true }
    let g : Blk := { id := 0, parent := 0, height := 0, diff := 1, time := 0, txs := [] }
    let b1 : Blk := { id := 1, parent := 0, height := 1, diff := 1, time := 1, txs := [5] }
    let b2 : Blk := { id := 2, parent := 1, height := 2, diff := 1, time := 2, txs := [5, 50, 6, 7, 7] }
    produce T (node T 0 12 600 200 false g [.deliver b1 .peer]) b2 = [7] := by decide

end C28
