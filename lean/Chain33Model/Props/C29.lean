import Chain33Model.Model.C29
import Chain33Model.Proofs.C29Recover
import Chain33Model.Proofs.C29Resume
import Chain33Model.Proofs.C29Witness
import Chain33Model.Proofs.C29Seq
import Chain33Model.Props.C25
/-!
C29 — Block connection is crash-consistent.  Property theorems.

Vocabulary (`Model/C29.lean`, `Model/C25.lean`, `Proofs/C25*.lean`):
* `init F m r g` — a node that holds only the genesis block `g`; `deliverAll s ds` — the node after
  the blocks `ds` were handed one by one to `ProcessBlock`;
* `writesOf (init F m r g) ds` — the SEQUENCE OF DURABLE WRITES of that run (store-block batch,
  state batch, connect batch, disconnect batch; each atomic), in the order the code emits them;
* `crash F m r g ds n` — the two databases after the first `n` writes (the process stopped between
  write `n` and write `n+1`; `n` larger than the number of writes: after the last one);
* `recover F m r d` — the start-up logic on a surviving disk `d` (`none` = start-up panic);
* `bestAt F m r g ds n` — the best chain the uninterrupted run had in memory right after its
  `n`-th write: a chain the run had reached, or (inside a reorganisation) the common prefix plus the
  part of the new branch attached so far;
* `Tree g T` — a finite tree of valid blocks above `g`; `TD U b` — total difficulty of `b`;
  `view c h` — the height→hash index described by a chain; `txViewOf c` — its transaction index.
-/
namespace C29
open C25

/-- **crash_prefix_consistent.**  For EVERY history `ds` of deliveries drawn from a block tree (any
order, duplicates, orphans, reorganisations) and EVERY crash point `n`: start-up on the surviving
databases succeeds, and the recovered node
* has as best chain exactly the chain the run had reached right after its `n`-th write (`bestAt`),
  with index = best chain and an empty orphan pool;
* is mutually consistent: the chain is parent-linked down to genesis, the height→hash index is the
  view of the chain, the stored height is the tip's height, every chain block is a tree block whose
  header/body record is present and whose stored total difficulty is the tree's, the transaction
  index is exactly the chain's;
* the state tree of every chain block — in particular the tip's — is completely present in the
  store (the state batch precedes the chain batch; the store is only ever extended);
* with sequence recording on, the surviving sequence log is numbered consecutively from 0 and its
  replay (add records push, delete records pop — C26) yields exactly the recovered chain.

(`fin`, the finalised height, is not part of the conclusion: the finaliser's own point writes are
not in the write model and `recover` restarts from the initial value `F`.) -/
theorem crash_prefix_consistent {g : Block} {T : List Block} (ht : Tree g T) (F m : Nat) (r : Bool)
    (ds : List Block) (hds : ∀ b ∈ ds, b ∈ T) (n : Nat) :
    ∃ sr, recover F m r (crash F m r g ds n) = some sr ∧
      sr.best = bestAt F m r g ds n ∧ sr.index = sr.best ∧ sr.orphans = [] ∧
      Linked sr.best ∧ (∀ h, sr.h2h h = view sr.best h) ∧
      (∀ t rest, sr.best = t :: rest → sr.last = t.height) ∧
      (∀ x ∈ sr.best, x ∈ g :: T ∧ sr.stored x.id = some x ∧ sr.tds x.id = some (TD (g :: T) x)) ∧
      sr.txIdx = txViewOf sr.best ∧
      (∀ x ∈ sr.best, (crash F m r g ds n).roots x.id = true) ∧
      (r = true → C26.replay (seqLog sr) = some (sr.best.map (·.id)) ∧ 0 ≤ sr.lastSeq ∧
        ∀ i : Nat, (sr.seqTab i).isSome ↔ (i : Int) ≤ sr.lastSeq) := by
  obtain ⟨hsim, hcons⟩ := crash_image ht F m r ds hds n
  obtain ⟨sr, hrec, e1, e2, e3, e4, e5, e6, e7, e8, e9, _, e11, _⟩ := recover_of_sim F m r hsim hcons
  refine ⟨sr, hrec, by rw [e1, bestAt_eq], by rw [e2, e1], e3, by rw [e1]; exact hcons.linked,
    fun h => by rw [e6, e1]; exact hcons.h2h h, fun t rest hb => by rw [e7]; exact hcons.last t rest (e1 ▸ hb),
    fun x hx => ?_, by rw [e8, e1]; exact hcons.txv, fun x hx => hsim.roots x (e1 ▸ hx), ?_⟩
  · rw [e4, e5]
    exact hcons.blocks x (e1 ▸ hx)
  · intro hr
    subst hr
    have hq := seq_stateAt F m g ds n
    dsimp only at hq
    have hlog : seqLog sr = seqLog (stateAt (init F m true g) (deliverAllT (init F m true g) ds) n) := by
      simp only [seqLog, e9, e11]
    rw [hlog, e1, e9, e11]
    exact hq

/-- **writes_replay_run.**  The write sequence is faithful to the chain model of C25: replaying ALL
writes of a run on the initial disk gives exactly the persisted tables of the run's final state
(`deliverAll`), with the state of every best-chain block in the store.  (So the crash states of
`crash_prefix_consistent` interpolate between the states C25's theorems talk about.) -/
theorem writes_replay_run (F m : Nat) (r : Bool) (g : Block) (ds : List Block) :
    let d := applyAll (disk (init F m r g) (roots0 g)) (writesOf (init F m r g) ds)
    let s := deliverAll (init F m r g) ds
    d.stored = s.stored ∧ d.tds = s.tds ∧ d.h2h = s.h2h ∧ d.last = s.last ∧ d.seqTab = s.seqTab ∧
    d.hashSeq = s.hashSeq ∧ d.lastSeq = s.lastSeq ∧ d.txIdx = s.txIdx ∧ (∀ x ∈ s.best, d.roots x.id = true) := by
  intro d s
  have h := replay_final F m r g ds
  exact ⟨h.stored, h.tds, h.h2h, h.last, h.seqTab, h.hashSeq, h.lastSeq, h.txIdx, h.roots⟩

/-- Non-vacuity of `crash_prefix_consistent`: trunk 1, branch 2–3, heavier block 4 on the trunk
(margin 2); the run's writes are `B1 S1 C1 B2 S2 C2 B3 S3 C3 B4 D3 D2 S4 C4`.  Crashing after write
11 (`D3`, inside the reorganisation) recovers the chain 0–1–2; after write 12 (`D2`) the chain 0–1;
after 13 (`S4`: state written, chain batch not) still 0–1; after 14 the new chain 0–1–4. -/
example :
    let g : Block := ⟨0, 0, 0, 5, []⟩
    let T : List Block := [⟨1, 0, 1, 1, [7]⟩, ⟨2, 1, 2, 1, [8]⟩, ⟨3, 2, 3, 1, [9]⟩, ⟨4, 1, 2, 9, [8, 9]⟩]
    Tree g T ∧ (writesOf (init 0 2 true g) T).length = 14 ∧
    ((recover 0 2 true (crash 0 2 true g T 11)).map (fun s => s.best.map (·.id))) = some [2, 1, 0] ∧
    ((recover 0 2 true (crash 0 2 true g T 12)).map (fun s => s.best.map (·.id))) = some [1, 0] ∧
    ((recover 0 2 true (crash 0 2 true g T 13)).map (fun s => s.best.map (·.id))) = some [1, 0] ∧
    ((recover 0 2 true (crash 0 2 true g T 14)).map (fun s => s.best.map (·.id))) = some [4, 1, 0] := by
  refine ⟨⟨rfl, by unfold UniqIds; decide, by decide, by decide⟩, by decide, by decide, by decide, by decide, by decide⟩

/-- The last clause of the property at the strength of its text — "continued processing reaches the
same final chain as an uninterrupted run" — in its friendliest reading: after ANY crash point the
node is restarted and receives THE SAME history once more.  No hypothesis on total difficulties.
It is FALSE of the model and of the code (`resume_full_false`). -/
def ResumeFullStatement : Prop :=
  ∀ (g : Block) (T : List Block) (m : Nat) (r : Bool) (ds : List Block) (n : Nat),
    Tree g T → (∀ b ∈ ds, b ∈ T) → (∀ b ∈ T, b ∈ ds) →
    ∃ sr, recover 0 m r (crash 0 m r g ds n) = some sr ∧
      (deliverAll sr ds).best = (deliverAll (init 0 m r g) ds).best

/-- **Refutation of the full statement (total-difficulty tie).**  Witness `tieT` / `tieDs`
(`Proofs/C29Witness.lean`): blocks 4 and 5 tie at the top; the uninterrupted run ends on 0–1–4
(4 is seen first); after a crash right after the connect batch of block 1 (write 8, inside the
reorganisation) the recovered node holds 0–1 only — orphan pool and side-chain index are memory
only — and the same history then connects 3 and 5 first, 4 only ties: final chain 0–1–3–5.
Replayed on the real code by `corpus/C29/tie-resume.ops` (finding
`C29|resume|different-final-chain-of-equal-total-difficulty`). -/
theorem resume_full_false : ¬ ResumeFullStatement := by
  intro h
  obtain ⟨sr, h1, h2⟩ := h tieG tieT 1 false tieDs 8
    ⟨rfl, by unfold UniqIds; decide, by decide, by decide⟩ (by decide) (by decide)
  have e1 : (recover 0 1 false (crash 0 1 false tieG tieDs 8)).map
      (fun s => (deliverAll s tieDs).best.map (·.id)) = some [5, 3, 1, 0] := by decide
  have e2 : (deliverAll (init 0 1 false tieG) tieDs).best.map (·.id) = [4, 1, 0] := by decide
  rw [h1] at e1
  simp only [Option.map] at e1
  rw [h2, e2] at e1
  exact absurd e1 (by decide)

/-- "Continued processing" read as "only the deliveries that had not happened yet": also false,
even with a unique heaviest block, because blocks accepted on a side chain (or waiting in the orphan
pool) before the crash are forgotten by the restart.  Witness `sfxT`: 1 connected, 2 on a side
chain (tie), crash; block 3 (child of 2, heavier) alone then waits as an orphan for ever, while the
uninterrupted run reorganises to 0–2–3.  Hence the hypothesis of `resume_converges_partial` that
the continuation delivers every block again (what block synchronisation does for unknown parents). -/
theorem resume_suffix_only_false :
    (deliverAll (init 0 1 false sfxG) sfxT).best.map (·.id) = [3, 2, 0] ∧
    (writesOf (init 0 1 false sfxG) (sfxT.take 2)).length = 4 ∧
    (recover 0 1 false (crash 0 1 false sfxG sfxT 4)).map
      (fun s => ((deliverAll s (sfxT.drop 2)).best.map (·.id), (deliverAll s (sfxT.drop 2)).orphans.map (·.id)))
      = some ([1, 0], [3]) := by
  refine ⟨by decide, by decide, by decide⟩

/-- **resume_converges_partial.**  (`ResumeFullStatement` with added hypotheses — each one is
necessary: `hmax`/`hel`: the heaviest block is unique and at least the margin high, as in C25's
`order_independent` (refuted without: `resume_full_false`); `hall'`: the continuation (re-)delivers
every tree block (refuted without: `resume_suffix_only_false`); finalised height 0: no finaliser
is configured in the node under test, the finaliser's own point writes
(`finalizer.setFinalizedBlock` / `reset`) are not in the write model and `recover` restarts from the
initial finalised height.)

For EVERY history `ds` over a block tree that delivers each block at
least once, EVERY crash point `n`, and EVERY continuation `ds'` that (re-)delivers each tree block at
least once (for instance the same history again; any order, duplicates): if the heaviest block `w`
is unique and at least the margin high (no finaliser: finalised height 0, as in the node under
test), then start-up on the surviving databases succeeds and continuing delivery from the recovered
node ends in the SAME chain as the uninterrupted run — best chain (the branch of `w`), height index,
last height and transaction index — with nothing left in the orphan pool.

Proof: the recovered node is in lock step (`Rel`, `Proofs/C29Resume.lean`) with a fresh node fed the
recovered chain in order; the latter's continuation is a delivery sequence from genesis, to which
C25's `order_independent` applies, as it does to the uninterrupted run. -/
theorem resume_converges_partial {g : Block} {T : List Block} (ht : Tree g T) (m : Nat) (r : Bool)
    (ds : List Block) (hds : ∀ b ∈ ds, b ∈ T) (hall : ∀ b ∈ T, b ∈ ds)
    (w : Block) (hw : w ∈ g :: T) (hmax : ∀ b ∈ g :: T, b ≠ w → TD (g :: T) b < TD (g :: T) w)
    (hel : m ≤ w.height) (n : Nat)
    (ds' : List Block) (hds' : ∀ b ∈ ds', b ∈ T) (hall' : ∀ b ∈ T, b ∈ ds') :
    ∃ sr, recover 0 m r (crash 0 m r g ds n) = some sr ∧
      (deliverAll sr ds').best = chainTo (g :: T) w.height w ∧
      (deliverAll sr ds').best = (deliverAll (init 0 m r g) ds).best ∧
      (deliverAll sr ds').h2h = (deliverAll (init 0 m r g) ds).h2h ∧
      (deliverAll sr ds').last = (deliverAll (init 0 m r g) ds).last ∧
      (deliverAll sr ds').txIdx = (deliverAll (init 0 m r g) ds).txIdx ∧
      (deliverAll sr ds').orphans = [] := by
  obtain ⟨sr, path, hrec, hsub, hrel, hbase⟩ := resume_rel ht m r ds hds n
  refine ⟨sr, hrec, ?_⟩
  have hrel' := rel_deliverAll ht ds' sr _ hrel hbase (fun b hb => List.mem_cons_of_mem _ (hds' b hb))
  have happ : deliverAll (deliverAll (init 0 m r g) path) ds' = deliverAll (init 0 m r g) (path ++ ds') := by
    simp [deliverAll, List.foldl_append]
  rw [happ] at hrel'
  have h1 := order_independent ht 0 m r (path ++ ds')
    (fun b hb => by
      rcases List.mem_append.mp hb with h | h
      · exact hsub b h
      · exact hds' b h)
    (fun b hb => List.mem_append_right _ (hall' b hb)) w hw hmax (by omega)
  have h2 := order_independent ht 0 m r ds hds hall w hw hmax (by omega)
  dsimp only at h1 h2
  obtain ⟨a1, _, a3, a4, a5, _, a7⟩ := h1
  obtain ⟨b1, _, b3, b4, b5, _, _⟩ := h2
  exact ⟨by rw [hrel'.best, a1], by rw [hrel'.best, a1, b1], by rw [hrel'.h2h, a3, b3],
    by rw [hrel'.last, a4, b4], by rw [hrel'.txIdx, a5, b5], by rw [hrel'.orphans, a7]⟩

/-- Non-vacuity of `resume_converges_partial`: the tree and history of the example above (unique heaviest
block 4 at height 2 = margin).  Crashing inside the reorganisation (after write 11: `D3`; after 13:
state of block 4 written, its chain batch not) and re-delivering the history ends in 0–1–4. -/
example :
    let g : Block := ⟨0, 0, 0, 5, []⟩
    let T : List Block := [⟨1, 0, 1, 1, [7]⟩, ⟨2, 1, 2, 1, [8]⟩, ⟨3, 2, 3, 1, [9]⟩, ⟨4, 1, 2, 9, [8, 9]⟩]
    (∀ b ∈ g :: T, b ≠ (⟨4, 1, 2, 9, [8, 9]⟩ : Block) → TD (g :: T) b < TD (g :: T) ⟨4, 1, 2, 9, [8, 9]⟩) ∧
    ((recover 0 2 true (crash 0 2 true g T 11)).map (fun s => (deliverAll s T).best.map (·.id))) = some [4, 1, 0] ∧
    ((recover 0 2 true (crash 0 2 true g T 13)).map (fun s => (deliverAll s T).best.map (·.id))) = some [4, 1, 0] := by
  refine ⟨by decide, by decide, by decide⟩

end C29
