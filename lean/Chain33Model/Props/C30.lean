import Chain33Model.Model.C30
namespace C30
theorem placeholder : True := trivial
end C30
