import Chain33Model.Proofs.C30
/-!
C30 — Produced blocks respect size, count and group limits.  Property theorems only
(helpers are in `Proofs/C30.lean`).  All statements are about the model `C30.addTxsToBlock` /
`C30.checkTxExpire` (Model/C30.lean), for every configuration, height, prefilled block and pool.
-/
namespace C30

/-- **limit(height)**: the per-height limit is the value of the latest fork (among the fork sections
that set `maxTxNumber`, with distinct fork heights) at or below the height, and the base value
before the first of them. -/
theorem limit_is_latest_fork (base : Int) (forks : List (Int × Int)) (height : Int)
    (hn : (forks.map (·.1)).Nodup) :
    ((∀ g ∈ forks, ¬ g.1 ≤ height) → limitAt base forks height = base) ∧
    (∀ f ∈ forks, f.1 ≤ height → (∀ g ∈ forks, g.1 ≤ height → g.1 ≤ f.1) →
      limitAt base forks height = f.2) := by
  obtain ⟨s1, s2, _, s4⟩ := pickFork_spec height forks none (by intro b e; cases e)
  constructor
  · intro hnone
    unfold limitAt
    cases hp : pickFork height none forks with
    | none => rfl
    | some b =>
      obtain ⟨h1, h2⟩ := s1 b hp
      rcases h2 with h2 | h2
      · cases h2
      · exact absurd h1 (hnone b h2)
  · intro f hf hfh hmax
    unfold limitAt
    obtain ⟨b, hb, hle⟩ := s2 f hf hfh
    rw [hb]
    obtain ⟨h1, h2⟩ := s1 b hb
    rcases h2 with h2 | h2
    · cases h2
    · have := hmax b h2 h1
      have e : b.1 = f.1 := by omega
      rw [fst_unique hn h2 hf e]

example : limitAt 12 [(50, 7), (80, 20)] 49 = 12 ∧ limitAt 12 [(50, 7), (80, 20)] 50 = 7 ∧
    limitAt 12 [(50, 7), (80, 20)] 79 = 7 ∧ limitAt 12 [(50, 7), (80, 20)] 80 = 20 := by decide

/-- **count**: the block never holds more transactions than the limit of its height (when the
prefilled block respected it), and nothing is added to a block that is already over the limit. -/
theorem count_le_max (base : Int) (forks : List (Int × Int)) (blFork height : Int)
    (count0 size0 : Nat) (pool : List Entry) :
    let added := addTxsToBlock base forks blFork height count0 size0 pool
    ((count0 : Int) ≤ limitAt base forks height →
        ((count0 + added.length : Nat) : Int) ≤ limitAt base forks height)
    ∧ (limitAt base forks height < count0 → added = []) := by
  intro added
  constructor
  · intro h
    have := addTxs_count_le (isFork blFork height) (limitAt base forks height) sizeBound count0 size0 pool h
    simp only [added, addTxsToBlock]; omega
  · intro h
    exact addTxs_nil_of_count_gt _ _ _ _ _ _ h

example : (addTxsToBlock 2 [] 100 5 0 0
    [.single ⟨1, 10, false⟩, .group [⟨2, 10, false⟩, ⟨3, 10, false⟩], .single ⟨4, 10, false⟩]).map (·.id) = [1] := by
  decide

/-- **size**: the accumulated `Size()`s (prefilled block included) stay within
`MaxBlockSize - 100000`; nothing is added to a block already over it. -/
theorem size_le_bound (base : Int) (forks : List (Int × Int)) (blFork height : Int)
    (count0 size0 : Nat) (pool : List Entry) :
    let added := addTxsToBlock base forks blFork height count0 size0 pool
    (size0 ≤ sizeBound → size0 + sizeSum added ≤ sizeBound)
    ∧ (sizeBound < size0 → added = []) := by
  intro added
  exact ⟨fun h => addTxs_size_le _ _ _ _ _ _ h, fun h => addTxs_nil_of_size_gt _ _ _ _ _ _ h⟩

/-- **encoded size**: with a per-height limit of at most 20000 transactions (the stock
configurations use ≤ 10000) the *encoded* block — every taken transaction framed by its field tag
and length varint — stays within `MaxBlockSize`: the 100000 bytes of head-room cover the framing. -/
theorem encoded_le_maxBlockSize (base : Int) (forks : List (Int × Int)) (blFork height : Int)
    (count0 size0 : Nat) (pool : List Entry)
    (hlim : limitAt base forks height ≤ 20000)
    (hc : (count0 : Int) ≤ limitAt base forks height) (hs : size0 ≤ sizeBound) :
    size0 + encodedGrowth (addTxsToBlock base forks blFork height count0 size0 pool) ≤ maxBlockSize := by
  have h1 := (count_le_max base forks blFork height count0 size0 pool).1 hc
  have h2 := (size_le_bound base forks blFork height count0 size0 pool).1 hs
  generalize addTxsToBlock base forks blFork height count0 size0 pool = added at *
  have h3 : ∀ t ∈ added, t.size < 2 ^ 28 := by
    intro t ht
    have := mem_size_le_sizeSum ht
    have : sizeBound < 2 ^ 28 := by decide
    omega
  have h4 := encodedGrowth_le added h3
  have : sizeBound + 100000 = maxBlockSize := by decide
  omega

example : limitAt 10000 [(0, 10000)] 7 ≤ 20000 := by decide

/-- The configuration hypothesis `limit ≤ 20000` of `encoded_le_maxBlockSize` **is needed**: with
`maxTxNumber = 100000` (= `types.MaxTxsPerBlock`) a pool of 100000 transactions of `Size()` 199 passes
both tests of `AddTxsToBlock` (count = limit, accumulated size = 19 900 000 = the bound) and the
encoded block has 100000·(1+2+199) = 20 200 000 bytes > `MaxBlockSize` — a block every peer's
`CheckBlock` refuses with `ErrBlockSize`.  Replayed on the implementation by `h_c30`
(`limit_over_20000_demo`); declared as a configuration assumption (stock configurations: ≤ 10000). -/
theorem encoded_bound_needs_limit :
    ¬ (∀ (base : Int) (forks : List (Int × Int)) (blFork height : Int) (count0 size0 : Nat)
        (pool : List Entry), (count0 : Int) ≤ limitAt base forks height → size0 ≤ sizeBound →
        size0 + encodedGrowth (addTxsToBlock base forks blFork height count0 size0 pool) ≤ maxBlockSize) := by
  intro h
  have := h 100000 [] 0 0 0 0 (List.replicate 100000 (.single ⟨0, 199, false⟩)) (by decide) (by decide)
  have e : addTxsToBlock 100000 [] 0 0 0 0 (List.replicate 100000 (.single ⟨0, 199, false⟩))
      = List.replicate 100000 ⟨0, 199, false⟩ := by
    unfold addTxsToBlock
    have h1 : isFork 0 0 = true := by decide
    have h2 : limitAt 100000 [] 0 = 100000 := by decide
    rw [h1, h2]
    exact addTxs_replicate 100000 sizeBound ⟨0, 199, false⟩ rfl 100000 (0 : Nat) 0 (by decide) (by decide)
  rw [e, encodedGrowth_replicate] at this
  have hf : framed 199 = 202 := by
    unfold framed varintLen varintLen; decide
  simp only [hf] at this
  revert this
  decide

/-- **groups are atomic, order is kept**: the added transactions are exactly the expansion of a
sub-list of the pool *entries* (a group entry is taken whole or not at all), hence also a sub-list
of the flattened pool in the given order. -/
theorem groups_atomic (base : Int) (forks : List (Int × Int)) (blFork height : Int)
    (count0 size0 : Nat) (pool : List Entry) :
    ∃ sel : List Entry, sel.Sublist pool ∧
      addTxsToBlock base forks blFork height count0 size0 pool = sel.flatMap Entry.expand :=
  ⟨_, taken_sublist _ _ _ _ _ _, addTxs_eq_taken _ _ _ _ _ _⟩

theorem order_sublist (base : Int) (forks : List (Int × Int)) (blFork height : Int)
    (count0 size0 : Nat) (pool : List Entry) :
    (addTxsToBlock base forks blFork height count0 size0 pool).Sublist (pool.flatMap Entry.expand) := by
  obtain ⟨sel, h1, h2⟩ := groups_atomic base forks blFork height count0 size0 pool
  rw [h2]; exact sublist_flatMap _ h1

/-- **blacklist**: once the fork is active (`height = -1 ∨ height ≥ blFork`) no taken transaction
touches a blacklisted account — and no taken *group* contains one that does. -/
theorem blacklisted_skipped (base : Int) (forks : List (Int × Int)) (blFork height : Int)
    (count0 size0 : Nat) (pool : List Entry) (hact : height = -1 ∨ height ≥ blFork) :
    ∃ sel : List Entry, sel.Sublist pool ∧
      addTxsToBlock base forks blFork height count0 size0 pool = sel.flatMap Entry.expand ∧
      ∀ e ∈ sel, ∀ t ∈ e.expand, t.blocked = false := by
  have ha : isFork blFork height = true := by simp [isFork, hact]
  refine ⟨_, taken_sublist _ _ _ _ _ _, addTxs_eq_taken _ _ _ _ _ _, ?_⟩
  rw [ha]; exact taken_not_blocked _ _ _ _ _

example : (100 : Int) = -1 ∨ (100 : Int) ≥ 100 := by decide
example : (addTxsToBlock 9 [] 100 100 0 0
    [.single ⟨1, 10, true⟩, .group [⟨2, 10, false⟩, ⟨3, 10, true⟩], .single ⟨4, 10, false⟩]).map (·.id) = [4] := by
  decide
/-- before the fork the same pool is taken entirely -/
example : (addTxsToBlock 9 [] 100 99 0 0
    [.single ⟨1, 10, true⟩, .group [⟨2, 10, false⟩, ⟨3, 10, true⟩], .single ⟨4, 10, false⟩]).map (·.id) = [1, 2, 3, 4] := by
  decide

/-! ### CheckTxExpire -/

/-- **expiry removes whole groups** — as the code decides expiry (`exp` is any per-transaction
verdict, in particular the code's `ETx.expired`): on a well-formed expanded list (singles and whole
groups) `CheckTxExpire` never panics and returns exactly the segments none of whose members is
expired, in order. -/
theorem expire_removes_whole_groups (exp : ETx → Bool) (segs : List (List ETx))
    (h : ∀ s ∈ segs, WellFormedSeg s) :
    checkTxExpire exp segs.flatten = some ((segs.filter (fun s => !s.any exp)).flatten) :=
  checkTxExpire_segs exp segs h

/-- `WellFormedSeg` **is needed**: a truncated trailing group (`i + GroupCount > len(txs)`) is
`continue`d over — kept unchecked although every member is expired.  No caller in /repo passes such
a list (`CheckTxExpire` is only meant for the miner's own block, whose transactions come from
`AddTxsToBlock`, i.e. whole groups by `groups_atomic`); replayed on the implementation by `h_c30`
(`truncated_trailing_group`, differential only).  Declared, not a finding. -/
theorem expire_truncated_group_kept :
    checkTxExpire (ETx.expired false 10 1600000000) [⟨1, 0, 5, none⟩, ⟨2, 3, 5, none⟩, ⟨3, 3, 5, none⟩]
      = some [⟨2, 3, 5, none⟩, ⟨3, 3, 5, none⟩] := by
  simp [checkTxExpire, markExpired, ETx.expired, ETx.isExpire, isExpireField, expireBound]

/-- field-level expiry, behind the same `height > 0 && blocktime > 0` gate -/
def trulyExpired (txHeightOn : Bool) (height blocktime : Int) (t : ETx) : Bool :=
  decide (height > 0) && decide (blocktime > 0) && isExpireField txHeightOn height blocktime t.expire

/-- The property as stated: with the code's own verdict, the surviving segments are exactly those
without a member whose `Expire` field says expired. -/
def ExpireFullStatement : Prop :=
  ∀ (txHeightOn : Bool) (height blocktime : Int) (segs : List (List ETx)),
    (∀ s ∈ segs, WellFormedSeg s) →
    checkTxExpire (ETx.expired txHeightOn height blocktime) segs.flatten
      = some ((segs.filter (fun s => !s.any (trulyExpired txHeightOn height blocktime))).flatten)

/-- witness: a group of two with `Expire = 5` at height 10 whose `Header` decodes as a
`Transactions` message of exactly two members, both carrying `GroupCount = 2` and `Expire = 0` —
what `isPackedGroupOf` accepts.  Such a 32-byte string exists on the real decoder (for instance
`0a0e 4002 120a<10 bytes>` twice; `h_c30` decodes it and runs `CheckTxExpire` on members carrying it
as a *forged* Header, differential only).  As a SHA-256 group hash it needs two `0a` tags, two
matching `40 02` count fields and consistent lengths, i.e. of the order of 2^48 hash trials: not
exhibited, and not excluded. -/
def expireWitness : List (List ETx) :=
  [[⟨1, 2, 5, some [(2, 0), (2, 0)]⟩, ⟨2, 2, 5, some [(2, 0), (2, 0)]⟩]]

theorem expireWitness_wf : ∀ s ∈ expireWitness, WellFormedSeg s := by
  intro s hs
  simp [expireWitness] at hs; subst hs
  right; simp

/-- The full statement is **false of the model** (and of the code on a forged Header; no group whose
real hash decodes this way has been exhibited after the repair 879d416, so no finding is recorded). -/
theorem expire_removes_whole_groups_full_false : ¬ ExpireFullStatement := by
  intro h
  have := h false 10 1600000000 expireWitness expireWitness_wf
  rw [expire_removes_whole_groups _ _ expireWitness_wf] at this
  revert this
  decide

/-- regression statement for the repairs c2f0f61 / 879d416: a group whose hash decodes as an *empty*
message (about 1 in 500 hashes) or as a message with one garbage transaction (about 1 in 6.5
million; found by grinding, head hash `0a1e7936…`) was kept by the old `IsExpire` and is removed as
a whole by the repaired one. -/
theorem expire_decodable_header_regression (hd : List (Int × Int)) (h : hd = [] ∨ hd = [(0, 0)]) :
    let w : List (List ETx) := [[⟨1, 2, 5, some hd⟩, ⟨2, 2, 5, some hd⟩]]
    checkTxExpire (fun t => decide ((10 : Int) > 0) && decide ((1600000000 : Int) > 0) &&
        t.isExpireOld false 10 1600000000) w.flatten = some w.flatten ∧
    checkTxExpire (ETx.expired false 10 1600000000) w.flatten = some [] := by
  intro w
  have wf : ∀ s ∈ w, WellFormedSeg s := by
    intro s hs
    simp [w] at hs; subst hs
    right; simp
  rw [expire_removes_whole_groups _ _ wf, expire_removes_whole_groups _ _ wf]
  rcases h with rfl | rfl <;> decide

/-- What does hold: when no member's `Header` decodes as that member's own packed group — a group of
exactly `GroupCount` members all carrying `GroupCount` — the full statement holds. -/
theorem expire_removes_whole_groups_partial (txHeightOn : Bool) (height blocktime : Int)
    (segs : List (List ETx)) (h : ∀ s ∈ segs, WellFormedSeg s)
    (hdr : ∀ s ∈ segs, ∀ t ∈ s, ∀ ms, t.hdr = some ms → isPackedGroupOf ms t.gc = false) :
    checkTxExpire (ETx.expired txHeightOn height blocktime) segs.flatten
      = some ((segs.filter (fun s => !s.any (trulyExpired txHeightOn height blocktime))).flatten) := by
  rw [checkTxExpire_segs _ _ h]
  congr 2
  apply List.filter_congr
  intro s hs
  congr 1
  apply any_congr_mem
  intro t ht
  cases h0 : t.hdr with
  | none => simp [ETx.expired, ETx.isExpire, trulyExpired, h0]
  | some ms => simp [ETx.expired, ETx.isExpire, trulyExpired, h0, hdr s hs t ht ms h0]

/-- non-vacuity of the hypothesis: members whose Header does not decode, decodes as an empty message,
or decodes as one garbage transaction -/
example : ∀ s ∈ ([[⟨1, 2, 5, some []⟩, ⟨2, 2, 5, some [(0, 0)]⟩], [⟨3, 0, 0, none⟩]] : List (List ETx)),
    ∀ t ∈ s, ∀ ms, t.hdr = some ms → isPackedGroupOf ms t.gc = false := by
  intro s hs t ht ms hms
  simp at hs
  rcases hs with rfl | rfl <;> simp at ht
  · rcases ht with rfl | rfl <;> (simp at hms; subst hms; decide)
  · subst ht; simp at hms

example : ∀ s ∈ ([[⟨1, 0, 5, none⟩], [⟨2, 2, 0, none⟩, ⟨3, 2, 5, none⟩], [⟨4, 0, 0, none⟩]] : List (List ETx)),
    WellFormedSeg s := by
  intro s hs
  simp at hs
  rcases hs with rfl | rfl | rfl
  · left; exact ⟨_, rfl, rfl⟩
  · right; simp
  · left; exact ⟨_, rfl, rfl⟩

example : (checkTxExpire (ETx.expired false 10 1600000000)
    ([[⟨1, 0, 5, none⟩], [⟨2, 2, 0, none⟩, ⟨3, 2, 5, none⟩], [⟨4, 0, 0, none⟩]] : List (List ETx)).flatten)
      = some [⟨4, 0, 0, none⟩] := by
  rw [expire_removes_whole_groups]
  · decide
  · intro s hs
    simp at hs
    rcases hs with rfl | rfl | rfl
    · left; exact ⟨_, rfl, rfl⟩
    · right; simp
    · left; exact ⟨_, rfl, rfl⟩

end C30
