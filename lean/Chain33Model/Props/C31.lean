import Chain33Model.Model.C31
/-!
C31 — blacklisted accounts cannot transact.  Property theorems only.

The specification side is written from the property text: a transaction *touches* the blacklist when its
sender, recipient, real recipient or EVM target (contract address text or 20-byte transfer target) denotes a
blacklisted 20-byte account, whatever the spelling.
-/
namespace C31

/-- the text `s` is a spelling of the account `r`. -/
abbrev Denotes (s : List Char) (r : Raw) : Prop := parse s = some r

/-- one of the four positions of `t` denotes a blacklisted account. -/
def Touches (set : List Raw) (t : TxV) : Prop :=
  ∃ r ∈ set, Denotes t.sender r ∨ Denotes t.to r ∨ Denotes t.realTo r ∨
    ∃ e, t.evm = some e ∧ (Denotes e.contract r ∨ e.para = r)

/-- every entry of a configured blacklist is a 20-byte account (`parseBlockedAccounts` panics otherwise). -/
abbrev WF (set : List Raw) : Prop := ∀ r ∈ set, r.length = 20

theorem mkSet_wf (l : List (List Char)) (set : List Raw) (h : mkSet l = some set) : WF set := by
  induction l generalizing set with
  | nil => simp [mkSet] at h; subst h; intro r hr; simp at hr
  | cons s rest ih =>
    simp only [mkSet] at h
    split at h
    · rename_i r rs hp hm
      split at h
      · rename_i hl
        simp at h; subst h
        intro x hx
        rcases List.mem_cons.mp hx with e | e
        · subst e; simpa using hl
        · exact ih rs hm x e
      · simp at h
    · simp at h

theorem isBlockedRaw_iff (set : List Raw) (wf : WF set) (p : Raw) : isBlockedRaw set p = true ↔ p ∈ set := by
  unfold isBlockedRaw
  constructor
  · intro h
    simp only [Bool.and_eq_true, List.contains_iff_mem] at h
    exact h.2
  · intro h
    have hl := wf p h
    have hne : set.isEmpty = false := by cases set <;> simp_all
    simp [hl, hne, h]

theorem isBlocked_iff (set : List Raw) (wf : WF set) (s : List Char) :
    isBlocked set s = true ↔ ∃ r ∈ set, Denotes s r := by
  unfold isBlocked
  constructor
  · intro h
    simp only [Bool.and_eq_true] at h
    cases hp : parse s with
    | none => simp [hp] at h
    | some r =>
      simp only [hp] at h
      exact ⟨r, (isBlockedRaw_iff set wf r).mp h.2, hp⟩
  · rintro ⟨r, hr, hd⟩
    have hne : set.isEmpty = false := by cases set <;> simp_all
    unfold Denotes at hd
    simp [hne, hd, (isBlockedRaw_iff set wf r).mpr hr]

/-- **the four-position check is exactly the specification**: `checkTxBlockedAccountCore` reports a hit iff one of
the positions denotes a blacklisted account — for every blacklist, every transaction, every spelling. (The
`realTo != to` short-cut and the `ContractAddr != ""` guard lose nothing.) -/
theorem core_iff_touches (set : List Raw) (wf : WF set) (t : TxV) : (core set t).isSome = true ↔ Touches set t := by
  have parse_nil : parse [] = none := by decide
  unfold core Touches
  by_cases he : set.isEmpty = true
  · have : set = [] := by cases set <;> simp_all
    subst this; simp
  · simp only [he, Bool.false_eq_true, if_false]
    by_cases h1 : isBlocked set t.sender = true
    · simp only [h1, if_true, Option.isSome_some, true_iff]
      obtain ⟨r, hr, hd⟩ := (isBlocked_iff set wf _).mp h1
      exact ⟨r, hr, Or.inl hd⟩
    · simp only [h1, Bool.false_eq_true, if_false]
      by_cases h2 : isBlocked set t.to = true
      · simp only [h2, if_true, Option.isSome_some, true_iff]
        obtain ⟨r, hr, hd⟩ := (isBlocked_iff set wf _).mp h2
        exact ⟨r, hr, Or.inr (Or.inl hd)⟩
      · simp only [h2, Bool.false_eq_true, if_false]
        by_cases h3 : isBlocked set t.realTo = true
        · have hne : (t.realTo != t.to) = true := by
            simp only [bne_iff_ne, ne_eq]
            intro e; rw [e] at h3; exact h2 h3
          simp only [hne, h3, Bool.and_self, if_true, Option.isSome_some, true_iff]
          obtain ⟨r, hr, hd⟩ := (isBlocked_iff set wf _).mp h3
          exact ⟨r, hr, Or.inr (Or.inr (Or.inl hd))⟩
        · have h3' : (t.realTo != t.to && isBlocked set t.realTo) = false := by simp [h3]
          simp only [h3', Bool.false_eq_true, if_false]
          have n1 : ∀ r ∈ set, ¬ Denotes t.sender r := fun r hr hd => h1 ((isBlocked_iff set wf _).mpr ⟨r, hr, hd⟩)
          have n2 : ∀ r ∈ set, ¬ Denotes t.to r := fun r hr hd => h2 ((isBlocked_iff set wf _).mpr ⟨r, hr, hd⟩)
          have n3 : ∀ r ∈ set, ¬ Denotes t.realTo r := fun r hr hd => h3 ((isBlocked_iff set wf _).mpr ⟨r, hr, hd⟩)
          cases hev : t.evm with
          | none =>
            simp only [Option.isSome_none, Bool.false_eq_true, false_iff]
            rintro ⟨r, hr, hd | hd | hd | ⟨e, he', _⟩⟩
            · exact n1 r hr hd
            · exact n2 r hr hd
            · exact n3 r hr hd
            · simp at he'
          | some e =>
            simp only
            by_cases h4 : isBlocked set e.contract = true
            · have hce : e.contract.isEmpty = false := by
                cases hc : e.contract with
                | nil =>
                  rw [hc] at h4
                  obtain ⟨r, _, hd⟩ := (isBlocked_iff set wf _).mp h4
                  unfold Denotes at hd; rw [parse_nil] at hd; simp at hd
                | cons a b => rfl
              simp only [hce, Bool.not_false, h4, Bool.and_self, if_true, Option.isSome_some, true_iff]
              obtain ⟨r, hr, hd⟩ := (isBlocked_iff set wf _).mp h4
              exact ⟨r, hr, Or.inr (Or.inr (Or.inr ⟨e, rfl, Or.inl hd⟩))⟩
            · have h4' : (!e.contract.isEmpty && isBlocked set e.contract) = false := by simp [h4]
              simp only [h4', Bool.false_eq_true, if_false]
              by_cases h5 : isBlockedRaw set e.para = true
              · simp only [h5, if_true, Option.isSome_some, true_iff]
                exact ⟨e.para, (isBlockedRaw_iff set wf _).mp h5, Or.inr (Or.inr (Or.inr ⟨e, rfl, Or.inr rfl⟩))⟩
              · simp only [h5, Bool.false_eq_true, if_false, Option.isSome_none, false_iff]
                rintro ⟨r, hr, hd | hd | hd | ⟨e', he', hd | hd⟩⟩
                · exact n1 r hr hd
                · exact n2 r hr hd
                · exact n3 r hr hd
                · simp at he'; subst he'
                  exact h4 ((isBlocked_iff set wf _).mpr ⟨r, hr, hd⟩)
                · simp at he'; subst he'
                  rw [hd] at h5
                  exact h5 ((isBlockedRaw_iff set wf _).mpr hr)

/-- every `user.evm.<name>` executor is an EVM executor, whatever the name. -/
theorem realExec_user_evm (name : List Char) : realExecName ("user.evm.".toList ++ name) = "evm".toList := by
  simp [realExecName, paraExecName, List.isPrefixOf, List.takeWhile]

/-- the executor shapes that are / are not EVM (what `GetRealExecName` answers; the last six merely contain or end in
"evm"). -/
example :
    (["evm", "user.evm.abc", "user.evm", "user.p.tt.evm", "user.p.tt.user.evm.x"].map fun e => realExecName e.toList == "evm".toList) =
      [true, true, true, true, true] ∧
    (["xevm", "user.evmx", "user.p.tt.notevm", "user.write.evm", "user..evm", "user.p.evm", "user.p.tt."].map
      fun e => realExecName e.toList == "evm".toList) = [false, false, false, false, false, false, false] := by
  decide

/-- **every spelling is treated alike**: the verdict on a text only depends on the account it denotes. -/
theorem spelling_invariant (set : List Raw) (s s' : List Char) (h : parse s = parse s') :
    isBlocked set s = isBlocked set s' := by
  unfold isBlocked; rw [h]

/-- ... and so does the verdict on a transaction: two transactions whose positions denote the same accounts
(in whatever spellings) are both hit or both pass. -/
theorem core_spelling_invariant (set : List Raw) (wf : WF set) (t t' : TxV)
    (h1 : parse t.sender = parse t'.sender) (h2 : parse t.to = parse t'.to) (h3 : parse t.realTo = parse t'.realTo)
    (h4 : t.evm.map (fun e => (parse e.contract, e.para)) = t'.evm.map (fun e => (parse e.contract, e.para))) :
    (core set t).isSome = (core set t').isSome := by
  have key : ∀ a b : TxV, parse a.sender = parse b.sender → parse a.to = parse b.to → parse a.realTo = parse b.realTo →
      a.evm.map (fun e => (parse e.contract, e.para)) = b.evm.map (fun e => (parse e.contract, e.para)) →
      Touches set a → Touches set b := by
    intro a b e1 e2 e3 e4
    rintro ⟨r, hr, hd | hd | hd | ⟨e, he, hd⟩⟩
    · exact ⟨r, hr, Or.inl (by unfold Denotes at *; rw [← e1]; exact hd)⟩
    · exact ⟨r, hr, Or.inr (Or.inl (by unfold Denotes at *; rw [← e2]; exact hd))⟩
    · exact ⟨r, hr, Or.inr (Or.inr (Or.inl (by unfold Denotes at *; rw [← e3]; exact hd)))⟩
    · rw [he] at e4
      cases hb : b.evm with
      | none => rw [hb] at e4; simp at e4
      | some e' =>
        rw [hb] at e4
        simp only [Option.map_some, Option.some.injEq, Prod.mk.injEq] at e4
        refine ⟨r, hr, Or.inr (Or.inr (Or.inr ⟨e', hb, ?_⟩))⟩
        rcases hd with hd | hd
        · left; unfold Denotes at *; rw [← e4.1]; exact hd
        · right; rw [← e4.2]; exact hd
  rw [Bool.eq_iff_iff, core_iff_touches set wf, core_iff_touches set wf]
  exact ⟨key t t' h1 h2 h3 h4, key t' t h1.symm h2.symm h3.symm h4.symm⟩

/-- non-vacuity: the same account with and without prefix, in two cases, is one account. -/
example : parse "0x742d35cc6634c0532925a3b844bc9e7595f0beb0".toList = parse "742D35CC6634C0532925A3B844BC9E7595F0BEB0".toList ∧
    (parse "0X742d35Cc6634C0532925a3b844Bc9e7595f0bEb0".toList).isSome = true := by decide

/-- **consensus side**: at every height `height ≥ forkHeight` (the configured activation height), a receipt other than
ExecErr means the executed transaction — the transaction itself, every member of its group, the inner transaction of a
proxied one, a para-chain forwarded transaction (`IsForward2MainChainTx`) — touches no blacklisted account in any
position or spelling. -/
theorem exec_ok_not_blocked (set : List Raw) (wf : WF set) (forkHeight height : Nat) (hh : forkHeight ≤ height)
    (item : Item) (i : Nat) (t : TxV) (ty : Ty)
    (ht : item.effective[i]? = some t) (hr : (execItem (activeAt forkHeight height) set item)[i]? = some ty)
    (hne : ty ≠ .err) : ¬ Touches set t := by
  have hact : activeAt forkHeight height = true := by simp [activeAt, hh]
  rw [hact] at hr
  intro htouch
  have hc : (check true set t).isSome = true := by
    simp only [check, if_true]; exact (core_iff_touches set wf t).mpr htouch
  cases item with
  | single t0 base =>
    simp only [Item.effective] at ht
    cases i with
    | zero =>
      simp at ht; subst ht
      simp [execItem, hc] at hr; exact hne hr.symm
    | succ n => simp at ht
  | group ts =>
    simp only [Item.effective, List.getElem?_map] at ht
    cases hp : ts[i]? with
    | none => simp [hp] at ht
    | some p =>
      simp [hp] at ht
      have hmem : p ∈ ts := List.mem_of_getElem? hp
      have hany : ts.any (fun p => (check true set p.1).isSome) = true := by
        simp only [List.any_eq_true]; exact ⟨p, hmem, by rw [ht]; exact hc⟩
      simp only [execItem, hany, if_true, List.getElem?_map, hp, Option.map_some, Option.some.injEq] at hr
      exact hne hr.symm
  | proxied outer inner base =>
    cases inner with
    | none => simp [Item.effective] at ht
    | some t0 =>
      simp only [Item.effective, Option.toList] at ht
      cases i with
      | zero =>
        simp at ht; subst ht
        simp [execItem, hc] at hr; exact hne hr.symm
      | succ n => simp at ht
  | forwarded t0 base =>
    simp only [Item.effective] at ht
    cases i with
    | zero =>
      simp at ht; subst ht
      simp [execItem, hc] at hr; exact hne hr.symm
    | succ n => simp at ht

/-- before the activation height nothing is rejected by the rule: the receipts are the baseline ones. -/
theorem exec_before_activation (set : List Raw) (forkHeight height : Nat) (hh : height < forkHeight) (t : TxV) (base : Ty) :
    execItem (activeAt forkHeight height) set (.single t base) = [base] := by
  have : activeAt forkHeight height = false := by simp [activeAt]; omega
  simp [execItem, check, this]

/-- non-vacuity: a group passes when nobody is listed, and is rejected as a whole when one member is. -/
def exClean : TxV := { sender := "0x1111111111111111111111111111111111111111".toList, to := "0x2222222222222222222222222222222222222222".toList, realTo := "0x2222222222222222222222222222222222222222".toList, execer := "coins".toList, payload := none }
def exDirty : TxV := { sender := "0x1111111111111111111111111111111111111111".toList, to := "0X742D35cc6634c0532925a3b844bc9e7595f0beb0".toList, realTo := "0X742D35cc6634c0532925a3b844bc9e7595f0beb0".toList, execer := "coins".toList, payload := none }
example :
    (mkSet ["742d35cc6634c0532925a3b844bc9e7595f0beb0".toList]).map (fun set =>
      (execItem true set (.group [(exClean, .ok), (exClean, .pack)]), execItem true set (.group [(exClean, .ok), (exDirty, .ok)]),
        execItem false set (.group [(exClean, .ok), (exDirty, .ok)]))) =
      some ([.ok, .pack], [.err, .err], [.ok, .ok]) := by
  decide

def exOuter : TxV := { sender := "0x1111111111111111111111111111111111111111".toList, to := "0x0000000000000000000000000000000000200005".toList, realTo := "0x0000000000000000000000000000000000200005".toList, execer := "coins".toList, payload := none }
def exInnerClean : TxV := { sender := "0x1111111111111111111111111111111111111111".toList, to := "0x2222222222222222222222222222222222222222".toList, realTo := "0x2222222222222222222222222222222222222222".toList, execer := "coins".toList, payload := none }
def exInnerDirty : TxV := { sender := "0x1111111111111111111111111111111111111111".toList, to := "0x0707070707070707070707070707070707070707".toList, realTo := "0x0707070707070707070707070707070707070707".toList, execer := "coins".toList, payload := none }

/-- **regression witness for the defect repaired in /repo (fix d931b79)**: before the fix `executor.checkTx` returned
nil at its first line for a forwarded transaction; with `forwardExecs = ["coins"]` a transfer of the para chain to a
blacklisted account got the receipt ExecOk at an active height. The repaired executor answers ExecErr. -/
theorem old_executor_runs_forwarded_blocked :
    execForwardedPreFix (activeAt 10 12) [List.replicate 20 (7 : UInt8)] exInnerDirty .ok = [.ok] ∧
    execItem (activeAt 10 12) [List.replicate 20 (7 : UInt8)] (.forwarded exInnerDirty .ok) = [.err] ∧
    Touches [List.replicate 20 (7 : UInt8)] exInnerDirty := by
  refine ⟨by decide, by decide, ?_⟩
  exact ⟨List.replicate 20 (7 : UInt8), by simp, Or.inr (Or.inl (by decide))⟩

/-- the outer transaction of a proxied item is not looked at by the executor (it is replaced by the inner one before
`checkTx`): an outer whose own EVM contract-address field is blacklisted keeps its baseline receipt. The outer's payload
is never executed as an EVM call (only the inner transaction runs), and the pool and the producer do check the outer
transaction; declared, not a finding. -/
theorem proxied_outer_not_checked :
    execItem true [List.replicate 20 (7 : UInt8)]
      (.proxied { exOuter with execer := "evm".toList, payload := some { contract := "0x0707070707070707070707070707070707070707".toList, para := [] } }
        (some exInnerClean) .ok) = [.ok] ∧
    producerTakes true [List.replicate 20 (7 : UInt8)]
      [{ exOuter with execer := "evm".toList, payload := some { contract := "0x0707070707070707070707070707070707070707".toList, para := [] } }] = false := by
  decide

/-- the block producer never packs such a transaction or group at an active height. -/
theorem producer_skips_blocked (set : List Raw) (wf : WF set) (ts : List TxV)
    (h : producerTakes true set ts = true) : ∀ t ∈ ts, ¬ Touches set t := by
  intro t ht htouch
  have hc : (check true set t).isSome = true := by
    simp only [check, if_true]; exact (core_iff_touches set wf t).mpr htouch
  simp only [producerTakes, Bool.not_eq_true', List.any_eq_false] at h
  exact absurd hc (by simpa using h t ht)

/-- **pool side**: at every height (no activation gate) a submission that reached the blacklist check is accepted
only if none of the submitted transactions — the transaction, every member of a group — touches a blacklisted
account, and, for every member that is a proxy-exec transaction (`PoolTx.inner = some t`: Ethereum sign id, `To` =
`exec.proxyExecAddress`, real executor `evm`, payload `Para` decodes as a transaction), neither does the inner
transaction that will really be executed. -/
theorem pool_rejects_always (set : List Raw) (wf : WF set) (ts : List PoolTx) (reach : Bool) (base : PoolRes)
    (h : poolSubmit set ts reach base = .accepted) :
    ∀ m ∈ ts, ¬ Touches set m.outer ∧ ∀ t, m.inner = some t → ¬ Touches set t := by
  have key : ∀ l : List PoolTx, (∃ m ∈ l, Touches set m.outer ∨ ∃ t, m.inner = some t ∧ Touches set t) →
      ∃ r, poolMembers set l = some r ∧ r ≠ .accepted := by
    intro l
    induction l with
    | nil => rintro ⟨m, hm, _⟩; simp at hm
    | cons q rest ih =>
      rintro ⟨m, hm, ht⟩
      simp only [poolMembers]
      cases ha : q.addrOk with
      | false => exact ⟨.other, by simp, by simp⟩
      | true =>
        simp only [Bool.not_true, Bool.false_eq_true, if_false]
        by_cases hc : (core set q.outer).isSome = true
        · exact ⟨.blocked, by simp [hc], by simp⟩
        · simp only [hc, Bool.false_eq_true, if_false]
          by_cases hi : innerHit set q = true
          · exact ⟨.blocked, by simp [hi], by simp⟩
          · simp only [hi, Bool.false_eq_true, if_false]
            apply ih
            rcases List.mem_cons.mp hm with e | e
            · subst e
              rcases ht with ht | ⟨t, hti, ht⟩
              · exact absurd ((core_iff_touches set wf _).mpr ht) hc
              · simp only [innerHit, hti] at hi
                exact absurd ((core_iff_touches set wf t).mpr ht) hi
            · exact ⟨m, e, ht⟩
  intro m hm
  have hno : ¬ (Touches set m.outer ∨ ∃ t, m.inner = some t ∧ Touches set t) := by
    intro ht
    obtain ⟨r, hr, hne⟩ := key ts ⟨m, hm, ht⟩
    cases reach with
    | false => simp [poolSubmit] at h
    | true =>
      simp [poolSubmit, hr] at h
      exact hne h
  exact ⟨fun x => hno (Or.inl x), fun t ht x => hno (Or.inr ⟨t, ht, x⟩)⟩

/-- non-vacuity: a clean proxy-exec submission is accepted, one whose inner recipient is listed is blocked. -/
example :
    poolSubmit [List.replicate 20 (7 : UInt8)] [{ outer := exOuter, addrOk := true, inner := some exInnerClean }] true .accepted = .accepted ∧
    poolSubmit [List.replicate 20 (7 : UInt8)] [{ outer := exOuter, addrOk := true, inner := some exInnerDirty }] true .accepted = .blocked := by
  decide

theorem delay_rejects_always (set : List Raw) (wf : WF set) (t : TxV) (h : delayTakes set t = true) :
    ¬ Touches set t := by
  intro htouch
  have hc : (core set t).isSome = true := (core_iff_touches set wf t).mpr htouch
  simp [delayTakes, hc] at h

/-- **para-chain pool**: `mempool.checkTxs` passes a forwarded submission (`IsForward2MainChainTx`) on before any check: the
para node's pool takes it whatever it touches (it is meant for the main chain, whose pool applies the rule; the para
chain's blocks are not built from this pool). Declared; replayed on a para testnode. -/
theorem pool_para_forwarded_unchecked :
    poolSubmitPara [List.replicate 20 (7 : UInt8)] [{ outer := exInnerDirty, addrOk := true, inner := none }] true true .accepted = .accepted ∧
    poolSubmitPara [List.replicate 20 (7 : UInt8)] [{ outer := exInnerDirty, addrOk := true, inner := none }] true false .accepted = .blocked := by
  decide

/-- **delayed proxy-exec transactions**: `eventAddDelayTx` / `addDelayTx` check the delayed transaction itself only
(no unwrapping): one whose inner recipient is blacklisted is cached — and rejected when its delay expires and it is
pushed through the pool's `checkTxs`, so it never reaches the pool queue. Declared. -/
theorem delay_admits_proxied_blocked :
    delayTakes [List.replicate 20 (7 : UInt8)] exOuter = true ∧
    delayExpires [List.replicate 20 (7 : UInt8)] { outer := exOuter, addrOk := true, inner := some exInnerDirty } .accepted = .blocked := by
  decide

/-- **regression witness for the defect repaired in /repo (fix 1445781)**: the pool as it was looked at the
submitted (outer) transaction only — a proxy-exec transaction whose inner recipient is blacklisted was accepted
(and only rejected later, by the executor, when a block containing it was executed); the repaired pool blocks it. -/
theorem old_pool_admits_proxied_blocked :
    poolSubmitPreFix [List.replicate 20 (7 : UInt8)] [{ outer := exOuter, addrOk := true, inner := some exInnerDirty }] true .accepted = .accepted ∧
    poolSubmit [List.replicate 20 (7 : UInt8)] [{ outer := exOuter, addrOk := true, inner := some exInnerDirty }] true .accepted = .blocked ∧
    Touches [List.replicate 20 (7 : UInt8)] exInnerDirty := by
  refine ⟨by decide, by decide, ?_⟩
  exact ⟨List.replicate 20 (7 : UInt8), by simp, Or.inr (Or.inl (by decide))⟩

end C31
