import Chain33Model.Proofs.C32
/-!
C32 — Push subscribers receive the sequence log in order without gaps.  Property theorems only.

Two layers: `C32.step` mirrors the task loop of blockchain/push.go (inputs: consumed notifications with
the subscriber's answer, wake-ups, re-registrations, node restarts — any fault history is a list of
inputs); `C32.accept` is the specification written from the property text, as an acceptor over the
visible events.  `run_refines_spec` says every fault history of the loop is accepted;
`accepted_contiguous` says what acceptance means for the acknowledged ranges.
-/
namespace C32

theorem acceptAll_append (c : Cfg) (s : Spec) (e1 e2 : List Ev) :
    acceptAll c s (e1 ++ e2) = (acceptAll c s e1).bind (fun s' => acceptAll c s' e2) := by
  induction e1 generalizing s with
  | nil => simp [acceptAll]
  | cons e es ih =>
    simp only [List.cons_append, acceptAll]
    cases accept c s e with
    | none => simp
    | some s' => simpa using ih s'

/-- **Refinement.** For every fault history (any notifications, answers, size cuts, wake-ups,
re-registrations and restarts, of any length) the events produced by the task loop are accepted by the
specification, and the simulation relation is maintained. -/
theorem run_refines_spec_from (c : Cfg) (hc : 1 ≤ c.maxSeq) (ins : List In) (t : Task) (s : Spec) (h : R t s) :
    ∃ s', acceptAll c s (run c t ins).2 = some s' ∧ R (run c t ins).1 s' := by
  induction ins generalizing t s with
  | nil => exact ⟨s, rfl, h⟩
  | cons i is ih =>
    obtain ⟨s1, h1, r1⟩ := sim_step c hc t s i h
    obtain ⟨s2, h2, r2⟩ := ih (step c t i).1 s1 r1
    refine ⟨s2, ?_, ?_⟩
    · simp only [run]
      rw [acceptAll_append, h1]
      simpa using h2
    · simpa [run] using r2

theorem run_refines_spec (c : Cfg) (hc : 1 ≤ c.maxSeq) (ins : List In) :
    ∃ s', acceptAll c {} (run c {} ins).2 = some s' :=
  let ⟨s', h, _⟩ := run_refines_spec_from c hc ins {} {} R_init
  ⟨s', h⟩

/-- acknowledged ranges chained from a resume point `r` (`r < 1`: no resume point yet): the first range
starts right after `r`, every range is non-empty and starts at a sequence ≥ 1, each next range starts
right after the previous one ends — strictly increasing, no gaps, no repeats. -/
def ChainFrom : Int → List (Int × Int) → Prop
  | _, [] => True
  | r, (a, b) :: rest => (r ≥ 1 → a = r + 1) ∧ 1 ≤ a ∧ a ≤ b ∧ ChainFrom b rest

theorem chainFrom_weaken (r r' : Int) (l : List (Int × Int)) (hr : r < 1) (h : ChainFrom r' l) : ChainFrom r l := by
  cases l with
  | nil => trivial
  | cons x xs =>
    obtain ⟨a, b⟩ := x
    simp only [ChainFrom] at h ⊢
    exact ⟨fun hh => by omega, h.2⟩

/-- **What acceptance means.** In every accepted event trace the acknowledged payload ranges are
chained from the current resume point. -/
theorem accepted_contiguous (c : Cfg) (evs : List Ev) (s s' : Spec) (h : acceptAll c s evs = some s') :
    ChainFrom (eff s) (acks evs) := by
  induction evs generalizing s with
  | nil => simp [acks, ChainFrom]
  | cons e es ih =>
    simp only [acceptAll] at h
    cases ha : accept c s e with
    | none => simp [ha] at h
    | some s1 =>
      simp only [ha] at h
      have ih' := ih s1 h
      cases e with
      | post a b ok =>
        simp only [accept] at ha
        split at ha
        · simp at ha
        · rename_i h1
          split at ha
          · simp at ha
          · rename_i h2
            split at ha
            · simp at ha
            · rename_i h3
              simp only [Bool.or_eq_true, Option.isSome_iff_ne_none, ne_eq, not_or, Bool.not_eq_true,
                Decidable.not_not] at h1
              have hpn : s.pending = none := h1.1.2
              have heff : eff s = s.p := by simp [eff, hpn]
              simp only [Bool.not_eq_true', decide_eq_false_iff_not, Decidable.not_not] at h2
              cases ok with
              | true =>
                simp only [if_true, Option.some.injEq] at ha
                subst ha
                simp only [acks, ChainFrom, heff]
                refine ⟨fun hh => ?_, h2.1, h2.2.1, ?_⟩
                · by_cases e : a = s.p + 1
                  · exact e
                  · exact absurd ⟨hh, e⟩ h3
                · simpa [eff] using ih'
              | false =>
                simp only [Bool.false_eq_true, if_false] at ha
                have : eff s1 = eff s := by
                  split at ha <;> (simp only [Option.some.injEq] at ha; subst ha; simp [eff, hpn])
                simp only [acks]
                rw [← this]; exact ih'
      | persisted v =>
        simp only [accept] at ha
        simp only [acks]
        split at ha
        · rename_i b hb
          split at ha
          · simp only [Option.some.injEq] at ha; subst ha
            have : eff s = b := by simp [eff, hb]
            rw [this]; simpa [eff] using ih'
          · simp at ha
        · rename_i hb
          split at ha
          · rename_i hc
            simp only [Option.some.injEq] at ha; subst ha
            simp only [Bool.and_eq_true, Bool.not_eq_true', decide_eq_true_eq] at hc
            have h1 : eff s = s.p := by simp [eff, hb]
            rw [h1]
            exact chainFrom_weaken _ _ _ hc.1.2 (by simpa [eff, hb] using ih')
          · simp at ha
      | deactivated =>
        simp only [accept] at ha
        simp only [acks]
        split at ha
        · simp only [Option.some.injEq] at ha; subst ha; simpa [eff] using ih'
        · simp at ha
      | started =>
        simp only [accept] at ha
        simp only [acks]
        split at ha
        · simp at ha
        · simp only [Option.some.injEq] at ha; subst ha; simpa [eff] using ih'

/-- **Push subscribers receive the sequence log in order without gaps**, for every fault history of the
task loop: the acknowledged ranges of any run from a fresh node are chained. -/
theorem delivered_contiguous (c : Cfg) (hc : 1 ≤ c.maxSeq) (ins : List In) :
    ChainFrom (-1) (acks (run c {} ins).2) := by
  obtain ⟨s', h⟩ := run_refines_spec c hc ins
  simpa [eff] using accepted_contiguous c _ {} s' h

/-- … and **from its resume point**: a subscriber registered with resume sequence `r ≥ 1` gets `r+1`
first, whatever happens afterwards. -/
theorem delivered_from_resume (c : Cfg) (hc : 1 ≤ c.maxSeq) (r : Int) (hr : r ≥ 1) (ins : List In) :
    ChainFrom r (acks (run c {} (.subscribe r :: ins)).2) := by
  have hstep : step c {} (.subscribe r) =
      (spawn { ({} : Task) with persisted := r, active := true, registered := true }, [.persisted r, .started]) := by
    simp [step, hr]
  obtain ⟨s1, h1, r1⟩ := sim_step c hc {} {} (.subscribe r) R_init
  obtain ⟨s2, h2, _⟩ := run_refines_spec_from c hc ins _ s1 r1
  have hc2 := accepted_contiguous c _ s1 s2 h2
  have hp : eff s1 = r := by
    have := r1.p; have hpd := r1.pend
    rw [hstep] at this
    simp [eff, hpd, this, spawn]
  simp only [run, hstep]
  rw [hstep] at hc2
  simpa [acks, hp] using hc2

/-- **A sequence is recorded as delivered only after the subscriber acknowledged it**: the
specification accepts a record event only right after the acknowledged post ending at that sequence
(or as the registration's resume point, before any post). -/
theorem persisted_only_after_ack (c : Cfg) (s s' : Spec) (v : Int) (h : accept c s (.persisted v) = some s') :
    s.pending = some v ∨ (s.pending = none ∧ s.anyPost = false ∧ s.dead = true) := by
  simp only [accept] at h
  split at h
  · rename_i b hb
    split at h
    · rename_i hv; left; rw [hb, hv]
    · simp at h
  · rename_i hb
    split at h
    · rename_i hc
      simp only [Bool.and_eq_true, Bool.not_eq_true', decide_eq_true_eq] at hc
      exact Or.inr ⟨hb, hc.1.1.2, hc.1.1.1⟩
    · simp at h

/-- the loop only ever emits a record event right after the acknowledged post it belongs to, or at
registration. -/
theorem step_persisted_shape (c : Cfg) (t : Task) (i : In) (v : Int) (h : Ev.persisted v ∈ (step c t i).2) :
    (∃ a, (step c t i).2 = [.post a v true, .persisted v]) ∨ (∃ r, i = .subscribe r ∧ v = r) := by
  cases i with
  | tick => simp only [step] at h; split at h <;> simp at h
  | restart => simp only [step] at h; split at h <;> simp at h
  | subscribe r =>
    right; refine ⟨r, rfl, ?_⟩
    simp only [step] at h
    split at h
    · split at h <;> simp at h
    · split at h <;> simp at h
      exact h
  | seqUpdate latest cut ok =>
    left
    simp only [step] at h ⊢
    split at h
    · simp at h
    · split at h
      · simp at h
      · split at h
        · simp at h
        · split at h
          · simp at h
          · split at h
            · rename_i h1 h2 h3 h4 h5
              simp only [List.mem_cons, reduceCtorEq, Ev.persisted.injEq, List.mem_nil_iff, or_false, false_or] at h
              simp only [h1, h2, h3, h4, h5, if_false, if_true, Bool.false_eq_true]
              exact ⟨_, by rw [h]⟩
            · split at h <;> simp at h

/-- **Three consecutive failures deactivate the subscriber** (and nothing is posted until it registers
again). -/
theorem three_failures_deactivate (c : Cfg) (t : Task) (latest : Int) (cut : Nat)
    (hr : t.running = true) (hs : t.sleep ≤ 1) (hl : 0 < t.last) (hlt : t.last < latest) (hf : t.fails = 2) :
    (step c t (.seqUpdate latest cut false)).1.running = false ∧
    Ev.deactivated ∈ (step c t (.seqUpdate latest cut false)).2 ∧
    ∀ latest' cut' ok, (step c (step c t (.seqUpdate latest cut false)).1 (.seqUpdate latest' cut' ok)).2 = [] := by
  have h1 : ¬ t.sleep > 1 := by omega
  have h2 : ¬ t.last ≥ latest := by omega
  have h3 : ¬ t.last ≤ 0 := by omega
  simp [step, hr, h1, h2, h3, hf]

/-- non-vacuity: a history with failures, a deactivation, a re-registration and a restart. -/
example : (run {} {} [.subscribe 5, .seqUpdate 9 100 true, .seqUpdate 30 100 false, .tick,
      .subscribe 0, .seqUpdate 30 3 true, .restart, .seqUpdate 31 100 true]).2 =
    [.persisted 5, .started, .post 6 9 true, .persisted 9, .post 10 19 false, .post 10 12 true, .persisted 12,
     .started, .post 13 22 true, .persisted 22] := by decide

end C32
