import Chain33Model.Proofs.C32
/-!
C32 — Push subscribers receive the sequence log in order without gaps.  Property theorems only.

Two layers: `C32.step` mirrors the task loop of blockchain/push.go (inputs: consumed notifications with
the subscriber's answer, ranges without matching data, what happens between acknowledgement and record,
wake-ups, re-registrations, node restarts — any fault history is a list of inputs); `C32.accept` is the
specification written from the property text, as an acceptor over the visible events (strict: every
acknowledgement is recorded at once; lenient: the record may be lost).  `run_refines_spec` /
`run_refines_strict` say every fault history of the loop is accepted; `accepted_delivery` (all posts),
`accepted_contiguous_partial` (acknowledged ranges), `accepted_three_strikes` and
`persisted_only_after_ack` say what acceptance means; `delivered_full_false` refutes the statement over
histories with lost records.
-/
namespace C32

theorem acceptAll_append (c : Cfg) (k : Bool) (s : Spec) (e1 e2 : List Ev) :
    acceptAll c k s (e1 ++ e2) = (acceptAll c k s e1).bind (fun s' => acceptAll c k s' e2) := by
  induction e1 generalizing s with
  | nil => simp [acceptAll]
  | cons e es ih =>
    simp only [List.cons_append, acceptAll]
    cases accept c k s e with
    | none => simp
    | some s' => simpa using ih s'

/-- **Refinement.** For every fault history (any notifications, answers, size cuts, ranges without
matching data, lost records — store failure or crash between acknowledgement and record —, wake-ups,
re-registrations and restarts, of any length) the events produced by the task loop are accepted by the
specification, and the simulation relation is maintained.  `k = true` (the strict specification: every
acknowledgement is recorded at once) for histories without lost records. -/
theorem run_refines_spec_from (c : Cfg) (hc : 1 ≤ c.maxSeq) (k : Bool) (ins : List In)
    (hk : k = true → ∀ i ∈ ins, i.noLoss = true) (t : Task) (s : Spec) (h : R k t s) :
    ∃ s', acceptAll c k s (run c t ins).2 = some s' ∧ R k (run c t ins).1 s' := by
  induction ins generalizing t s with
  | nil => exact ⟨s, rfl, h⟩
  | cons i is ih =>
    obtain ⟨s1, h1, r1⟩ := sim_step c hc k t s i (fun hh => hk hh i (by simp)) h
    obtain ⟨s2, h2, r2⟩ := ih (fun hh j hj => hk hh j (by simp [hj])) (step c t i).1 s1 r1
    refine ⟨s2, ?_, ?_⟩
    · simp only [run]
      rw [acceptAll_append, h1]
      simpa using h2
    · simpa [run] using r2

/-- every fault history is accepted by the (lenient) specification. -/
theorem run_refines_spec (c : Cfg) (hc : 1 ≤ c.maxSeq) (ins : List In) :
    ∃ s', acceptAll c false {} (run c {} ins).2 = some s' :=
  let ⟨s', h, _⟩ := run_refines_spec_from c hc false ins (by simp) {} {} (R_init false)
  ⟨s', h⟩

/-- every fault history without a lost record is accepted by the strict specification. -/
theorem run_refines_strict (c : Cfg) (hc : 1 ≤ c.maxSeq) (ins : List In) (hn : ∀ i ∈ ins, i.noLoss = true) :
    ∃ s', acceptAll c true {} (run c {} ins).2 = some s' :=
  let ⟨s', h, _⟩ := run_refines_spec_from c hc true ins (fun _ => hn) {} {} (R_init true)
  ⟨s', h⟩

/-! ### what the subscriber receives: ALL posts, acknowledged or not -/

/-- `Delivered p q evs`: `p` is the recorded sequence, `q` the cursor of the running task.  EVERY post
(acknowledged or refused) and every range passed over without matching data starts right after the cursor
(`q < 1`: no cursor yet); a refused post leaves the cursor where it is — the retransmission starts at the
same sequence —, an acknowledged post and a skipped range move it to their end; a task that starts
(re-registration after deactivation, node restart) stands at the record again; the record moves only by
`.persisted`. -/
def Delivered : Int → Int → List Ev → Prop
  | _, _, [] => True
  | p, q, .post a b ok :: es => (q ≥ 1 → a = q + 1) ∧ 1 ≤ a ∧ a ≤ b ∧ Delivered p (if ok then b else q) es
  | p, q, .skip a b :: es => (q ≥ 1 → a = q + 1) ∧ 1 ≤ a ∧ a ≤ b ∧ Delivered p b es
  | _, q, .persisted v :: es => Delivered v q es
  | p, _, .started :: es => Delivered p p es
  | p, q, .deactivated :: es => Delivered p q es
  | p, q, .stalled :: es => Delivered p q es

/-- **Every post starts right after the cursor** — in every accepted trace (strict or not), for
acknowledged and refused posts alike. -/
theorem accepted_delivery (c : Cfg) (k : Bool) (evs : List Ev) (s s' : Spec) (h : acceptAll c k s evs = some s') :
    Delivered s.p s.q evs := by
  induction evs generalizing s with
  | nil => trivial
  | cons e es ih =>
    simp only [acceptAll] at h
    cases ha : accept c k s e with
    | none => simp [ha] at h
    | some s1 =>
      simp only [ha] at h
      have ih' := ih s1 h
      cases e with
      | post a b ok =>
        simp only [accept] at ha
        split at ha
        · simp at ha
        · split at ha
          · simp at ha
          · rename_i h2
            split at ha
            · simp at ha
            · rename_i h3
              simp only [Bool.not_eq_true', decide_eq_false_iff_not, Decidable.not_not] at h2
              have hq : s.q ≥ 1 → a = s.q + 1 := fun hh => by
                by_cases e : a = s.q + 1
                · exact e
                · exact absurd ⟨hh, e⟩ h3
              cases ok with
              | true =>
                simp only [if_true, Option.some.injEq] at ha
                subst ha
                exact ⟨hq, h2.1, h2.2.1, by simpa using ih'⟩
              | false =>
                simp only [Bool.false_eq_true, if_false] at ha
                refine ⟨hq, h2.1, h2.2.1, ?_⟩
                split at ha <;> (simp only [Option.some.injEq] at ha; subst ha; simpa using ih')
      | skip a b =>
        simp only [accept] at ha
        split at ha
        · simp at ha
        · split at ha
          · simp at ha
          · rename_i h2
            split at ha
            · simp at ha
            · rename_i h3
              simp only [Bool.not_eq_true', decide_eq_false_iff_not, Decidable.not_not] at h2
              have hq : s.q ≥ 1 → a = s.q + 1 := fun hh => by
                by_cases e : a = s.q + 1
                · exact e
                · exact absurd ⟨hh, e⟩ h3
              simp only [Option.some.injEq] at ha
              subst ha
              exact ⟨hq, h2.1, h2.2.1, by simpa using ih'⟩
      | persisted v =>
        simp only [accept] at ha
        simp only [Delivered]
        split at ha
        · simp at ha
        split at ha
        · split at ha
          · rename_i hv
            simp only [Option.some.injEq] at ha; subst ha; subst hv; simpa using ih'
          · simp at ha
        · split at ha
          · simp only [Option.some.injEq] at ha; subst ha; simpa using ih'
          · simp at ha
      | deactivated =>
        simp only [accept] at ha
        simp only [Delivered]
        split at ha
        · simp only [Option.some.injEq] at ha; subst ha; simpa using ih'
        · simp at ha
      | started =>
        simp only [accept] at ha
        simp only [Delivered]
        split at ha
        · simp at ha
        · simp only [Option.some.injEq] at ha; subst ha; simpa using ih'
      | stalled =>
        simp only [accept] at ha
        simp only [Delivered]
        split at ha
        · simp at ha
        · simp only [Option.some.injEq] at ha; subst ha; simpa using ih'

/-- … for every fault history of the task loop, lost records included. -/
theorem run_delivery (c : Cfg) (hc : 1 ≤ c.maxSeq) (ins : List In) : Delivered (-1) (-1) (run c {} ins).2 := by
  obtain ⟨s', h⟩ := run_refines_spec c hc ins
  exact accepted_delivery c false _ {} s' h

/-! ### the acknowledged ranges -/

/-- acknowledged ranges chained from a resume point `r` (`r < 1`: no resume point yet): every range is
non-empty and starts at a sequence ≥ 1; `dense = true` (block / header / tx-result subscriptions): the
first range starts right after `r` and each next one right after the previous one ends — strictly
increasing, no gaps, no repeats; `dense = false` (contract filter: the task may pass over ranges without
matching data, see `Delivered`): strictly after — strictly increasing, no repeats. -/
def ChainFrom (dense : Bool) : Int → List (Int × Int) → Prop
  | _, [] => True
  | r, (a, b) :: rest => (r ≥ 1 → if dense then a = r + 1 else r < a) ∧ 1 ≤ a ∧ a ≤ b ∧ ChainFrom dense b rest

theorem chainFrom_weaken (d : Bool) (r r' : Int) (l : List (Int × Int)) (hr : r < 1) (h : ChainFrom d r' l) :
    ChainFrom d r l := by
  cases l with
  | nil => trivial
  | cons x xs =>
    obtain ⟨a, b⟩ := x
    simp only [ChainFrom] at h ⊢
    exact ⟨fun hh => by omega, h.2⟩

/-- the cursor of a running task is not behind the last delivered sequence (and equal to it as long as
nothing was skipped). -/
def CursorOk (dense : Bool) (s : Spec) : Prop :=
  s.dead = false → eff s ≥ 1 → (eff s ≤ s.q ∧ (dense = true → s.q = eff s))

/-- The full statement of the property over ALL fault histories of the model, lost records included:
the acknowledged ranges are strictly increasing (an acknowledged sequence is never delivered again). -/
def FullStatement : Prop :=
  ∀ (c : Cfg), 1 ≤ c.maxSeq → ∀ ins : List In, ChainFrom false (-1) (acks (run c {} ins).2)

/-- **What strict acceptance means.**  Hypothesis added to the full statement: the trace is accepted by
the STRICT specification, i.e. every acknowledgement is followed at once by its record (no store failure
and no crash between `PostData` and `setLastPushSeq`).  Then the acknowledged ranges are chained from the
current resume point; without gaps if no range was passed over (`dense`). -/
theorem accepted_contiguous_partial (c : Cfg) (dense : Bool) (evs : List Ev) (s s' : Spec)
    (h : acceptAll c true s evs = some s') (hd : dense = true → noSkip evs = true) (hinv : CursorOk dense s) :
    ChainFrom dense (eff s) (acks evs) := by
  induction evs generalizing s with
  | nil => simp [acks, ChainFrom]
  | cons e es ih =>
    simp only [acceptAll] at h
    cases ha : accept c true s e with
    | none => simp [ha] at h
    | some s1 =>
      simp only [ha] at h
      cases e with
      | post a b ok =>
        have hd' : dense = true → noSkip es = true := fun hh => by simpa [noSkip] using hd hh
        simp only [accept] at ha
        split at ha
        · simp at ha
        · rename_i h1
          split at ha
          · simp at ha
          · rename_i h2
            split at ha
            · simp at ha
            · rename_i h3
              simp only [Bool.true_and, Bool.or_eq_true, Option.isSome_iff_ne_none, ne_eq, not_or,
                Bool.not_eq_true, Decidable.not_not] at h1
              have hpn : s.pending = none := h1.2
              have hdead : s.dead = false := h1.1.1
              have heff : eff s = s.p := by simp [eff, hpn]
              simp only [Bool.not_eq_true', decide_eq_false_iff_not, Decidable.not_not] at h2
              have hq : s.q ≥ 1 → a = s.q + 1 := fun hh => by
                by_cases e : a = s.q + 1
                · exact e
                · exact absurd ⟨hh, e⟩ h3
              cases ok with
              | true =>
                simp only [if_true, Option.some.injEq] at ha
                subst ha
                have ih' := ih _ h hd' (by intro _ _; simp [eff])
                simp only [acks, ChainFrom, heff]
                refine ⟨fun hh => ?_, h2.1, h2.2.1, by simpa [eff] using ih'⟩
                have hi := hinv hdead (by rw [heff]; exact hh)
                rw [heff] at hi
                have hq1 := hq (by omega)
                cases dense with
                | true => have := hi.2 rfl; simp only [if_true]; omega
                | false => simp only [Bool.false_eq_true, if_false]; omega
              | false =>
                simp only [Bool.false_eq_true, if_false] at ha
                have hs1 : eff s1 = eff s ∧ s1.q = s.q ∧ s1.dead = s.dead := by
                  split at ha <;> (simp only [Option.some.injEq] at ha; subst ha; simp [eff, hpn])
                have ih' := ih _ h hd' (by
                  intro x y; rw [hs1.1] at y ⊢; rw [hs1.2.1]; rw [hs1.2.2] at x; exact hinv x y)
                simp only [acks]
                rw [← hs1.1]; exact ih'
      | skip a b =>
        have hdn : dense = false := by
          cases dense with
          | false => rfl
          | true => simpa [noSkip] using hd rfl
        subst hdn
        simp only [accept] at ha
        split at ha
        · simp at ha
        · rename_i h1
          split at ha
          · simp at ha
          · rename_i h2
            split at ha
            · simp at ha
            · rename_i h3
              simp only [Bool.true_and, Bool.or_eq_true, Option.isSome_iff_ne_none, ne_eq, not_or,
                Bool.not_eq_true, Decidable.not_not] at h1
              have hpn : s.pending = none := h1.2
              have hdead : s.dead = false := h1.1.1
              simp only [Bool.not_eq_true', decide_eq_false_iff_not, Decidable.not_not] at h2
              have hq : s.q ≥ 1 → a = s.q + 1 := fun hh => by
                by_cases e : a = s.q + 1
                · exact e
                · exact absurd ⟨hh, e⟩ h3
              simp only [Option.some.injEq] at ha
              subst ha
              have ih' := ih _ h (by simp) (by
                intro _ y
                have y' : eff s ≥ 1 := by simpa [eff, hpn] using y
                have hi := hinv hdead y'
                have := hq (by omega)
                refine ⟨?_, by simp⟩
                simp only [eff, hpn] at hi ⊢
                omega)
              simp only [acks]
              simpa [eff, hpn] using ih'
      | persisted v =>
        have hd' : dense = true → noSkip es = true := fun hh => by simpa [noSkip] using hd hh
        simp only [accept] at ha
        simp only [acks]
        split at ha
        · simp at ha
        split at ha
        · rename_i b hb
          split at ha
          · simp only [Option.some.injEq] at ha; subst ha
            have he : eff s = b := by simp [eff, hb]
            have ih' := ih _ h hd' (by
              intro x y
              have := hinv x (by rw [he]; simpa [eff] using y)
              rw [he] at this
              simpa [eff] using this)
            rw [he]; simpa [eff] using ih'
          · simp at ha
        · rename_i hb
          split at ha
          · rename_i hc
            simp only [Option.some.injEq] at ha; subst ha
            simp only [Bool.and_eq_true, Bool.not_eq_true', decide_eq_true_eq] at hc
            have ih' := ih _ h hd' (by intro x _; simp [hc.1.1.1] at x)
            have h1 : eff s = s.p := by simp [eff, hb]
            rw [h1]
            exact chainFrom_weaken _ _ _ _ hc.1.2 (by simpa [eff, hb] using ih')
          · simp at ha
      | deactivated =>
        have hd' : dense = true → noSkip es = true := fun hh => by simpa [noSkip] using hd hh
        simp only [accept] at ha
        simp only [acks]
        split at ha
        · rename_i hm
          simp only [Bool.and_eq_true, Option.isNone_iff_eq_none] at hm
          simp only [Option.some.injEq] at ha; subst ha
          have ih' := ih _ h hd' (by intro x _; simp at x)
          simpa [eff, hm.2] using ih'
        · simp at ha
      | started =>
        have hd' : dense = true → noSkip es = true := fun hh => by simpa [noSkip] using hd hh
        simp only [accept] at ha
        simp only [acks]
        split at ha
        · simp at ha
        · rename_i h1
          simp only [Bool.true_and, Bool.or_eq_true, Option.isSome_iff_ne_none, ne_eq, not_or,
            Bool.not_eq_true, Decidable.not_not] at h1
          simp only [Option.some.injEq] at ha; subst ha
          have ih' := ih _ h hd' (by intro _ _; simp [eff])
          simpa [eff, h1.2] using ih'
      | stalled =>
        have hd' : dense = true → noSkip es = true := fun hh => by simpa [noSkip] using hd hh
        simp only [accept] at ha
        simp only [acks]
        split at ha
        · simp at ha
        · rename_i h1
          simp only [Bool.true_and, Bool.or_eq_true, Option.isSome_iff_ne_none, ne_eq, not_or,
            Bool.not_eq_true, Decidable.not_not] at h1
          simp only [Option.some.injEq] at ha; subst ha
          have ih' := ih _ h hd' (by
            intro x y
            have := hinv x (by simpa [eff, h1.2] using y)
            simpa [eff, h1.2] using this)
          simpa [eff, h1.2] using ih'

/-- the witness history: subscriber registered with resume point 5; 6..9 posted and acknowledged; the
node crashes before `setLastPushSeq`; after the restart 6..9 is posted again.  (Replayed on the real code
in the harness, scenarios `w-crash` and `w-store-fail`: same event log.) -/
def lostRecordWitness : List In :=
  [.subscribe 5, .seqUpdate 9 100 false true .crash, .seqUpdate 9 100 false true .record]

example : (run {} {} lostRecordWitness).2 =
    [.persisted 5, .started, .post 6 9 true, .started, .post 6 9 true, .persisted 9] := by decide

/-- **The full statement is false**: an acknowledgement whose record is lost (crash or ignored store
error between `PostData` and `setLastPushSeq`) is delivered again after the restart — at-least-once
delivery across that window. -/
theorem delivered_full_false : ¬ FullStatement := by
  intro h
  have h1 := h {} (by decide) lostRecordWitness
  have e : acks (run {} {} lostRecordWitness).2 = [(6, 9), (6, 9)] := by decide
  rw [e] at h1
  simp [ChainFrom] at h1

/-- **Push subscribers receive the sequence log in order, no sequence twice**, for every fault history
of the task loop without a lost record (hypothesis added to `FullStatement`: `noLoss` — every
acknowledged post gets its record): the acknowledged ranges of any run from a fresh node are strictly
increasing, ranges without matching data may lie between them. -/
theorem delivered_contiguous_partial (c : Cfg) (hc : 1 ≤ c.maxSeq) (ins : List In)
    (hn : ∀ i ∈ ins, i.noLoss = true) : ChainFrom false (-1) (acks (run c {} ins).2) := by
  obtain ⟨s', h⟩ := run_refines_strict c hc ins hn
  have := accepted_contiguous_partial c false _ {} s' h (by simp) (by intro x; simp at x)
  simpa [eff] using this

/-- … **and without gaps** when no range is empty (block, header and tx-result subscriptions): each
acknowledged range starts right after the previous one. -/
theorem delivered_dense_partial (c : Cfg) (hc : 1 ≤ c.maxSeq) (ins : List In)
    (hn : ∀ i ∈ ins, i.noLoss = true) (hd : ∀ i ∈ ins, i.dense = true) :
    ChainFrom true (-1) (acks (run c {} ins).2) := by
  obtain ⟨s', h⟩ := run_refines_strict c hc ins hn
  have := accepted_contiguous_partial c true _ {} s' h (fun _ => run_noSkip c ins {} hd) (by intro x; simp at x)
  simpa [eff] using this

/-- … and **from its resume point**: a subscriber registered with resume sequence `r ≥ 1` gets `r+1`
first (dense) / nothing at or before `r` (filter), whatever happens afterwards (no lost record). -/
theorem delivered_from_resume_partial (c : Cfg) (hc : 1 ≤ c.maxSeq) (dense : Bool) (r : Int) (hr : r ≥ 1) (ins : List In)
    (hn : ∀ i ∈ ins, i.noLoss = true) (hd : dense = true → ∀ i ∈ ins, i.dense = true) :
    ChainFrom dense r (acks (run c {} (.subscribe r :: ins)).2) := by
  have hstep : step c {} (.subscribe r) =
      (spawn { ({} : Task) with persisted := r, active := true, registered := true }, [.persisted r, .started]) := by
    simp [step, hr]
  have hall : ∀ i ∈ (In.subscribe r :: ins), i.noLoss = true := by
    intro i hi
    rcases List.mem_cons.mp hi with h1 | h1
    · subst h1; rfl
    · exact hn i h1
  obtain ⟨s', h⟩ := run_refines_strict c hc (.subscribe r :: ins) hall
  have hev : (run c {} (.subscribe r :: ins)).2 = [.persisted r, .started] ++ (run c (step c {} (.subscribe r)).1 ins).2 := by
    simp only [run, hstep]
  rw [hev] at h ⊢
  rw [acceptAll_append] at h
  have h0 : acceptAll c true {} [.persisted r, .started] = some { ({} : Spec) with p := r, dead := false, q := r } := by
    simp [acceptAll, accept, hr]
  rw [h0] at h
  simp only [Option.bind_some] at h
  have := accepted_contiguous_partial c dense _ _ s' h
    (fun hh => run_noSkip c ins _ (hd hh)) (by intro _ _; simp [eff])
  simpa [acks, eff] using this

/-- **A sequence is recorded as delivered only after the subscriber acknowledged it**: the
specification (strict or not) accepts a record event only right after the acknowledged post ending at
that sequence (or as the registration's resume point, before any post). -/
theorem persisted_only_after_ack (c : Cfg) (k : Bool) (s s' : Spec) (v : Int) (h : accept c k s (.persisted v) = some s') :
    s.pending = some v ∨ (s.pending = none ∧ s.anyPost = false ∧ s.dead = true) := by
  simp only [accept] at h
  split at h
  · simp at h
  split at h
  · rename_i b hb
    split at h
    · rename_i hv; left; rw [hb, hv]
    · simp at h
  · rename_i hb
    split at h
    · rename_i hc
      simp only [Bool.and_eq_true, Bool.not_eq_true', decide_eq_true_eq] at hc
      exact Or.inr ⟨hb, hc.1.1.2, hc.1.1.1⟩
    · simp at h

/-- … and `pending = some v` arises only from an acknowledged post ending at `v`: every other event
clears it. -/
theorem pending_only_from_ack (c : Cfg) (k : Bool) (s s' : Spec) (e : Ev) (v : Int)
    (h : accept c k s e = some s') (hp : s'.pending = some v) : ∃ a, e = .post a v true := by
  cases e with
  | post a b ok =>
    simp only [accept] at h
    split at h
    · simp at h
    · split at h
      · simp at h
      · split at h
        · simp at h
        · cases ok with
          | true =>
            simp only [if_true, Option.some.injEq] at h
            subst h
            simp only [Option.some.injEq] at hp
            exact ⟨a, by rw [hp]⟩
          | false =>
            simp only [Bool.false_eq_true, if_false] at h
            split at h <;> (simp only [Option.some.injEq] at h; subst h; simp at hp)
  | skip a b =>
    simp only [accept] at h
    split at h
    · simp at h
    · split at h
      · simp at h
      · split at h
        · simp at h
        · simp only [Option.some.injEq] at h; subst h; simp at hp
  | persisted w =>
    simp only [accept] at h
    split at h
    · simp at h
    split at h
    · split at h
      · simp only [Option.some.injEq] at h; subst h; simp at hp
      · simp at h
    · rename_i hb
      split at h
      · simp only [Option.some.injEq] at h; subst h; simp [hb] at hp
      · simp at h
  | deactivated =>
    simp only [accept] at h
    split at h
    · rename_i hm
      simp only [Bool.and_eq_true, Option.isNone_iff_eq_none] at hm
      simp only [Option.some.injEq] at h; subst h; simp [hm.2] at hp
    · simp at h
  | started =>
    simp only [accept] at h
    split at h
    · simp at h
    · simp only [Option.some.injEq] at h; subst h; simp at hp
  | stalled =>
    simp only [accept] at h
    split at h
    · simp at h
    · simp only [Option.some.injEq] at h; subst h; simp at hp

/-- the loop only ever writes a record right after the acknowledged post it belongs to, or at
registration. -/
theorem step_persisted_shape (c : Cfg) (t : Task) (i : In) (v : Int) (h : Ev.persisted v ∈ (step c t i).2) :
    (∃ a, (step c t i).2 = [.post a v true, .persisted v]) ∨ (∃ r, i = .subscribe r ∧ v = r) := by
  cases i with
  | tick => simp only [step] at h; split at h <;> simp at h
  | restart => simp only [step, reboot] at h; split at h <;> simp at h
  | subscribe r =>
    right; refine ⟨r, rfl, ?_⟩
    simp only [step] at h
    split at h
    · split at h <;> simp at h
    · split at h <;> simp at h
      exact h
  | seqUpdate latest cut empty ok after =>
    left
    simp only [step] at h ⊢
    split at h
    · simp at h
    · split at h
      · simp at h
      · split at h
        · simp at h
        · split at h
          · simp at h
          · split at h
            · split at h <;> simp at h
            · split at h
              · rename_i h1 h2 h3 h4 h5 h6
                cases after with
                | record =>
                  simp only [List.mem_cons, reduceCtorEq, Ev.persisted.injEq, List.mem_nil_iff, or_false, false_or] at h
                  simp only [h1, h2, h3, h4, h5, h6, if_false, if_true, Bool.false_eq_true]
                  exact ⟨_, by rw [h]⟩
                | storeFail => simp at h
                | crash =>
                  simp only [reboot] at h
                  split at h <;> simp at h
              · split at h <;> simp at h

/-! ### three consecutive failures deactivate — over whole traces -/

/-- `Strikes must n evs`: `n` consecutive refused posts so far; `must`: the third one was just seen and
`.deactivated` must be the next event.  A refused post raises the count, an acknowledged post, a skipped
range and a task start reset it; after the third refused post in a row NOTHING but `.deactivated` may
follow (in particular no further post). -/
def Strikes : Bool → Nat → List Ev → Prop
  | _, _, [] => True
  | true, _, e :: es => e = .deactivated ∧ Strikes false 0 es
  | false, n, .post _ _ false :: es => Strikes (decide (n + 1 ≥ 3)) (n + 1) es
  | false, n, .persisted _ :: es => Strikes false n es
  | false, _, _ :: es => Strikes false 0 es

/-- **Three consecutive failed posts are followed by `.deactivated` before any further post** — in
every accepted trace. -/
theorem accepted_three_strikes (c : Cfg) (k : Bool) (evs : List Ev) (s s' : Spec) (h : acceptAll c k s evs = some s') :
    Strikes s.mustDeact s.fails evs := by
  induction evs generalizing s with
  | nil => cases hm : s.mustDeact <;> simp [Strikes]
  | cons e es ih =>
    simp only [acceptAll] at h
    cases ha : accept c k s e with
    | none => simp [ha] at h
    | some s1 =>
      simp only [ha] at h
      have ih' := ih s1 h
      cases hm : s.mustDeact with
      | true =>
        -- only `.deactivated` is accepted
        cases e with
        | deactivated =>
          simp only [accept, hm] at ha
          split at ha
          · simp only [Option.some.injEq] at ha; subst ha
            exact ⟨rfl, by simpa using ih'⟩
          · simp at ha
        | post a b ok => simp [accept, hm] at ha
        | skip a b => simp [accept, hm] at ha
        | stalled => simp [accept, hm] at ha
        | started => simp [accept, hm] at ha
        | persisted v => simp [accept, hm] at ha
      | false =>
        cases e with
        | post a b ok =>
          simp only [accept] at ha
          split at ha
          · simp at ha
          · split at ha
            · simp at ha
            · split at ha
              · simp at ha
              · cases ok with
                | true =>
                  simp only [if_true, Option.some.injEq] at ha
                  subst ha
                  simpa [Strikes, hm] using ih'
                | false =>
                  simp only [Bool.false_eq_true, if_false] at ha
                  simp only [Strikes]
                  split at ha
                  · rename_i h3
                    simp only [Option.some.injEq] at ha; subst ha
                    simpa [h3] using ih'
                  · rename_i h3
                    simp only [Option.some.injEq] at ha; subst ha
                    simpa [h3, hm] using ih'
        | skip a b =>
          simp only [accept] at ha
          split at ha
          · simp at ha
          · split at ha
            · simp at ha
            · split at ha
              · simp at ha
              · simp only [Option.some.injEq] at ha; subst ha
                simpa [Strikes, hm] using ih'
        | stalled =>
          simp only [accept] at ha
          split at ha
          · simp at ha
          · simp only [Option.some.injEq] at ha; subst ha
            simpa [Strikes, hm] using ih'
        | started =>
          simp only [accept] at ha
          split at ha
          · simp at ha
          · simp only [Option.some.injEq] at ha; subst ha
            simpa [Strikes, hm] using ih'
        | deactivated => simp [accept, hm] at ha
        | persisted v =>
          simp only [accept] at ha
          simp only [Strikes]
          split at ha
          · simp at ha
          split at ha
          · split at ha
            · simp only [Option.some.injEq] at ha; subst ha; simpa [hm] using ih'
            · simp at ha
          · split at ha
            · simp only [Option.some.injEq] at ha; subst ha; simpa [hm] using ih'
            · simp at ha

/-- … **in any run of the task loop** (any fault history): three consecutive failed posts are followed
by `.deactivated` before any further post. -/
theorem run_three_strikes (c : Cfg) (hc : 1 ≤ c.maxSeq) (ins : List In) : Strikes false 0 (run c {} ins).2 := by
  obtain ⟨s', h⟩ := run_refines_spec c hc ins
  exact accepted_three_strikes c false _ {} s' h

/-- `Strikes` has teeth: a fourth post after three refused ones is not allowed, nor a late deactivation. -/
example : ¬ Strikes false 0 [.post 6 9 false, .post 6 9 false, .post 6 9 false, .post 6 9 false] := by
  simp [Strikes]
example : ¬ Strikes false 0 [.post 6 9 false, .post 6 9 false, .post 6 9 false, .started, .deactivated] := by
  simp [Strikes]
/-- `Delivered` has teeth: a retransmission must start where the refused post started; a post after a
task start must begin at the record. -/
example : ¬ Delivered 5 5 [.post 6 9 false, .post 7 9 true] := by simp [Delivered]
example : ¬ Delivered 5 5 [.post 6 9 true, .started, .post 10 12 true] := by simp [Delivered]
example : Delivered 5 5 [.post 6 9 true, .started, .post 6 12 true] := by simp [Delivered]

/-- non-vacuity (dense): a history with failures, a re-registration, a size cut and a restart; three
refusals in a row, the deactivation and the re-registration. -/
example : (run {} {} [.subscribe 5, .seqUpdate 9 100 false true .record, .seqUpdate 30 100 false false .record, .tick,
      .subscribe 0, .seqUpdate 30 3 false true .record, .restart, .seqUpdate 31 100 false true .record]).2 =
    [.persisted 5, .started, .post 6 9 true, .persisted 9, .post 10 19 false, .post 10 12 true, .persisted 12,
     .started, .post 13 22 true, .persisted 22] := by decide
example : (run { failSleep := 1 } {} [.subscribe 5, .seqUpdate 9 100 false false .record, .seqUpdate 9 100 false false .record,
      .seqUpdate 9 100 false false .record, .seqUpdate 9 100 false true .record, .subscribe 5,
      .seqUpdate 9 100 false true .record]).2 =
    [.persisted 5, .started, .post 6 9 false, .post 6 9 false, .post 6 9 false, .deactivated, .started,
     .post 6 9 true, .persisted 9] := by decide
/-- non-vacuity (filter; the history replayed on the real code as `w-empty-restart-data`): ranges without
matching data, a restart (the cursor falls back to the record 5), then a block with data, delivered once. -/
example : (run { maxSeq := 100 } {} [.subscribe 5, .seqUpdate 17 100 true true .record, .restart,
      .seqUpdate 20 100 false true .record, .seqUpdate 23 100 true true .record]).2 =
    [.persisted 5, .started, .skip 6 17, .started, .post 6 20 true, .persisted 20, .skip 21 23] := by decide
/-- non-vacuity (store error ignored, then a restart; replayed as `w-store-fail`). -/
example : (run {} {} [.subscribe 5, .seqUpdate 9 100 false true .storeFail, .restart,
      .seqUpdate 9 100 false true .record]).2 =
    [.persisted 5, .started, .post 6 9 true, .started, .post 6 9 true, .persisted 9] := by decide
/-- the oversize first block: no progress (replayed as `w-oversize`). -/
example : (run { maxSeq := 100 } {} [.subscribe 5, .seqUpdate 7 0 true true .record, .seqUpdate 7 0 true true .record]).2 =
    [.persisted 5, .started, .stalled, .stalled] := by decide
/-- the hypotheses of the partial theorems are satisfiable on these histories. -/
example : ∀ i ∈ [In.subscribe 5, .seqUpdate 17 100 true true .record, .restart, .seqUpdate 20 100 false true .record],
    i.noLoss = true := by decide
example : ∀ i ∈ [In.subscribe 5, .seqUpdate 9 100 false true .record, .restart], i.dense = true := by decide
example : CursorOk true { p := 9, q := 9, dead := false } := by intro _ _; simp [eff]
example : CursorOk false { p := 9, q := 17, dead := false } := by intro _ _; simp [eff]

/-! ### the batch loop of getTxReceipts after fix 87f57a6 (same size rule as getBlockSeqs); getEVMEvent keeps the old rule (repo commit dbb0015: an existing test pins it) -/

/-- **No matching block is left out of a batch**: the payload holds exactly the matching blocks among the
`count` blocks the batch goes over (`updateSeq = startSeq + count - 1`) — whatever the sizes, in particular
when a block makes the batch exactly `maxSize`. -/
theorem batch_delivers_every_matching_block (M : Nat) (l : List Blk) :
    (batchNew M {} l).incl = matchPos 0 (l.take (batchNew M {} l).count) := by
  simpa using batchNew_incl M l {}

/-- **Progress**: a non-empty range is advanced over by at least one block (`updateSeq ≥ startSeq`). -/
theorem batch_progress (M : Nat) (l : List Blk) (hl : l ≠ []) : 1 ≤ (batchNew M {} l).count := by
  simpa using batchNew_progress_from M l {} rfl hl

/-- **The first matching block of a range is always sent**, whatever its size (no bound on `sz`: also
larger than `maxSize`). -/
theorem batch_first_match_sent (M : Nat) (l : List Blk) (hm : ∃ sz, some sz ∈ l) : (batchNew M {} l).incl ≠ [] :=
  batchNew_first_match_from M l {} rfl hm

/-- **Liveness step: a range whose first matching block is oversize is posted.**  A task that is due
(`sleep ≤ 1`) and behind (`0 < last < latest`) posts the range starting at `last+1` whenever the range holds
a matching block of ANY size. -/
theorem oversize_first_block_is_posted (c : Cfg) (t : Task) (latest : Int) (M : Nat) (l : List Blk) (ok : Bool)
    (after : After) (hr : t.running = true) (hs : t.sleep ≤ 1) (hl : 0 < t.last) (hlt : t.last < latest)
    (hm : ∃ sz, some sz ∈ l) :
    ∃ b es, (step c t (.ofBatch latest (batchNew M {} l) ok after)).2 = .post (t.last + 1) b ok :: es := by
  have h1 : ¬ t.sleep > 1 := by omega
  have h2 : ¬ t.last ≥ latest := by omega
  have h3 : ¬ t.last ≤ 0 := by omega
  have he : (batchNew M {} l).incl.isEmpty = false := by
    have := batch_first_match_sent M l hm
    cases h : (batchNew M {} l).incl with
    | nil => exact absurd h this
    | cons _ _ => rfl
  simp only [In.ofBatch, step, hr, h1, h2, h3, he, Bool.not_true, Bool.false_eq_true, if_false]
  cases ok with
  | true =>
    cases after with
    | record => exact ⟨_, _, rfl⟩
    | storeFail => exact ⟨_, _, rfl⟩
    | crash => exact ⟨_, _, rfl⟩
  | false =>
    simp only [Bool.false_eq_true, if_false]
    split <;> exact ⟨_, _, rfl⟩

/-- **The loop never stalls under the new size rule**: for a non-empty range no pass ends with
`updateSeq = startSeq-1`. -/
theorem new_size_rule_never_stalls (c : Cfg) (hc : 1 ≤ c.maxSeq) (t : Task) (latest : Int) (M : Nat) (l : List Blk)
    (ok : Bool) (after : After) (hl : l ≠ []) :
    Ev.stalled ∉ (step c t (.ofBatch latest (batchNew M {} l) ok after)).2 := by
  have hp := batch_progress M l hl
  have hc1 : (1 : Int) ≤ (c.maxSeq : Int) := by exact_mod_cast hc
  simp only [In.ofBatch, step]
  split
  · simp
  · split
    · simp
    · split
      · simp
      · split
        · simp
        · rename_i h2 h3
          split
          · split
            · rename_i hn
              have : (1 : Int) ≤ ((batchNew M {} l).count : Int) := by exact_mod_cast hp
              omega
            · simp
          · split
            · cases after with
              | record => simp
              | storeFail => simp
              | crash => simp only [reboot]; split <;> simp
            · split <;> simp

/-- a task registered with resume point 5 (the state the regression witnesses start from). -/
def afterSubscribe5 : Task := (run { maxSeq := 100 } {} [.subscribe 5]).1

/-- **Regression witness (the loop before the fix):** with `maxSize = 100`, blocks of sizes 10, 90, 10 —
the second makes the batch exactly `maxSize` — the old loop went over all three and appended only the
first and the third (the block was dropped, finding `block-dropped-when-batch-size-equals-limit`); the new
loop ends the batch before it. -/
theorem old_size_rule_drops_exact_fit :
    batchOld 100 {} [some 10, some 90, some 10] = { total := 20, incl := [0, 2], count := 3 } ∧
    batchNew 100 {} [some 10, some 90, some 10] = { total := 10, incl := [0], count := 1 } := by decide

/-- **Regression witness (the loop before the fix):** a first block larger than `maxSize` made the old loop
answer `(nil, startSeq-1)` and the task stalled (finding `oversize-block-stalls-subscriber`); under the new
rule the block is posted alone. -/
theorem old_size_rule_stalls_on_oversize :
    batchOld 100 {} [some 101, some 10] = {} ∧
    (step { maxSeq := 100 } afterSubscribe5 (.ofBatch 7 (batchOld 100 {} [some 101, some 10]) true .record)).2 = [.stalled] ∧
    (step { maxSeq := 100 } afterSubscribe5 (.ofBatch 7 (batchNew 100 {} [some 101, some 10]) true .record)).2 =
      [.post 6 6 true, .persisted 6] := by decide

/-- non-vacuity of the batch theorems' hypotheses. -/
example : ∃ sz, some sz ∈ ([none, some 2000000, some 10] : List Blk) := ⟨10, by simp⟩
example : batchNew 1048576 {} [none, some 2000000, none, some 10] = { total := 2000000, incl := [1], count := 3 } := by decide

end C32
