import Chain33Model.Proofs.C33
/-!
C33 — Peer input can never crash the node.  Property theorems only.

`Model/C33.lean` gives every receive path as a total function into `Res` (explicit `panic`).
`Input` enumerates what a peer (or a clock tick of a background loop processing stored peer input)
can make the node do; `runInput` tells on which `Path` it runs and whether it panics; the node survives
when the path carries a deferred `recover` (`recovered`, a table whose entries the harness re-extracts
from the source with go/ast on every run) or nothing panics.
-/
namespace C33

/-- reachable states: any configuration, then any sequence of peer inputs, pool updates (transactions
arriving in the mempool), chain progress and clock advance -/
inductive Reach : State → Prop where
  | init (multi : Bool) (timeout : Int) : Reach { multi := multi, timeout := timeout }
  | input {s : State} (i : Input) : Reach s → nodeSurvives s i = true → Reach (applyInput s i)
  | pool {s : State} (h : SH) (t : PoolTx) : Reach s → Reach { s with pool := s.pool.push h t }
  | env {s : State} (cur now : Int) (c : ChainReply) : Reach s → Reach { s with cur := cur, now := now, chain := c }

/-- **The property as stated**: in every reachable state every input leaves the node alive. -/
def FullStatement : Prop := ∀ s, Reach s → ∀ i, nodeSurvives s i = true

/-- state of the first witness just before the fatal tick -/
def witnessState : State :=
  let s0 : State := { pool := ({} : Pool).push "h1" ⟨1, []⟩ }
  let s1 := applyInput s0 (.lt ⟨"k", true, 10, 3, some 0, ["h0", "h1", "h20"], 2⟩)
  { s1 with pool := s1.pool.push "h20" ⟨20, [20, 21]⟩ }

theorem witness_reach : Reach witnessState := by
  have h0 : Reach ({ multi := false, timeout := 1000 } : State) := Reach.init false 1000
  have h1 := Reach.pool "h1" ⟨1, []⟩ h0
  have h2 := Reach.input (.lt ⟨"k", true, 10, 3, some 0, ["h0", "h1", "h20"], 2⟩) h1 (by decide)
  exact Reach.pool "h20" ⟨20, [20, 21]⟩ h2

/-- **The full statement is false of the code** (S-C33): a light block with three slots whose last short
hash is that of a pooled *group* of two is queued while the group is not yet in the pool; when the group
arrives, the next tick of `pendBlockLoop` expands it past `len(Txs)` — and that loop has no recover.
Replayed on the real code by the harness (stepped tick and, in a child process, the production loop). -/
theorem tick_full_false : ¬ FullStatement := by
  intro h
  have := h witnessState witness_reach .pendTick
  revert this
  decide

/-- the same witness through the model's own definitions used by the driver -/
theorem witness_pend_tick_crashes : witnessPendTick = .panic ∧ survives .pendTick witnessPendTick = false := by
  decide

/-- second refutation (needs `p2p.types` with two entries): the same block response delivered twice
queues a nil queue message; the next `manageDeniedPeer` tick dereferences it, outside any recover. -/
theorem denied_tick_full_false :
    ∃ s, Reach s ∧ nodeSurvives s .deniedTick = false := by
  refine ⟨applyInput (applyInput { multi := true, timeout := 1000 } (.blockResp true "b")) (.blockResp true "b"), ?_, by decide⟩
  exact Reach.input _ (Reach.input _ (Reach.init true 1000) (by decide)) (by decide)

/-! ### what does hold -/

/-- **Paths under a recover cannot kill the process**, whatever they do. -/
theorem recovered_paths (s : State) (i : Input) (h : recovered (runInput s i).1 = true) :
    nodeSurvives s i = true := by
  simp [nodeSurvives, h]

/-- which inputs run under a recover: every pubsub receive path and every stream handler; the three
background loops, the topic validators and the client-side reply decoding do not. -/
theorem recovered_table :
    [Path.recvLt, .recvReq, .recvResp, .dlOld, .dlNew, .version, .peerInfo].all recovered = true ∧
    [Path.pendTick, .reqTick, .deniedTick, .validate, .subMsgDecode, .dlReply].all (fun p => !recovered p) = true := by
  decide

/-- receive path of a light block, full statement: false (`txCount = 0`, `txCount` above the hash list,
missing header, negative count, group at the tail) — but all of it under the recover. -/
theorem recvLt_panics_exist :
    recvLt {} ⟨"k", true, 1, 0, some 0, ["h0"], 0⟩ = .panic ∧
    recvLt {} ⟨"k", true, 1, 3, some 0, ["h0", "h1"], 0⟩ = .panic ∧
    recvLt {} ⟨"k", false, 0, 0, none, [], 0⟩ = .panic ∧
    recvLt {} ⟨"k", true, 1, -1, some 0, ["h0"], 0⟩ = .panic := by decide

/-- **_partial**: a light block that is well formed (header present, `1 ≤ txCount ≤ 2^16`, at least
`txCount` short hashes) and whose pooled groups fit behind their slots is received without panic, and
what gets queued again satisfies the invariant `PendOk`.  Added hypothesis: well-formedness + `GroupsFit`. -/
theorem recvLt_wellformed_total (s : State) (i : LtIn)
    (hh : i.hasHeader = true) (h1 : 1 ≤ i.txCount) (h2 : i.txCount ≤ bigSlice)
    (hl : i.txCount.toNat ≤ i.hashes.length) (hg : GroupsFit s.pool i.hashes i.txCount.toNat) :
    ∃ r, recvLt s i = .ok r := by
  unfold recvLt
  split
  · exact ⟨_, rfl⟩
  · have hb : (2 : Int) ^ 16 ≤ 2 ^ 45 := by decide
    have e1 : ¬ (i.txCount < 0) := by omega
    have e2 : ¬ (i.txCount > maxSlice) := by unfold maxSlice; unfold bigSlice at h2; omega
    have e3 : ¬ (i.txCount > bigSlice) := by omega
    have e4 : ¬ (i.txCount = 0) := by omega
    simp only [hh, e1, e2, e3, e4, Bool.not_true, Bool.false_eq_true, if_false]
    have hlen : (i.miner :: List.replicate (i.txCount.toNat - 1) none : Slots).length = i.txCount.toNat := by
      simp; omega
    obtain ⟨r, hr, _⟩ := build_ok s.pool ⟨i.key, i.sender, i.height, s.now, i.hashes,
      i.miner :: List.replicate (i.txCount.toNat - 1) none⟩ ⟨by rw [hlen]; exact hl, by rw [hlen]; exact hg⟩
    rw [hr]
    simp only
    split
    · split <;> exact ⟨_, rfl⟩
    · exact ⟨_, rfl⟩

/-- **_partial** for the background loop: if every queued block satisfies `PendOk` for the current pool
(hash list at least as long as the slot list, pooled groups fit), a tick does not panic.
The witness above shows the hypothesis is *not* an invariant of the code: a later pool update breaks it. -/
theorem tick_total_partial (s : State) (h : ∀ pd ∈ s.pend, PendOk s.pool pd) : ∃ r, tick s = .ok r := by
  obtain ⟨r, hr⟩ := pendList_ok s.pool s.now s.timeout s.pend h
  unfold tick
  rw [hr]
  obtain ⟨keep, posted, tmo⟩ := r
  exact ⟨_, rfl⟩

/-- non-vacuity: a well-formed block with a group in the middle, group pooled, satisfies the hypotheses
and is rebuilt at once. -/
example :
    recvLt { pool := (({} : Pool).push "h1" ⟨1, [1, 2]⟩).push "h3" ⟨3, []⟩ }
      ⟨"k", true, 5, 4, some 0, ["h0", "h1", "h2", "h3"], 1⟩ =
    .ok ({ pool := (({} : Pool).push "h1" ⟨1, [1, 2]⟩).push "h3" ⟨3, []⟩, seen := ["k"], msgs := [false] },
         .posted [some 0, some 1, some 2, some 3]) := by decide

/-- block requests: the queued-request loop and the receive path never panic as long as the local
blockchain module answers a successful GetBlocks(h,h) with at least one item (it returns exactly one). -/
theorem reqTick_total_partial (s : State) (h : s.chain ≠ .items 0) : ∃ r, reqTick s = .ok r := by
  obtain ⟨r, hr⟩ := reqList_ok s s.reqs h
  unfold reqTick; rw [hr]; obtain ⟨a, b⟩ := r; exact ⟨_, rfl⟩

/-- without the hypothesis: `details.GetItems()[0]` on an empty answer, in a loop without recover -/
theorem reqTick_empty_answer_panics :
    reqTick { chain := .items 0, cur := 5, reqs := [⟨0, 3⟩] } = .panic := by decide

/-- with a single p2p type no nil message is ever queued, so `manageDeniedPeer` never dereferences one -/
theorem postChain_single_no_nil (s : State) (key : String) (hm : s.multi = false) (h : true ∉ s.msgs) :
    true ∉ (postChain s key).msgs := by
  unfold postChain
  simp only [hm, Bool.false_and, Bool.false_eq_true, if_false]
  simpa using h

theorem deniedTick_total_partial (s : State) (h : true ∉ s.msgs) : ∃ r, deniedTick s = .ok r := by
  unfold deniedTick; simp [h]

/-- download replies are decoded defensively: total, for every reply shape -/
theorem dlReply_total (r : DlReply) : dlReply r ≠ .panic := by
  unfold dlReply
  cases r.rd <;> simp
  split
  · simp
  · split <;> simp

/-- …and accept a block of any height (the requested height is not compared): see C35 -/
theorem dlReply_ignores_requested_height (h : Int) :
    dlReply ⟨.msg, true, 1, true, false, h⟩ = .ok (some h) := by
  simp [dlReply]

/-- the new download handler, the version handlers and the peer-info handlers are total -/
theorem dlNewCore_total (c : ChainReply) (a b : Int) : dlNewCore c a b ≠ .panic := by
  unfold dlNewCore
  split
  · simp
  · cases c with
    | err => simp
    | items n => cases n <;> simp

theorem dlNew_total (c : ChainReply) (rd : ReadRes) (a b : Int) : dlNew c rd a b ≠ .panic := by
  unfold dlNew
  cases rd with
  | err => simp
  | zero => exact dlNewCore_total c 0 0
  | msg => exact dlNewCore_total c a b

theorem version_total (rd : ReadRes) (a b : Bool) : version rd a b ≠ .panic := by
  cases rd <;> cases a <;> cases b <;> decide

theorem peerInfo_total (o : Bool) (rd : ReadRes) : peerInfo o rd ≠ .panic := by
  unfold peerInfo; split <;> simp

/-- the old download handler dereferences `data.Message` unchecked: it panics exactly on a request whose
`Message` is absent (or whose stream header does not match — ReadStream then returns nil with the zero
message); the panic is caught by HandlerWithClose. -/
theorem dlOld_panic_iff (c : ChainReply) (rd : ReadRes) (hm : Bool) (a b : Int) :
    dlOld c rd hm a b = .panic ↔ rd = .zero ∨ (rd = .msg ∧ hm = false) := by
  unfold dlOld
  cases rd <;> simp
  cases hm <;> simp
  split
  · simp
  · cases c with
    | err => simp
    | items n => cases n <;> simp

/-- **the node survives every input that is not one of the two refuted loop steps, under the stated
invariants** — the `_partial` form of `FullStatement`. Added hypotheses: queued blocks satisfy `PendOk`,
the light block (if the input is one) is well formed with fitting groups, the blockchain module never
answers GetBlocks with an empty success, no nil message is queued (true for a single p2p type). -/
theorem node_survives_partial (s : State) (i : Input)
    (hp : ∀ pd ∈ s.pend, PendOk s.pool pd) (hc : s.chain ≠ .items 0) (hn : true ∉ s.msgs) :
    nodeSurvives s i = true := by
  cases i with
  | lt i => simp [nodeSurvives, runInput, recovered]
  | pendTick =>
    obtain ⟨r, hr⟩ := tick_total_partial s hp
    simp [nodeSurvives, runInput, hr, Res.isPanic]
  | blockReq r => simp [nodeSurvives, runInput, recovered]
  | reqTick =>
    obtain ⟨r, hr⟩ := reqTick_total_partial s hc
    simp [nodeSurvives, runInput, hr, Res.isPanic]
  | blockResp d k => simp [nodeSurvives, runInput]
  | block k => simp [nodeSurvives, runInput]
  | deniedTick =>
    obtain ⟨r, hr⟩ := deniedTick_total_partial s hn
    simp [nodeSurvives, runInput, hr, Res.isPanic]
  | dlOld rd hm a b => simp [nodeSurvives, runInput, recovered]
  | dlNew rd a b => simp [nodeSurvives, runInput, recovered]
  | dlReply r =>
    have := dlReply_total r
    cases h : dlReply r <;> simp_all [nodeSurvives, runInput, Res.isPanic]
  | version rd a b => simp [nodeSurvives, runInput, recovered]
  | peerInfo o rd => simp [nodeSurvives, runInput, recovered]

/-- non-vacuity of `node_survives_partial`: a state with a queued block waiting for a group that fits -/
example : ∀ pd ∈ ([⟨"k", 1, 5, 0, ["a", "b", "c"], [some 0, none, none]⟩] : List Pend),
    PendOk (({} : Pool).push "b" ⟨1, [1, 2]⟩) pd := by
  intro pd hpd
  simp at hpd
  subst hpd
  exact ⟨by simp, groupsFit_of_check _ _ _ (by decide)⟩

end C33
