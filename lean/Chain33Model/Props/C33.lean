import Chain33Model.Proofs.C33
/-!
C33 — Peer input can never crash the node.  Property theorems only.

`Model/C33.lean` gives every receive path as a total function into `Res` (explicit `panic`).
`Input` (Proofs/C33.lean) enumerates what a peer — or a tick of a background loop processing stored peer
input — can make the node do; `runInput` tells on which `Path` it runs and whether it panics; the node
survives when the path carries a deferred `recover` (`recovered`, a table whose entries the harness
re-extracts from the source with go/ast on every run) or nothing panics.

The model is that of the code after the repairs fdde6e4 (a pooled group that does not fit is not used)
and e49ca2c (a suppressed duplicate is not queued); the behaviour before them is kept as `fillOld` /
`postChainOld` with the two regression witnesses at the end.
-/
namespace C33

/-- reachable states: any configuration, then any sequence of peer inputs, pool updates (transactions
arriving in the mempool), chain progress and clock advance. The local blockchain module answers a
GetBlocks(h,h) with an error or with at least one block (it returns exactly one): `c ≠ .items 0`. -/
inductive Reach : State → Prop where
  | init (multi : Bool) (timeout : Int) : Reach { multi := multi, timeout := timeout }
  | input {s : State} (i : Input) : Reach s → nodeSurvives s i = true → Reach (applyInput s i)
  | pool {s : State} (h : SH) (t : PoolTx) : Reach s → Reach { s with pool := s.pool.push h t }
  | poolDel {s : State} (h : SH) : Reach s → Reach { s with pool := s.pool.del h }
  | poolUp {s : State} (up : Bool) : Reach s → Reach { s with pool := { s.pool with up := up } }
  | env {s : State} (cur now : Int) (c : ChainReply) : Reach s → c ≠ .items 0 →
      Reach { s with cur := cur, now := now, chain := c }

/-- **The property as stated**: in every reachable state every input leaves the node alive. -/
def FullStatement : Prop := ∀ s, Reach s → ∀ i, nodeSurvives s i = true

/-- what every reachable state satisfies: every queued light block has a short hash for each of its empty
slots, no nil message is queued for the validator, the blockchain module's answers are well formed -/
def Inv (s : State) : Prop :=
  (∀ pd ∈ s.pend, PendOk pd) ∧ true ∉ s.msgs ∧ (s.chain ≠ .items 0 ∧ s.pool.short = false)

theorem postChain_keeps (s : State) (key : String) :
    (postChain s key).pend = s.pend ∧ (postChain s key).chain = s.chain ∧ (postChain s key).pool = s.pool ∧
      (true ∉ s.msgs → true ∉ (postChain s key).msgs) := by
  unfold postChain
  split
  · exact ⟨rfl, rfl, rfl, id⟩
  · exact ⟨rfl, rfl, rfl, by intro h; simpa using h⟩

theorem postChain_inv (s : State) (key : String) (h : Inv s) : Inv (postChain s key) := by
  obtain ⟨h1, h2, h3, h4⟩ := postChain_keeps s key
  exact ⟨by rw [h1]; exact h.1, h4 h.2.1, by rw [h2, h3]; exact h.2.2⟩

theorem foldl_postChain_inv (l : List (Slots × Pend)) (s : State) (h : Inv s) :
    Inv (l.foldl (fun st p => postChain st p.2.key) s) := by
  induction l generalizing s with
  | nil => exact h
  | cons a l ih => exact ih _ (postChain_inv s a.2.key h)

/-- one tick of pendBlockLoop never panics on queued blocks and keeps them well formed -/
theorem tick_total (s : State) (h : Inv s) : ∃ s' o, tick s = .ok (s', o) ∧ Inv s' := by
  obtain ⟨keep, posted, tmo, hr, hk⟩ := pendList_total s.pool s.now s.timeout s.pend h.1 h.2.2.2
  unfold tick
  rw [hr]
  refine ⟨_, _, rfl, ?_⟩
  exact foldl_postChain_inv posted _ ⟨hk, h.2.1, h.2.2⟩

theorem recvLt_inv (s : State) (i : LtIn) (h : Inv s) : Inv (recvLtTotal s i).1 := by
  unfold recvLtTotal recvLtTotalWith
  cases hr : recvLt s i with
  | panic => exact ⟨h.1, h.2.1, h.2.2⟩
  | ok r =>
    obtain ⟨s', o⟩ := r
    simp only
    unfold recvLt at hr
    split at hr
    · simp at hr; obtain ⟨rfl, _⟩ := hr; exact h
    · split at hr
      · simp at hr
      · split at hr
        · simp at hr
        · split at hr
          · simp at hr
          · split at hr
            · simp at hr; obtain ⟨rfl, _⟩ := hr; exact ⟨h.1, h.2.1, h.2.2⟩
            · dsimp only at hr
              split at hr
              · simp at hr
              · split at hr
                · simp at hr
                · rename_i r hb
                  split at hr
                  · split at hr
                    · simp at hr; obtain ⟨rfl, _⟩ := hr
                      exact postChain_inv _ _ ⟨h.1, h.2.1, h.2.2⟩
                    · simp at hr; obtain ⟨rfl, _⟩ := hr; exact ⟨h.1, h.2.1, h.2.2⟩
                  · rename_i hd
                    simp at hr; obtain ⟨rfl, _⟩ := hr
                    refine ⟨?_, h.2.1, h.2.2⟩
                    intro pd hpd
                    simp at hpd
                    rcases hpd with hpd | rfl
                    · exact h.1 pd hpd
                    · exact build_keeps_ok _ _ _ hb (by simpa using hd) h.2.2.2

theorem applyInput_inv (s : State) (i : Input) (h : Inv s) : Inv (applyInput s i) := by
  cases i with
  | lt i => exact recvLt_inv s i h
  | pendTick =>
    obtain ⟨s', o, ht, hi⟩ := tick_total s h
    simp [applyInput, ht, hi]
  | blockReq r =>
    simp only [applyInput]
    cases hr : recvReq s r with
    | panic => exact h
    | ok x =>
      obtain ⟨s', o⟩ := x
      simp only
      unfold recvReq at hr
      split at hr
      · simp at hr; obtain ⟨rfl, _⟩ := hr; exact h
      · split at hr
        all_goals first
          | (simp at hr; done)
          | (simp at hr; obtain ⟨rfl, _⟩ := hr; first | exact h | exact ⟨h.1, h.2.1, h.2.2⟩)
  | reqTick =>
    simp only [applyInput]
    cases hr : reqTick s with
    | panic => exact h
    | ok x =>
      obtain ⟨s', o⟩ := x
      simp only
      unfold reqTick at hr
      split at hr
      · simp at hr
      · simp at hr; obtain ⟨rfl, _⟩ := hr; exact ⟨h.1, h.2.1, h.2.2⟩
  | blockResp d k =>
    simp only [applyInput, recvResp]
    split
    · exact h
    · split <;> exact postChain_inv s k h
  | block k => exact postChain_inv s k h
  | deniedTick =>
    simp only [applyInput]
    cases hr : deniedTick s with
    | panic => exact h
    | ok s' =>
      simp only
      unfold deniedTick at hr
      split at hr
      · simp at hr
      · simp at hr; subst hr; exact ⟨h.1, by simp, h.2.2⟩
  | dlOld _ _ _ _ => exact h
  | dlNew _ _ _ => exact h
  | dlReply _ => exact h
  | version _ _ _ => exact h
  | peerInfo _ _ => exact h
  | peerInfoReply _ => exact h
  | versionReply _ _ => exact h
  | vBlock b =>
    simp only [applyInput, validateBlock]
    repeat' split
    all_goals exact ⟨h.1, h.2.1, h.2.2⟩
  | vTx sf d t =>
    simp only [applyInput, validateTx]
    repeat' split
    all_goals exact ⟨h.1, h.2.1, h.2.2⟩
  | vBatch sf d txs =>
    simp only [applyInput, validateBatch]
    repeat' split
    all_goals exact ⟨h.1, h.2.1, h.2.2⟩

theorem Pool.push_short (p : Pool) (h : SH) (t : PoolTx) : (p.push h t).short = p.short := by
  unfold Pool.push; split <;> rfl

theorem reach_inv {s : State} (h : Reach s) : Inv s := by
  induction h with
  | init m t => exact ⟨by simp, by simp, by simp, rfl⟩
  | input i _ _ ih => exact applyInput_inv _ i ih
  | pool h t _ ih => exact ⟨ih.1, ih.2.1, ih.2.2.1, by rw [Pool.push_short]; exact ih.2.2.2⟩
  | poolDel h _ ih => exact ⟨ih.1, ih.2.1, ih.2.2⟩
  | poolUp u _ ih => exact ⟨ih.1, ih.2.1, ih.2.2⟩
  | env c n ch _ hc ih => exact ⟨ih.1, ih.2.1, hc, ih.2.2.2⟩

/-- block requests: the queued-request loop never panics as long as the local blockchain module answers a
successful GetBlocks(h,h) with at least one item -/
theorem reqTick_total (s : State) (h : s.chain ≠ .items 0) : ∃ r, reqTick s = .ok r := by
  obtain ⟨r, hr⟩ := reqList_ok s s.reqs h
  unfold reqTick; rw [hr]; obtain ⟨a, b⟩ := r; exact ⟨_, rfl⟩

/-- environment assumption made visible: on an empty success `details.GetItems()[0]` would panic -/
theorem reqTick_empty_answer_panics :
    reqTick { chain := .items 0, cur := 5, reqs := [⟨0, 3⟩] } = .panic := by decide

theorem deniedTick_total (s : State) (h : true ∉ s.msgs) : ∃ r, deniedTick s = .ok r := by
  unfold deniedTick; simp [h]

/-- download replies are decoded defensively: total, for every reply shape -/
theorem dlReply_total (r : DlReply) : dlReply r ≠ .panic := by
  unfold dlReply
  cases r.rd <;> simp
  split
  · simp
  · split
    · simp
    · split <;> simp

/-- …and a block is only accepted when it has the requested height (repair 8854790) -/
theorem dlReply_checks_height (r : DlReply) (h : Int) (hr : dlReply r = .ok (some h)) : h = r.requested := by
  unfold dlReply at hr
  split at hr
  · simp at hr
  · simp at hr
  · split at hr
    · simp at hr
    · split at hr
      · simp at hr
      · split at hr
        · simp at hr
        · rename_i hne
          simp at hr; subst hr
          exact Decidable.of_not_not hne

/-- the new download handler panics exactly when the blockchain module's reply is neither an error nor a
BlockDetails (unchecked type assertion at handler.go:37) — under HandlerWithClose's recover -/
theorem dlNewCore_panic_iff (c : ChainReply) (a b : Int) :
    dlNewCore c a b = .panic ↔ badRange a b = false ∧ c = .otherType := by
  unfold dlNewCore
  cases hb : badRange a b <;> simp
  cases c with
  | err => simp
  | otherType => simp
  | items n => cases n <;> simp

theorem dlNew_panic_iff (c : ChainReply) (rd : ReadRes) (a b : Int) :
    dlNew c rd a b = .panic ↔ c = .otherType ∧ (rd = .zero ∨ (rd = .msg ∧ badRange a b = false)) := by
  unfold dlNew
  cases rd with
  | err => simp
  | zero =>
    simp only [dlNewCore_panic_iff]
    have : badRange 0 0 = false := by decide
    simp [this]
  | msg => simp only [dlNewCore_panic_iff]; simp [and_comm]

theorem version_total (rd : ReadRes) (a b : Bool) : version rd a b ≠ .panic := by
  cases rd <;> cases a <;> cases b <;> decide

theorem peerInfo_total (o : Bool) (rd : ReadRes) : peerInfo o rd ≠ .panic := by
  unfold peerInfo; split <;> simp

/-- the old download handler dereferences `data.Message` unchecked and asserts the reply type unchecked: it
panics exactly on a request whose `Message` is absent (or whose stream header does not match — ReadStream then
returns nil with the zero message), or when the blockchain module's reply has another dynamic type; the panic is
caught by HandlerWithClose. -/
theorem dlOld_panic_iff (c : ChainReply) (rd : ReadRes) (hm : Bool) (a b : Int) :
    dlOld c rd hm a b = .panic ↔
      rd = .zero ∨ (rd = .msg ∧ (hm = false ∨ (badRange a b = false ∧ c = .otherType))) := by
  unfold dlOld
  cases rd <;> simp
  cases hm <;> simp
  cases hb : badRange a b <;> simp
  cases c with
  | err => simp
  | otherType => simp
  | items n => cases n <;> simp

/-- state invariant ⇒ every input is survived -/
theorem survives_of_inv (s : State) (i : Input) (h : Inv s) : nodeSurvives s i = true := by
  cases i with
  | lt i => simp [nodeSurvives, runInput, recovered]
  | pendTick =>
    obtain ⟨s', o, hr, _⟩ := tick_total s h
    simp [nodeSurvives, runInput, hr, Res.isPanic]
  | blockReq r => simp [nodeSurvives, runInput, recovered]
  | reqTick =>
    obtain ⟨r, hr⟩ := reqTick_total s h.2.2.1
    simp [nodeSurvives, runInput, hr, Res.isPanic]
  | blockResp d k => simp [nodeSurvives, runInput]
  | block k => simp [nodeSurvives, runInput]
  | deniedTick =>
    obtain ⟨r, hr⟩ := deniedTick_total s h.2.1
    simp [nodeSurvives, runInput, hr, Res.isPanic]
  | dlOld rd hm a b => simp [nodeSurvives, runInput, recovered]
  | dlNew rd a b => simp [nodeSurvives, runInput, recovered]
  | dlReply r =>
    have := dlReply_total r
    cases h : dlReply r <;> simp_all [nodeSurvives, runInput, Res.isPanic]
  | version rd a b => simp [nodeSurvives, runInput, recovered]
  | peerInfo o rd => simp [nodeSurvives, runInput, recovered]
  | peerInfoReply rd => cases rd <;> simp [nodeSurvives, runInput, queryInfo, Res.isPanic]
  | versionReply rd ab => cases rd <;> simp [nodeSurvives, runInput, queryVersion, Res.isPanic]
  | vBlock b => simp [nodeSurvives, runInput]
  | vTx _ _ _ => simp [nodeSurvives, runInput]
  | vBatch _ _ _ => simp [nodeSurvives, runInput]

/-- the one thing `node_survives` takes from the local mempool module: it answers EventTxListByHash with one entry
per requested hash (getTxListByHash appends one entry per hash). `txList.GetTxs()[i]` is not guarded, inside the
unrecovered pendBlockLoop: with a shorter reply the tick panics. `Reach` has no step that makes the reply short —
it is the assumption, made explicit. Replayed on the real code with a scripted short reply (no predicate failure:
not a peer input). -/
theorem short_mempool_reply_panics :
    (tick { pool := { short := true }, pend := [⟨"k", 1, 5, 0, ["a", "b"], [some 0, none]⟩] }).isPanic = true := by decide

/-- **Peer input can never crash the node** (model of the repaired code): in every state reachable by any
sequence of peer inputs, background ticks, pool updates and clock/chain progress, every further input —
including every tick of the three background loops — leaves the process alive. -/
theorem node_survives : FullStatement := fun s hs i => survives_of_inv s i (reach_inv hs)

/-- non-vacuity: the state of the former crash witness is reachable, and its tick is now survived with the
block still queued (the group that does not fit is not used) -/
example :
    let s0 : State := { pool := ({} : Pool).push "h1" ⟨1, []⟩ }
    let s1 := applyInput s0 (.lt ⟨"k", true, 10, 3, some 0, ["h0", "h1", "h20"], 2⟩)
    ((tick { s1 with pool := s1.pool.push "h20" ⟨20, [20, 21]⟩ }).map fun r => r.1.pend.map (·.txs)) =
      .ok [[some 0, some 1, none]] := by decide

/-- **Paths under a recover cannot kill the process**, whatever they do. -/
theorem recovered_paths (s : State) (i : Input) (h : recovered (runInput s i).1 = true) :
    nodeSurvives s i = true := by
  simp [nodeSurvives, h]

/-- which inputs run under a recover: every pubsub receive path and every stream handler; the three
background loops, the topic validators and the client-side reply decoding do not. -/
theorem recovered_table :
    [Path.recvLt, .recvReq, .recvResp, .dlOld, .dlNew, .version, .peerInfo].all recovered = true ∧
    [Path.pendTick, .reqTick, .deniedTick, .validate, .subMsgDecode, .dlReply].all (fun p => !recovered p) = true := by
  decide

/-- the receive path of a light block does panic on malformed input (`txCount = 0`, `txCount` above the
hash list, missing header, negative count) — all of it under the recover of handleBroadcastReceive, and
nothing of such a block is queued. -/
theorem recvLt_panics_exist :
    recvLt {} ⟨"k", true, 1, 0, some 0, ["h0"], 0⟩ = .panic ∧
    recvLt {} ⟨"k", true, 1, 3, some 0, ["h0", "h1"], 0⟩ = .panic ∧
    recvLt {} ⟨"k", false, 0, 0, none, [], 0⟩ = .panic ∧
    recvLt {} ⟨"k", true, 1, -1, some 0, ["h0"], 0⟩ = .panic := by decide

/-- a well-formed light block (header, `1 ≤ txCount ≤ 2^16`, at least `txCount` short hashes) is received
without any panic, whatever the pool holds -/
theorem recvLt_wellformed_total (s : State) (i : LtIn)
    (hh : i.hasHeader = true) (h1 : 1 ≤ i.txCount) (h2 : i.txCount ≤ bigSlice)
    (hl : i.txCount.toNat ≤ i.hashes.length) (hs : s.pool.short = false) :
    ∃ r, recvLt s i = .ok r := by
  unfold recvLt
  split
  · exact ⟨_, rfl⟩
  · have e1 : ¬ (i.txCount < 0) := by omega
    have e2 : ¬ (i.txCount > maxSlice) := by unfold maxSlice; unfold bigSlice at h2; omega
    have e3 : ¬ (i.txCount > bigSlice) := by omega
    have e4 : ¬ (i.txCount = 0) := by omega
    simp only [hh, e1, e2, e3, e4, Bool.not_true, Bool.false_eq_true, if_false]
    have hlen : (i.miner :: List.replicate (i.txCount.toNat - 1) none : Slots).length = i.txCount.toNat := by
      simp; omega
    have hc : PendOk ⟨i.key, i.sender, i.height, s.now, i.hashes, i.miner :: List.replicate (i.txCount.toNat - 1) none⟩ := by
      intro j hj
      have : j < (i.miner :: List.replicate (i.txCount.toNat - 1) none : Slots).length := by
        rcases Nat.lt_or_ge j (i.miner :: List.replicate (i.txCount.toNat - 1) none : Slots).length with h | h
        · exact h
        · rw [List.getElem?_eq_none h] at hj; simp at hj
      rw [hlen] at this
      simp only [Nat.zero_add]; omega
    obtain ⟨r, hr, _⟩ := build_total s.pool _ hc hs
    rw [hr]
    simp only
    split
    · split <;> exact ⟨_, rfl⟩
    · exact ⟨_, rfl⟩

/-! ### liveness half: no lock is left behind, every background loop can step -/

theorem postChain_held (s : State) (key : String) : (postChain s key).held = s.held := by
  unfold postChain; split <;> rfl

theorem foldl_postChain_held (l : List (Slots × Pend)) (s : State) :
    (l.foldl (fun st p => postChain st p.2.key) s).held = s.held := by
  induction l generalizing s with
  | nil => rfl
  | cons a l ih => simp only [List.foldl_cons]; rw [ih, postChain_held]

theorem recvLt_held (s s' : State) (i : LtIn) (o : LtOut) (hr : recvLt s i = .ok (s', o)) : s'.held = s.held := by
  unfold recvLt at hr
  split at hr
  · simp at hr; obtain ⟨rfl, _⟩ := hr; rfl
  · dsimp only at hr
    repeat' split at hr
    all_goals first
      | (simp at hr; done)
      | (simp at hr; obtain ⟨rfl, _⟩ := hr; first | rfl | exact postChain_held _ _)

theorem applyInput_held (s : State) (i : Input) : (applyInput s i).held = s.held := by
  cases i with
  | lt i =>
    simp only [applyInput, recvLtTotal, recvLtTotalWith]
    cases hr : recvLt s i with
    | panic => simp [addLtBlockRelease, Release.leaksOnPanic]
    | ok r => obtain ⟨s', o⟩ := r; exact recvLt_held s s' i o hr
  | pendTick =>
    simp only [applyInput]
    cases hr : tick s with
    | panic => rfl
    | ok r =>
      obtain ⟨s', o⟩ := r
      simp only
      unfold tick at hr
      split at hr
      · simp at hr
      · simp at hr; obtain ⟨rfl, _⟩ := hr; rw [foldl_postChain_held]
  | blockReq r =>
    simp only [applyInput]
    cases hr : recvReq s r with
    | panic => rfl
    | ok x =>
      obtain ⟨s', o⟩ := x
      simp only
      unfold recvReq at hr
      split at hr
      · simp at hr; obtain ⟨rfl, _⟩ := hr; rfl
      · split at hr
        all_goals first
          | (simp at hr; done)
          | (simp at hr; obtain ⟨rfl, _⟩ := hr; rfl)
  | reqTick =>
    simp only [applyInput]
    cases hr : reqTick s with
    | panic => rfl
    | ok x =>
      obtain ⟨s', o⟩ := x
      simp only
      unfold reqTick at hr
      split at hr
      · simp at hr
      · simp at hr; obtain ⟨rfl, _⟩ := hr; rfl
  | blockResp d k =>
    simp only [applyInput, recvResp]
    split
    · rfl
    · split <;> exact postChain_held s k
  | block k => exact postChain_held s k
  | deniedTick =>
    simp only [applyInput]
    cases hr : deniedTick s with
    | panic => rfl
    | ok s' =>
      simp only
      unfold deniedTick at hr
      split at hr
      · simp at hr
      · simp at hr; subst hr; rfl
  | dlOld _ _ _ _ => rfl
  | dlNew _ _ _ => rfl
  | dlReply _ => rfl
  | version _ _ _ => rfl
  | peerInfo _ _ => rfl
  | peerInfoReply _ => rfl
  | versionReply _ _ => rfl
  | vBlock b =>
    simp only [applyInput, validateBlock]
    repeat' split
    all_goals rfl
  | vTx sf d t =>
    simp only [applyInput, validateTx]
    repeat' split
    all_goals rfl
  | vBatch sf d txs =>
    simp only [applyInput, validateBatch]
    repeat' split
    all_goals rfl

theorem postChain_unans (s : State) (key : String) : (postChain s key).unanswered = s.unanswered := by
  unfold postChain; split <;> rfl

theorem foldl_postChain_unans (l : List (Slots × Pend)) (s : State) :
    (l.foldl (fun st p => postChain st p.2.key) s).unanswered = s.unanswered := by
  induction l generalizing s with
  | nil => rfl
  | cons a l ih => simp only [List.foldl_cons]; rw [ih, postChain_unans]

theorem recvLt_unans (s s' : State) (i : LtIn) (o : LtOut) (hr : recvLt s i = .ok (s', o)) : s'.unanswered = s.unanswered := by
  unfold recvLt at hr
  split at hr
  · simp at hr; obtain ⟨rfl, _⟩ := hr; rfl
  · dsimp only at hr
    repeat' split at hr
    all_goals first
      | (simp at hr; done)
      | (simp at hr; obtain ⟨rfl, _⟩ := hr; first | rfl | exact postChain_unans _ _)

theorem applyInput_unans (s : State) (i : Input) : (applyInput s i).unanswered = s.unanswered := by
  cases i with
  | lt i =>
    simp only [applyInput, recvLtTotal, recvLtTotalWith]
    cases hr : recvLt s i with
    | panic => simp [addLtBlockRelease, Release.leaksOnPanic]
    | ok r => obtain ⟨s', o⟩ := r; exact recvLt_unans s s' i o hr
  | pendTick =>
    simp only [applyInput]
    cases hr : tick s with
    | panic => rfl
    | ok r =>
      obtain ⟨s', o⟩ := r
      simp only
      unfold tick at hr
      split at hr
      · simp at hr
      · simp at hr; obtain ⟨rfl, _⟩ := hr; rw [foldl_postChain_unans]
  | blockReq r =>
    simp only [applyInput]
    cases hr : recvReq s r with
    | panic => rfl
    | ok x =>
      obtain ⟨s', o⟩ := x
      simp only
      unfold recvReq at hr
      split at hr
      · simp at hr; obtain ⟨rfl, _⟩ := hr; rfl
      · split at hr
        all_goals first
          | (simp at hr; done)
          | (simp at hr; obtain ⟨rfl, _⟩ := hr; rfl)
  | reqTick =>
    simp only [applyInput]
    cases hr : reqTick s with
    | panic => rfl
    | ok x =>
      obtain ⟨s', o⟩ := x
      simp only
      unfold reqTick at hr
      split at hr
      · simp at hr
      · simp at hr; obtain ⟨rfl, _⟩ := hr; rfl
  | blockResp d k =>
    simp only [applyInput, recvResp]
    split
    · rfl
    · split <;> exact postChain_unans s k
  | block k => exact postChain_unans s k
  | deniedTick =>
    simp only [applyInput]
    cases hr : deniedTick s with
    | panic => rfl
    | ok s' =>
      simp only
      unfold deniedTick at hr
      split at hr
      · simp at hr
      · simp at hr; subst hr; rfl
  | dlOld _ _ _ _ => rfl
  | dlNew _ _ _ => rfl
  | dlReply _ => rfl
  | version _ _ _ => rfl
  | peerInfo _ _ => rfl
  | peerInfoReply _ => rfl
  | versionReply _ _ => rfl
  | vBlock b =>
    simp only [applyInput, validateBlock]
    repeat' split
    all_goals rfl
  | vTx sf d t =>
    simp only [applyInput, validateTx]
    repeat' split
    all_goals rfl
  | vBatch sf d txs =>
    simp only [applyInput, validateBatch]
    repeat' split
    all_goals rfl

/-- **no peer input leaves a lock behind**: in every reachable state no mutex of the light-broadcast / validator
state is held (every function that takes one releases it by `defer`, and addLtBlock does not hold pdBlockLock
across buildPendBlock — facts `fact lock …` re-read from the source on every run) -/
theorem no_lock_left_behind {s : State} (h : Reach s) : s.held = [] := by
  induction h with
  | init m t => rfl
  | input i _ _ ih => rw [applyInput_held]; exact ih
  | pool _ _ _ ih => exact ih
  | poolDel _ _ ih => exact ih
  | poolUp _ _ ih => exact ih
  | env _ _ _ _ _ ih => exact ih

/-- **no peer input permanently stops a background loop**: after any input sequence pendBlockLoop,
blockRequestLoop and manageDeniedPeer can all take their lock and step (and by `node_survives` the step returns) -/
theorem loops_stay_alive {s : State} (h : Reach s) (l : LockId) : loopAlive s l = true := by
  simp [loopAlive, no_lock_left_behind h]

/-- **no peer input makes manageDeniedPeer wait for ever**: the loop waits without a timer for the verdict of every
broadcast it handed over; the count of verdicts that never come is not changed by any input, pool update or tick —
it can only become positive through the local blockchain module (which replies on every path, also after a panic),
i.e. outside what a peer controls. With `loops_stay_alive` (locks) and `node_survives` (each step returns) this is the
model's content of "permanently stop one of its background loops"; queue back-pressure and libp2p are runtime. -/
theorem denied_loop_never_blocked_by_peer {s : State} (h : Reach s) : deniedLoopBlocked s = false := by
  have : s.unanswered = 0 := by
    induction h with
    | init m t => rfl
    | input i _ _ ih => rw [applyInput_unans]; exact ih
    | pool _ _ _ ih => exact ih
    | poolDel _ _ ih => exact ih
    | poolUp _ _ ih => exact ih
    | env _ _ _ _ _ ih => exact ih
  simp [deniedLoopBlocked, this]

/-- the assumption made visible: one verdict that never comes blocks the loop -/
example : deniedLoopBlocked { unanswered := 1 } = true := by decide

/-- why the discipline matters: were pdBlockLock held around buildPendBlock and given back by an explicit Unlock,
ONE light block whose txCount exceeds its hash list (recovered panic) would leave it locked — pendBlockLoop could
never step again -/
theorem explicit_unlock_would_wedge :
    loopAlive (recvLtTotalWith .explicitAcrossCalls {} ⟨"k", true, 1, 4, some 0, ["h0", "h1"], 0⟩).1 .pend = false ∧
    loopAlive (recvLtTotalWith .deferred {} ⟨"k", true, 1, 4, some 0, ["h0", "h1"], 0⟩).1 .pend = true := by decide

/-! ### regression witnesses: the code before the repairs -/

/-- before fdde6e4: the queued block of the witness made buildPendBlock index past `len(Txs)` inside
pendBlockLoop once the group had reached the pool -/
theorem old_pend_tick_panicked : witnessPendTickOld = true := by decide

/-- before e49ca2c: with two p2p types the duplicate block response queued a nil message and the next
manageDeniedPeer tick dereferenced it -/
theorem old_denied_tick_panicked : witnessDeniedTickOld = .panic := by decide

/-- the same two inputs on the repaired code -/
theorem witnesses_survive :
    survives .pendTick witnessPendTick = true ∧ survives .deniedTick witnessDeniedTick = true := by decide

end C33
