import Chain33Model.Proofs.C34
/-!
C34 — Light blocks are rebuilt exactly or fall back.  Property theorems only.

The model is the light-block part of `Model/C33.lean` (addLtBlock / buildPendBlock / buildPendList /
the tick of pendBlockLoop, the pool as the short-hash map of mempool.SHashTxCache).  A block is its miner
transaction followed by *segments*: a single transaction, or a transaction group (head first); the mempool
indexes a segment under the short hash of its head, a group head carrying all members.
-/
namespace C34
open C33

/-- the light block `buildLtBlock` makes from the block `miner :: segs.flatten` -/
def honest (sh : TxId → SH) (key : String) (height : Int) (miner : TxId) (segs : List (List TxId)) (sender : Nat) : LtIn :=
  ⟨key, true, height, ((1 + segs.flatten.length : Nat) : Int), some miner, (miner :: segs.flatten).map sh, sender⟩

/-- **rebuild_exact**: when every transaction of the block is available in the pool (`Available`: the short
hash of each segment head retrieves that head, with its group), the light block is rebuilt at once and what
is handed to the blockchain module is the original transaction list — same transactions, same positions
(hence the same merkle root and, the header being copied, the same block hash). -/
theorem rebuild_exact (s : State) (sh : TxId → SH) (key : String) (height : Int) (miner : TxId)
    (segs : List (List TxId)) (sender : Nat)
    (hnew : s.seen.contains key = false) (hup : s.pool.up = true) (hshort : s.pool.short = false)
    (hav : Available s.pool sh segs)
    (hsize : ((1 + segs.flatten.length : Nat) : Int) ≤ bigSlice) :
    recvLt s (honest sh key height miner segs sender) =
      .ok (postChain { s with seen := key :: s.seen } key, .posted ((miner :: segs.flatten).map some)) := by
  have hm := missing_replicate ((miner :: segs.flatten).map sh) [sh miner] (segs.flatten.map sh) [] (by simp)
  have hf := fill_segments s.pool sh segs hav [some miner] true
  simp only [List.length_map, List.length_cons, List.length_nil, Nat.zero_add] at hm hf
  unfold honest
  generalize segs.flatten = flat at hm hf hsize ⊢
  have e1 : ¬ (((1 + flat.length : Nat) : Int) < 0) := by omega
  have e2 : ¬ (((1 + flat.length : Nat) : Int) > maxSlice) := by
    unfold maxSlice; unfold bigSlice at hsize; omega
  have e3 : ¬ (((1 + flat.length : Nat) : Int) > bigSlice) := by omega
  have e4 : ¬ (((1 + flat.length : Nat) : Int) = 0) := by omega
  have e5 : (((1 + flat.length : Nat) : Int)).toNat - 1 = flat.length := by
    rw [Int.toNat_natCast]; omega
  have hmiss : missing (List.map sh (miner :: flat)) (some miner :: List.replicate flat.length none) 0 =
      .ok (enumWork 1 (List.map sh flat)) := by
    simp only [missing]; exact hm
  have hne : (List.map sh (miner :: flat)).isEmpty = false := by simp
  unfold recvLt
  simp only [hnew, Bool.false_eq_true, if_false, Bool.not_true, e1, e2, e3, e4, e5]
  unfold build
  simp only [hne, Bool.false_eq_true, if_false, hmiss, hup, Bool.not_true, hshort, Bool.false_and]
  have hf' : fill s.pool (enumWork 1 (List.map sh flat)) (some miner :: List.replicate flat.length none) true =
      .ok (some miner :: List.map some flat, true) := by simpa using hf
  rw [hf']
  simp

/-- the named hypothesis of the property text: *all transactions available and the short hashes of pool ∪
block pairwise distinct* gives `Available` — the pool obtained by pushing the block's segments into a pool
that holds none of their short hashes. (A colliding pool entry pushed earlier would win and be spliced in.) -/
theorem available_when_distinct (sh : TxId → SH) (segs : List (List TxId)) (p : Pool)
    (hne : ∀ seg ∈ segs, seg ≠ []) (hdist : ((heads segs).map sh).Nodup)
    (hfree : ∀ t ∈ heads segs, p.get (sh t) = none) :
    Available (pushAll sh p segs) sh segs :=
  available_of_pushes sh segs p hne hdist hfree

/-- non-vacuity: a block with a group of three in the middle and a group of two at the end, pool filled by
pushes, distinct short hashes: rebuilt exactly. -/
example :
    (recvLt { pool := pushAll (fun t => s!"h{t}") {} [[1], [2, 3, 4], [5], [6, 7]] }
      (honest (fun t => s!"h{t}") "k" 9 0 [[1], [2, 3, 4], [5], [6, 7]] 3)).map (·.2) =
    .ok (.posted [some 0, some 1, some 2, some 3, some 4, some 5, some 6, some 7]) := by decide

/-- the hypothesis matters: with a colliding entry indexed first under the short hash of transaction 1 the
other transaction is spliced in (the block is then rejected downstream by its merkle root) -/
example :
    (recvLt { pool := pushAll (fun t => s!"h{t}") (({} : Pool).push "h1" ⟨99, []⟩) [[1], [2, 3]] }
      (honest (fun t => s!"h{t}") "k" 9 0 [[1], [2, 3]] 3)).map (·.2) =
    .ok (.posted [some 0, some 99, some 2, some 3]) := by decide

/-- **rebuild_or_wait**: with some segments in the pool and some not (none of the short hashes of an absent
segment is in the pool), the receive path posts the exact original block iff every segment is available;
otherwise nothing is posted and the block is queued holding exactly the available transactions, in place. -/
theorem rebuild_or_wait (s : State) (sh : TxId → SH) (key : String) (height : Int) (miner : TxId)
    (marks : List Marked) (sender : Nat)
    (hnew : s.seen.contains key = false) (hup : s.pool.up = true) (hshort : s.pool.short = false)
    (hok : ∀ m ∈ marks, SegOk s.pool sh m)
    (hsize : ((1 + (flatOf marks).length : Nat) : Int) ≤ bigSlice) :
    recvLt s (honest sh key height miner (marks.map (·.1)) sender) =
      if marks.all (·.2) then
        .ok (postChain { s with seen := key :: s.seen } key, .posted ((miner :: flatOf marks).map some))
      else
        .ok ({ s with seen := key :: s.seen,
                      pend := s.pend ++ [⟨key, sender, height, s.now, (miner :: flatOf marks).map sh,
                                           some miner :: (marks.map segSlots).flatten⟩] }, .queued) := by
  have hm := missing_replicate ((miner :: flatOf marks).map sh) [sh miner] ((flatOf marks).map sh) [] (by simp)
  have hf := fill_mixed s.pool sh marks hok [some miner] true
  simp only [List.length_map, List.length_cons, List.length_nil, Nat.zero_add] at hm hf
  unfold honest
  have hflat : (marks.map (·.1)).flatten = flatOf marks := rfl
  rw [hflat]
  have hs := segSlots_all marks
  generalize flatOf marks = flat at hm hf hsize hs ⊢
  have e1 : ¬ (((1 + flat.length : Nat) : Int) < 0) := by omega
  have e2 : ¬ (((1 + flat.length : Nat) : Int) > maxSlice) := by
    unfold maxSlice; unfold bigSlice at hsize; omega
  have e3 : ¬ (((1 + flat.length : Nat) : Int) > bigSlice) := by omega
  have e4 : ¬ (((1 + flat.length : Nat) : Int) = 0) := by omega
  have e5 : (((1 + flat.length : Nat) : Int)).toNat - 1 = flat.length := by
    rw [Int.toNat_natCast]; omega
  have hmiss : missing (List.map sh (miner :: flat)) (some miner :: List.replicate flat.length none) 0 =
      .ok (enumWork 1 (List.map sh flat)) := by
    simp only [missing]; exact hm
  have hne : (List.map sh (miner :: flat)).isEmpty = false := by simp
  unfold recvLt
  simp only [hnew, Bool.false_eq_true, if_false, Bool.not_true, e1, e2, e3, e4, e5]
  unfold build
  simp only [hne, Bool.false_eq_true, if_false, hmiss, hup, Bool.not_true, hshort, Bool.false_and]
  have hf' : fill s.pool (enumWork 1 (List.map sh flat)) (some miner :: List.replicate flat.length none) true =
      .ok (some miner :: (marks.map segSlots).flatten, marks.all (·.2)) := by simpa using hf
  rw [hf']
  simp only
  cases hall : marks.all (·.2) with
  | true =>
    simp [hs hall]
  | false => simp

/-- non-vacuity of `rebuild_or_wait`: transaction 1 pooled, the group [2,3] not -/
example : ∀ m ∈ [(([1] : List TxId), true), ([2, 3], false)],
    SegOk (pushAll (fun t => s!"h{t}") {} [[1]]) (fun t => s!"h{t}") m := by
  intro m hm
  simp only [List.mem_cons, List.mem_nil_iff, or_false] at hm
  rcases hm with rfl | rfl
  · simp only [SegOk, if_true]; exact ⟨1, [], rfl, by decide⟩
  · simp only [SegOk, Bool.false_eq_true, if_false]
    refine ⟨by simp, ?_⟩
    intro t ht
    simp only [List.mem_cons, List.mem_nil_iff, or_false] at ht
    rcases ht with rfl | rfl <;> decide

/-- **exactness after late arrival** ("waits until they arrive"): take the block that `rebuild_or_wait` queued — the
available segments filled in place, the others empty — and any later pool in which every segment head is
retrievable (the missing transactions have arrived; the pool may have changed arbitrarily otherwise). A rebuild
attempt then completes it to exactly the original transaction list, in the original positions. -/
theorem late_arrival_rebuilds_exact (pool' : Pool) (sh : TxId → SH) (key : String) (sender : Nat) (height recvT : Int)
    (miner : TxId) (marks : List Marked)
    (hup : pool'.up = true) (hshort : pool'.short = false) (hav : Available pool' sh (marks.map (·.1))) :
    build pool' ⟨key, sender, height, recvT, (miner :: flatOf marks).map sh, some miner :: (marks.map segSlots).flatten⟩ =
      .ok ⟨true, some ((miner :: flatOf marks).map some),
           ⟨key, sender, height, recvT, (miner :: flatOf marks).map sh, (miner :: flatOf marks).map some⟩⟩ := by
  have hm := missing_marks sh ((miner :: flatOf marks).map sh) marks [sh miner] [] (by simp)
  have hf := fill_marks pool' sh marks hav [some miner] [] [] true
  simp only [List.length_cons, List.length_nil, Nat.zero_add, List.append_nil] at hm hf
  have hmiss : missing ((miner :: flatOf marks).map sh) (some miner :: (marks.map segSlots).flatten) 0 =
      .ok (workOf sh marks 1) := by
    simp only [missing]; exact hm
  have hne : ((miner :: flatOf marks).map sh).isEmpty = false := by simp
  unfold build
  simp only [hne, Bool.false_eq_true, if_false, hmiss, hup, Bool.not_true, hshort, Bool.false_and]
  have hf' : fill pool' (workOf sh marks 1) (some miner :: (marks.map segSlots).flatten) true =
      .ok (some miner :: (flatOf marks).map some, true) := by
    have := hf
    simp only [List.cons_append, List.nil_append, fill] at this
    exact this
  rw [hf']
  simp

/-- …and the tick posts it: a queued block completed by late arrivals is posted exactly, at whatever time the
pass runs (`complete_pool_rebuilds_at_any_time` below gives the membership for an arbitrary queue). -/
theorem late_arrival_posted_exact (s : State) (sh : TxId → SH) (key : String) (sender : Nat) (height recvT : Int)
    (miner : TxId) (marks : List Marked)
    (hup : s.pool.up = true) (hshort : s.pool.short = false) (hav : Available s.pool sh (marks.map (·.1)))
    (hq : s.pend = [⟨key, sender, height, recvT, (miner :: flatOf marks).map sh, some miner :: (marks.map segSlots).flatten⟩]) :
    (tick s).map (fun r => (r.2, r.1.pend)) = .ok (⟨[(miner :: flatOf marks).map some], []⟩, []) := by
  have hb := late_arrival_rebuilds_exact s.pool sh key sender height recvT miner marks hup hshort hav
  unfold tick
  rw [hq]
  simp only [pendList, hb]
  simp [Res.map, postChain_pend]

/-! ### missing transactions: wait, then fall back -/

/-- **missing_waits**: while a queued block cannot be completed (`build` not done) and its pending time is
below the timeout, a tick keeps it queued (with whatever could be filled), posts nothing for it and sends
no request for it. -/
theorem missing_waits (s : State) (pd : Pend) (hpd : pd ∈ s.pend) (r : BuildOut)
    (hb : build s.pool pd = .ok r) (hnd : r.done = false) (hearly : s.now - pd.recvT < s.timeout)
    (s' : State) (o : TickOut) (ht : tick s = .ok (s', o)) :
    r.pd ∈ s'.pend := by
  unfold tick at ht
  split at ht
  · simp at ht
  · rename_i keep posted tmo hl
    obtain ⟨r', hr', _, h2, _⟩ := pendList_mem s.pool s.now s.timeout s.pend keep posted tmo hl pd hpd
    rw [hb] at hr'
    simp at hr'; subst hr'
    simp only [Res.ok.injEq, Prod.mk.injEq] at ht
    obtain ⟨rfl, _⟩ := ht
    have hk := h2 hnd hearly
    -- posting rebuilt blocks only touches msgs/posted, not the pending list
    have hpend : ∀ (l : List (Slots × Pend)) (st : State), (l.foldl (fun st p => postChain st p.2.key) st).pend = st.pend := by
      intro l
      induction l with
      | nil => intro st; rfl
      | cons a l ih => intro st; simp only [List.foldl_cons]; rw [ih]; unfold postChain; split <;> rfl
    rw [hpend]
    exact hk

/-- **timeout_requests_full**: once the pending time reaches the timeout and the block still cannot be
completed, the tick takes it off the list and, if its height is above the current height, publishes a
block request for that height to the peer the light block came from. -/
theorem timeout_requests_full (s : State) (pd : Pend) (hpd : pd ∈ s.pend) (r : BuildOut)
    (hb : build s.pool pd = .ok r) (hnd : r.done = false) (hlate : s.now - pd.recvT ≥ s.timeout)
    (hh : pd.height > s.cur)
    (s' : State) (o : TickOut) (ht : tick s = .ok (s', o)) :
    (⟨pd.sender, pd.height⟩ : BlockReq) ∈ o.reqs := by
  unfold tick at ht
  split at ht
  · simp at ht
  · rename_i keep posted tmo hl
    obtain ⟨r', hr', h1, _, _⟩ := pendList_mem s.pool s.now s.timeout s.pend keep posted tmo hl pd hpd
    rw [hb] at hr'
    simp at hr'; subst hr'
    simp only [Res.ok.injEq, Prod.mk.injEq] at ht
    obtain ⟨_, rfl⟩ := ht
    have hm := build_meta s.pool pd r hb
    have hk := h1 hnd hlate
    simp only [List.mem_map, List.mem_filter]
    exact ⟨r.pd, ⟨hk, by simp [hm.2.1]; exact hh⟩, by simp [hm.1, hm.2.1]⟩

/-- **rebuild first, then the timeout**: at a pass of the loop at which the pool completes a queued block, the
block is rebuilt and posted *whatever its pending time* — also when the timeout has long passed because the
loop was late. -/
theorem complete_pool_rebuilds_at_any_time (s : State) (pd : Pend) (hpd : pd ∈ s.pend) (r : BuildOut) (t : Slots)
    (hb : build s.pool pd = .ok r) (hd : r.done = true) (hp : r.posted = some t)
    (s' : State) (o : TickOut) (ht : tick s = .ok (s', o)) : t ∈ o.posted := by
  unfold tick at ht
  split at ht
  · simp at ht
  · rename_i keep posted tmo hl
    obtain ⟨r', hr', _, _, h3⟩ := pendList_mem s.pool s.now s.timeout s.pend keep posted tmo hl pd hpd
    rw [hb] at hr'
    simp at hr'; subst hr'
    simp only [Res.ok.injEq, Prod.mk.injEq] at ht
    obtain ⟨_, rfl⟩ := ht
    simp only [List.mem_map]
    exact ⟨(t, r.pd), h3 t hd hp, rfl⟩

/-- **the timeout only applies when the rebuild failed at that pass**: every full-block request a pass sends is
for a queued block that could not be completed at this pass and whose pending time has reached the timeout. -/
theorem request_only_after_failed_rebuild (s : State) (s' : State) (o : TickOut) (ht : tick s = .ok (s', o))
    (q : BlockReq) (hq : q ∈ o.reqs) :
    ∃ pd ∈ s.pend, ∃ r, build s.pool pd = .ok r ∧ r.done = false ∧ s.now - pd.recvT ≥ s.timeout ∧
      q = ⟨pd.sender, pd.height⟩ := by
  unfold tick at ht
  split at ht
  · simp at ht
  · rename_i keep posted tmo hl
    simp only [Res.ok.injEq, Prod.mk.injEq] at ht
    obtain ⟨_, rfl⟩ := ht
    simp only [List.mem_map, List.mem_filter] at hq
    obtain ⟨x, ⟨hx, _⟩, rfl⟩ := hq
    obtain ⟨pd, hpd, r, h1, h2, h3, rfl⟩ := pendList_tmo_origin s.pool s.now s.timeout s.pend keep posted tmo hl x hx
    have hm := build_meta s.pool pd r h1
    exact ⟨pd, hpd, r, h1, h2, h3, by simp [hm.1, hm.2.1]⟩

/-- non-vacuity: the missing transaction arrives before the timeout, the next pass runs only after it — rebuilt, no request -/
example :
    let sh := fun (t : TxId) => s!"h{t}"
    let s0 : State := { pool := pushAll sh {} [[1]], cur := 5 }
    let s1 := (recvLtTotal s0 (honest sh "k" 9 0 [[1], [2]] 3)).1
    ((tick { s1 with now := 5000, pool := pushAll sh s1.pool [[2]] }).map fun r => (r.2.posted, r.2.reqs, r.1.pend.length)) =
      .ok ([[some 0, some 1, some 2]], [], 0) := by decide

/-- **missing_waits, all conjuncts** for a queue holding one block: while it cannot be completed and its pending
time is below the timeout, the pass keeps it (with what could be filled), posts nothing and requests nothing. -/
theorem missing_waits_exact (s : State) (pd : Pend) (r : BuildOut) (hq : s.pend = [pd])
    (hb : build s.pool pd = .ok r) (hnd : r.done = false) (hearly : s.now - pd.recvT < s.timeout) :
    (tick s).map (fun x => (x.2, x.1.pend)) = .ok (⟨[], []⟩, [r.pd]) := by
  unfold tick
  rw [hq]
  have : ¬ (s.now - pd.recvT ≥ s.timeout) := by omega
  simp [pendList, hb, hnd, this, Res.map]

/-- **timeout_requests_full, all conjuncts** for a queue holding one block: when it still cannot be completed at a
pass at or after the timeout it is taken off the queue, nothing is posted, and exactly one block request goes to its
sender if its height is above the current one — none otherwise. -/
theorem timeout_exact (s : State) (pd : Pend) (r : BuildOut) (hq : s.pend = [pd])
    (hb : build s.pool pd = .ok r) (hnd : r.done = false) (hlate : s.now - pd.recvT ≥ s.timeout) :
    (tick s).map (fun x => (x.2, x.1.pend)) =
      .ok (⟨[], if pd.height > s.cur then [⟨pd.sender, pd.height⟩] else []⟩, []) := by
  have hm := build_meta s.pool pd r hb
  unfold tick
  rw [hq]
  simp only [pendList, hb, hnd, Bool.false_eq_true, if_false, hlate, if_true]
  by_cases hh : pd.height > s.cur
  · simp [Res.map, hh, hm.1, hm.2.1]
  · simp [Res.map, hh, hm.2.1]

/-- the request goes out only for heights above the current one (`只请求大于本地高度的区块`) -/
theorem no_request_for_old_height (s : State) (s' : State) (o : TickOut) (ht : tick s = .ok (s', o))
    (q : BlockReq) (hq : q ∈ o.reqs) : q.height > s.cur := by
  unfold tick at ht
  split at ht
  · simp at ht
  · simp only [Res.ok.injEq, Prod.mk.injEq] at ht
    obtain ⟨_, rfl⟩ := ht
    simp only [List.mem_map, List.mem_filter] at hq
    obtain ⟨pd, ⟨_, hgt⟩, rfl⟩ := hq
    simpa using hgt

/-- non-vacuity of the two theorems: a block missing transaction 2 waits at t=500 and is given up, with a
request to sender 3, at t=1000 (timeout 1000, height 9 above current 5) -/
example :
    let s0 : State := { pool := pushAll (fun t => s!"h{t}") {} [[1]], cur := 5 }
    let s1 := (recvLtTotal s0 (honest (fun t => s!"h{t}") "k" 9 0 [[1], [2]] 3)).1
    ((tick { s1 with now := 500 }).map fun r => (r.1.pend.map (·.txs), r.2.reqs)) = .ok ([[some 0, some 1, none]], []) ∧
    ((tick { s1 with now := 1000 }).map fun r => (r.1.pend.map (·.txs), r.2.reqs)) = .ok ([], [⟨3, 9⟩]) := by decide

/-- late arrival before the timeout: the next tick rebuilds the block exactly -/
example :
    let sh := fun (t : TxId) => s!"h{t}"
    let s0 : State := { pool := pushAll sh {} [[1]], cur := 5 }
    let s1 := (recvLtTotal s0 (honest sh "k" 9 0 [[1], [2, 3]] 3)).1
    ((tick { s1 with now := 500, pool := pushAll sh s1.pool [[2, 3]] }).map fun r => (r.2.posted, r.1.pend.length)) =
      .ok ([[some 0, some 1, some 2, some 3]], 0) := by decide

end C34
