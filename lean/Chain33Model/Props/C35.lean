import Chain33Model.Proofs.C35
/-!
C35 — Block download delivers every servable height.  Property theorems only.

`Model/C35.lean` (code after the repairs eac7298 / 8854790 / 1a43c8d): one worker per height, labels = the
two atomic sections of `downloadBlock` (`pick`: ReDownload…availbTask, `ret`: fetch returned…releaseJob/drop);
every worker owns its list, only the TaskNum counters are shared.  A schedule is a list of labels, so a
theorem over `run`/`Reach` covers every interleaving.  `C35.Old` is the model of the code before the
repairs; the regression witnesses at the end are stated over it.
-/
namespace C35

/-- states reachable from one download event by any interleaving of worker steps and any peer replies -/
inductive Reach : State → Prop where
  | init (n : Nat) (hs : List Int) : Reach (init n hs)
  | step {s s' : State} {l : Label} {o : Out} : Reach s → step s l = some (s', o) → Reach s'

theorem reach_inv {s : State} (h : Reach s) : Inv s := by
  induction h with
  | init n hs => exact inv_init n hs
  | step _ hs ih => exact (step_decreases _ _ _ _ ih hs).1

/-- **Every task terminates**: whatever the peers answer and however the workers interleave, a download
event for `k` heights performs at most `104·k` worker steps — each worker tries at most 50 times; and every
fetch returns, because the reply stream carries a deadline (`fetch_has_deadline`, observed on the
implementation by the harness). -/
theorem worker_terminates (n : Nat) (hs : List Int) (ls : List Label) (s' : State) (outs : List Out)
    (h : run (init n hs) ls = some (s', outs)) : ls.length ≤ 104 * hs.length := by
  have := run_length _ _ _ _ (inv_init n hs) h
  rw [phi_init] at this
  omega

theorem fetch_has_deadline : fetchHasDeadline = true := rfl

/-- a running worker never exceeds 50 tries, in any reachable state -/
theorem retry_bounded {s : State} (h : Reach s) (wk : Worker) (hw : wk ∈ s.workers)
    (hp : wk.phase = .ready ∨ ∃ p, wk.phase = .fetching p) : wk.retry ≤ 50 :=
  (reach_inv h wk hw).tries hp

/-- non-vacuity: a three-height event against two peers runs to completion in 8 steps -/
example : (run (init 2 [5, 6, 7]) [.pick 0, .pick 1, .pick 2, .ret 0 (some 5), .ret 1 none, .pick 1, .ret 1 (some 6),
    .ret 2 (some 7)]).map (·.2) =
    some [.ask 0, .ask 0, .ask 0, .delivered 5, .retry, .ask 1, .delivered 6, .delivered 7] := by decide

/-- **a peer that failed a height is not asked for it again**, as stated: in every reachable state of every
interleaving no worker has asked the same peer twice -/
def NoReaskStatement : Prop := ∀ s, Reach s → ∀ wk ∈ s.workers, wk.asked.Nodup

theorem concurrent_no_reask : NoReaskStatement :=
  fun _ hs wk hw => (reach_inv hs wk hw).askedNodup

/-- …and the peers already asked and failed are no longer in the worker's list -/
theorem failed_peers_dropped {s : State} (h : Reach s) (wk : Worker) (hw : wk ∈ s.workers) (hr : wk.phase = .ready)
    (q : Nat) (hq : q ∈ wk.asked) : q ∉ wk.view := by
  intro hv
  rcases (reach_inv h wk hw).askedGone q hq hv with h1 | ⟨_, h1⟩ <;> rw [hr] at h1 <;> simp at h1

/-- **only a block of the requested height is delivered**, in every interleaving -/
theorem delivered_right_height {s : State} (h : Reach s) (wk : Worker) (hw : wk ∈ s.workers) (p : Nat) (ht : Int)
    (hd : wk.phase = .delivered p ht) : ht = wk.height :=
  (reach_inv h wk hw).rightHeight p ht hd

/-- the former wrong-height input is now a failed fetch: the peer is dropped and the next one asked -/
example : (run (init 2 [7]) [.pick 0, .ret 0 (some 107), .pick 0, .ret 0 (some 7)]).map (·.2) =
    some [.ask 0, .retry, .ask 1, .delivered 7] := by decide

/-! ### runs in which the peers answer according to a behaviour -/

/-- reachable when every fetch from peer p for height h returns `beh p h` -/
inductive ReachB (beh : Behaviour) : State → Prop where
  | init (n : Nat) (hs : List Int) : ReachB beh (init n hs)
  | pick {s s' : State} {w : Nat} {o : Out} : ReachB beh s → step s (.pick w) = some (s', o) → ReachB beh s'
  | ret {s s' : State} {w : Nat} {wk : Worker} {p : Nat} {o : Out} : ReachB beh s → s.workers[w]? = some wk →
      wk.phase = .fetching p → step s (.ret w (beh p wk.height)) = some (s', o) → ReachB beh s'

/-- a peer that serves a worker's height is never dropped from that worker's list; "no peer" means the list is empty -/
def GoodStays (beh : Behaviour) (s : State) : Prop :=
  ∀ wk ∈ s.workers, (∀ g ∈ s.arr, beh g wk.height = some wk.height → g ∈ wk.view) ∧ (wk.phase = .noPeer → wk.view = [])

theorem goodStays_set (beh : Behaviour) (s : State) (w : Nat) (x : Worker) (arr : List Nat) (ha : arr = s.arr)
    (h : GoodStays beh s)
    (hx : (∀ g ∈ s.arr, beh g x.height = some x.height → g ∈ x.view) ∧ (x.phase = .noPeer → x.view = [])) :
    ∀ wk ∈ setWorker s.workers w x, (∀ g ∈ arr, beh g wk.height = some wk.height → g ∈ wk.view) ∧ (wk.phase = .noPeer → wk.view = []) := by
  intro wk hwk
  subst ha
  rcases List.mem_or_eq_of_mem_set hwk with h1 | h1
  · exact h wk h1
  · subst h1; exact hx

theorem reachB_good {beh : Behaviour} {s : State} (h : ReachB beh s) : GoodStays beh s := by
  induction h with
  | init n hs =>
    intro wk hwk
    simp [init] at hwk
    obtain ⟨h, _, rfl⟩ := hwk
    exact ⟨by intro g hg _; simpa [init] using hg, by intro hc; simp at hc⟩
  | @pick s s' w o _ hs ih =>
    simp only [step] at hs
    split at hs
    · simp at hs
    · rename_i wk hw
      have hwk := ih wk (List.mem_of_getElem? hw)
      split at hs
      · simp at hs
      · split at hs
        · rename_i hlen
          simp only [Option.some.injEq, Prod.mk.injEq] at hs
          obtain ⟨rfl, _⟩ := hs
          exact goodStays_set beh s w _ _ rfl ih ⟨hwk.1, fun _ => List.eq_nil_of_length_eq_zero hlen⟩
        · split at hs
          · simp only [Option.some.injEq, Prod.mk.injEq] at hs
            obtain ⟨rfl, _⟩ := hs
            exact goodStays_set beh s w _ _ rfl ih ⟨hwk.1, by intro hc; simp at hc⟩
          · split at hs
            · simp only [Option.some.injEq, Prod.mk.injEq] at hs
              obtain ⟨rfl, _⟩ := hs
              exact goodStays_set beh s w _ _ rfl ih ⟨hwk.1, hwk.2⟩
            · simp only [Option.some.injEq, Prod.mk.injEq] at hs
              obtain ⟨rfl, _⟩ := hs
              exact goodStays_set beh s w _ _ rfl ih ⟨hwk.1, by intro hc; simp at hc⟩
  | @ret s s' w wk p o _ hw hph hs ih =>
    have hwk := ih wk (List.mem_of_getElem? hw)
    simp only [step, hw, hph] at hs
    split at hs
    · simp only [Option.some.injEq, Prod.mk.injEq] at hs
      obtain ⟨rfl, _⟩ := hs
      exact goodStays_set beh s w _ _ rfl ih ⟨hwk.1, by intro hc; simp at hc⟩
    · rename_i hne
      simp only [Option.some.injEq, Prod.mk.injEq] at hs
      obtain ⟨rfl, _⟩ := hs
      refine goodStays_set beh s w _ _ rfl ih ⟨?_, by intro hc; simp at hc⟩
      intro g hg hb
      have hgp : g ≠ p := by intro e; subst e; exact hne hb
      exact (List.mem_erase_of_ne hgp).mpr (hwk.1 g hg hb)

/-- **a servable height never ends with "no peer"**, in any interleaving: the serving peer stays in the worker's
own list until it is asked (before the repair another worker's `Remove` could take it away) -/
theorem servable_never_no_peer {beh : Behaviour} {s : State} (h : ReachB beh s) (wk : Worker) (hw : wk ∈ s.workers)
    (g : Nat) (hg : g ∈ s.arr) (hb : beh g wk.height = some wk.height) : wk.phase ≠ .noPeer := by
  intro hc
  have := reachB_good h wk hw
  have hv := this.1 g hg hb
  rw [this.2 hc] at hv
  simp at hv

/-! ### one worker alone: the re-download pass of `checkTask`, or a one-height request -/

/-- **seq_delivers**: a single worker whose list is `pre ++ p :: post`, where no peer of `pre` answers with the
requested height, `p` does, and fewer than 50 peers come before `p`, delivers that height from `p`; it has
asked exactly `pre` and then `p`, each once, in list order. -/
theorem seq_delivers (beh : Behaviour) (s : State) (wk : Worker) (pre : List Nat) (p : Nat) (post : List Nat)
    (fuel : Nat) (hA : Alone s wk) (hv : wk.view = pre ++ p :: post)
    (hfail : ∀ q ∈ pre, beh q wk.height ≠ some wk.height) (hok : beh p wk.height = some wk.height)
    (hlt : wk.retry + pre.length < 50) (hf : 2 * pre.length + 2 ≤ fuel) :
    ∃ wk', (runAlone beh fuel s).workers = [wk'] ∧ wk'.phase = .delivered p wk.height ∧
      wk'.asked = p :: (pre.reverse ++ wk.asked) ∧ wk'.height = wk.height :=
  alone_delivers beh pre s wk p post fuel hA hv hfail hok hlt hf

/-- **delivery as stated** (the pass that `checkTask` runs for every height the concurrent pass left over, and
any one-height request): with at most 50 peers, one of which serves the height, the height is delivered -/
def DeliversStatement : Prop :=
  ∀ (n : Nat) (beh : Behaviour) (h : Int) (p : Nat), n ≤ 50 → h ≤ 1000000 → p < n → beh p h = some h →
    ∀ fuel ≥ 2 * n + 2, ∀ wk ∈ (runAlone beh fuel (init n [h])).workers, ∃ q, wk.phase = .delivered q h

theorem delivers : DeliversStatement := by
  intro n beh h p hn hh hp hb fuel hf wk hwk
  have hex : ∃ x ∈ List.range n, beh x h = some h := ⟨p, by simpa using hp, hb⟩
  obtain ⟨pre, x, post, hsplit, hpre, hx⟩ := first_split (fun x => beh x h = some h) (List.range n) hex
  have hlen : pre.length < n := by
    have := congrArg List.length hsplit
    simp at this; omega
  have hA : Alone (init n [h]) { height := h, view := List.range n } :=
    ⟨rfl, rfl, fun _ => rfl, fun _ => by simpa [init] using hh⟩
  obtain ⟨wk', h1, h2, _, _⟩ := seq_delivers beh (init n [h]) _ pre x post fuel hA hsplit hpre hx
    (by simp; omega) (by omega)
  rw [h1] at hwk
  simp at hwk
  subst hwk
  exact ⟨x, h2⟩

/-- **stale advertised height** (review item): `availbTask` skips a peer whose height in the PeerInfoManager is below
the requested one. A peer that does serve the height but whose advertised height is stale is therefore never
asked: the worker sleeps through its 50 tries — in the concurrent pass and in checkTask's pass alike. `delivers`
above assumes every advertised height covers the request (`h ≤ 1000000`, the default of `init`); this is the witness
that the assumption is needed (the node cannot know better: the advertised height is all it has). -/
theorem stale_advertised_height_never_asked :
    ((runAlone (fun _ h => some h) 200 (initWith 1 [9] (fun _ => 8))).workers.map fun w => (w.phase, w.asked)) =
      [(.tooMany, [])] ∧
    eventDelivers (fun _ h => some h) 1 9 (fun _ => 8) .tooMany = false := by decide

/-- **the download event as a whole** (concurrent pass, then checkTask's single re-download of what is left): a
height served by one of at most 50 peers, all advertising a sufficient height, is delivered — however the
concurrent pass ended for it. -/
theorem event_delivers (beh : Behaviour) (n : Nat) (h : Int) (p : Nat) (first : Phase)
    (hn : n ≤ 50) (hh : h ≤ 1000000) (hp : p < n) (hb : beh p h = some h) :
    eventDelivers beh n h (fun _ => 1000000) first = true := by
  unfold eventDelivers
  cases first with
  | delivered _ _ => rfl
  | _ =>
    all_goals
      have hinit : initWith n [h] (fun _ => 1000000) = init n [h] := rfl
      have hd := delivers n beh h p hn hh hp hb 200 (by omega)
      simp only [hinit]
      match hw : (runAlone beh 200 (init n [h])).workers with
      | [] =>
        have hA : Alone (init n [h]) { height := h, view := List.range n } :=
          ⟨rfl, rfl, fun _ => rfl, fun _ => by simpa [init] using hh⟩
        obtain ⟨pre, x, post, hsplit, hpre, hx⟩ := first_split (fun x => beh x h = some h) (List.range n) ⟨p, by simpa using hp, hb⟩
        have hlen : pre.length < n := by have := congrArg List.length hsplit; simp at this; omega
        obtain ⟨wk', h1, _⟩ := seq_delivers beh (init n [h]) _ pre x post 200 hA hsplit hpre hx (by simp; omega) (by omega)
        rw [hw] at h1; simp at h1
      | [wk] =>
        obtain ⟨q, hq⟩ := hd wk (by rw [hw]; simp)
        simp [hq]
      | _ :: _ :: _ =>
        have hA : Alone (init n [h]) { height := h, view := List.range n } :=
          ⟨rfl, rfl, fun _ => rfl, fun _ => by simpa [init] using hh⟩
        obtain ⟨pre, x, post, hsplit, hpre, hx⟩ := first_split (fun x => beh x h = some h) (List.range n) ⟨p, by simpa using hp, hb⟩
        have hlen : pre.length < n := by have := congrArg List.length hsplit; simp at this; omega
        obtain ⟨wk', h1, _⟩ := seq_delivers beh (init n [h]) _ pre x post 200 hA hsplit hpre hx (by simp; omega) (by omega)
        rw [hw] at h1; simp at h1

/-- the bound is needed: with 51 failing peers listed before the one that serves, both passes run out of their 50
tries and the height is never delivered (checkTask ignores the error of its one re-download). p2p hands the
blockchain at most 2·maxPeers+1 = 41 peers (handleEventPeerInfo), so the bound does not bind in a real node;
the witness is replayed on the real code by the harness (52 fake peers). -/
theorem event_needs_at_most_50_failing_peers :
    eventDelivers (fun p h => if p < 51 then none else some h) 52 7 (fun _ => 1000000) .tooMany = false := by decide

/-- **progress**: a worker that has not finished always has an enabled label — `pick` at ReDownload, `ret` (with any
reply, the stream deadline producing `none` at the latest) while fetching; with `worker_terminates` every run ends. -/
theorem progress (s : State) (w : Nat) (wk : Worker) (hw : s.workers[w]? = some wk) :
    (wk.phase = .ready → (step s (.pick w)).isSome = true) ∧
    (∀ p, wk.phase = .fetching p → ∀ reply, (step s (.ret w reply)).isSome = true) := by
  constructor
  · intro hr
    simp only [step, hw, hr]
    simp only [ne_eq, not_true_eq_false, if_false]
    split
    · rfl
    · split
      · rfl
      · split <;> rfl
  · intro p hp reply
    simp only [step, hw, hp]
    split <;> rfl

/-- non-vacuity: four peers, the first fails, the second answers with another height, the third serves -/
example : ((runAlone (fun p h => if p = 0 then none else if p = 1 then some (h + 1) else some h) 10 (init 4 [9])).workers.map
    fun w => (w.phase, w.asked)) = [(.delivered 2 9, [2, 1, 0])] := by decide

/-! ### what the concurrent pass alone still does not guarantee -/

/-- delivery by the *concurrent pass alone*, as a statement over all schedules: a worker whose height is served
by one of at most 50 peers never gives up -/
def ConcurrentPassDeliversStatement : Prop :=
  ∀ (n : Nat) (beh : Behaviour) (hs : List Int), n ≤ 50 → ∀ s, ReachB beh (init n hs) → ReachB beh s →
    ∀ wk ∈ s.workers, (∃ g ∈ s.arr, beh g wk.height = some wk.height) → wk.phase ≠ .tooMany

/-- **remaining witness** (not a consequence of the repaired defects, unchanged by them): the per-peer limit on
simultaneous fetches (`TaskNum`, 50 for a single peer). One peer serving everything, 51 heights: the 51st worker
finds the peer saturated, sleeps 400 ms and retries 50 times while the other 50 fetches are outstanding, then
gives up ("beyound max try count 50"). The height is then delivered by `checkTask`'s re-download pass, to which
`delivers` applies — the property as a whole rests on that second pass. -/
theorem concurrent_pass_can_exhaust_tries : ¬ ConcurrentPassDeliversStatement := by
  intro h
  let hs : List Int := (List.range 51).map Int.ofNat
  let ls : List Label := (List.range 51).map Label.pick ++ List.replicate 50 (Label.pick 50)
  have hreach : ∀ (l : List Label) (s : State), (∀ x ∈ l, ∃ w, x = Label.pick w) → ReachB (fun _ h => some h) s →
      ∀ r, run s l = some r → ReachB (fun _ h => some h) r.1 := by
    intro l
    induction l with
    | nil => intro s _ hs r hr; simp [run] at hr; subst hr; exact hs
    | cons a l ih =>
      intro s hp hs r hr
      obtain ⟨w, rfl⟩ := hp a (by simp)
      simp only [run] at hr
      split at hr
      · simp at hr
      · rename_i s1 o h1
        split at hr
        · simp at hr
        · rename_i s2 os h2
          simp at hr; subst hr
          exact ih s1 (fun x hx => hp x (by simp [hx])) (ReachB.pick hs h1) (s2, os) h2
  cases hrun : run (init 1 hs) ls with
  | none => revert hrun; decide
  | some r =>
    have hr := hreach ls (init 1 hs) (by
      intro x hx
      simp only [ls, List.mem_append, List.mem_map, List.mem_replicate] at hx
      rcases hx with ⟨w, _, rfl⟩ | ⟨_, rfl⟩
      · exact ⟨w, rfl⟩
      · exact ⟨50, rfl⟩) (ReachB.init 1 hs) r hrun
    have hph : (run (init 1 hs) ls).map (fun r => (r.1.workers[50]?.map (·.phase), r.1.workers[50]?.map (·.height), r.1.arr)) =
        some (some .tooMany, some 50, [0]) := by decide
    rw [hrun] at hph
    simp at hph
    obtain ⟨⟨wk, hwk, hphase⟩, ⟨wk2, hwk2, hheight⟩, harr⟩ := hph
    rw [hwk] at hwk2; simp at hwk2; subst hwk2
    have := h 1 (fun _ h => some h) hs (by decide) r.1 (ReachB.init 1 hs) hr wk (List.mem_of_getElem? hwk)
      ⟨0, by rw [harr]; simp, by simp⟩
    exact this hphase

/-! ### regression witnesses over the model of the code before the repairs (`C35.Old`) -/

/-- before eac7298: peers [0,1]; the worker for height 1 fails on peer 0 and removes it from the *shared* array;
the worker for height 2 starts now, sees peer 1 twice, fails on it, removes one copy, asks it again, and gives
up with "no peer" without ever having asked peer 0 -/
theorem old_reask_witness :
    (Old.run (Old.init 2 [1, 2]) [.pick 0, .ret 0 none, .pick 0, .pick 1, .ret 1 none, .pick 1, .ret 1 none, .pick 1]).map
      (fun r => (r.2, r.1.workers.map (·.asked))) =
      some ([.ask 0, .retry, .ask 1, .ask 1, .retry, .ask 1, .retry, .noPeer], [[1, 0], [1, 1]]) := by decide

/-- the same schedule on the repaired code: peer 1 is asked once, then peer 0 -/
theorem reask_schedule_now :
    (run (init 2 [1, 2]) [.pick 0, .ret 0 none, .pick 0, .pick 1, .ret 1 none, .pick 1]).map
      (fun r => (r.2, r.1.workers.map (·.asked))) =
      some ([.ask 0, .retry, .ask 1, .ask 0, .retry, .ask 1], [[1, 0], [1, 0]]) := by decide

/-- before eac7298: `Index` of the shared taskInfo was written for one worker's view and read by another's Remove -/
theorem old_shared_index_witness :
    (Old.run (Old.init 3 [5, 6]) [.pick 0, .pick 1, .ret 0 none, .pick 0, .ret 0 none, .pick 0, .ret 1 none, .pick 1]).map
      (fun r => (r.1.arr, r.2.getLast?)) = some ([2, 2, 2], some (.ask 2)) := by decide

/-- before 8854790: a block of another height was accepted as success -/
theorem old_wrong_height_accepted :
    (Old.run (Old.init 1 [7]) [.pick 0, .ret 0 (some 107)]).map (fun r => (r.2, r.1.workers.map (·.phase))) =
      some ([.ask 0, .delivered 107], [.delivered 0 107]) := by decide

/-- before 1a43c8d: no deadline on the reply stream -/
theorem old_fetch_had_no_deadline : Old.fetchHasDeadline = false := rfl

end C35
