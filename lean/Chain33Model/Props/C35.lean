import Chain33Model.Proofs.C35
/-!
C35 — Block download delivers every servable height.  Property theorems only.

`Model/C35.lean`: one worker per height, labels = the two atomic sections of `downloadBlock`
(`pick`: ReDownload…availbTask, `ret`: fetch returned…releaseJob/Remove); the workers' views of the one
shared backing array and the shared `Index` field are explicit.  A schedule is a list of labels, so a
theorem over `run`/`Reach` covers every interleaving.
-/
namespace C35

/-- states reachable from one download event by any interleaving of worker steps and any peer replies -/
inductive Reach : State → Prop where
  | init (n : Nat) (hs : List Int) : Reach (init n hs)
  | step {s s' : State} {l : Label} {o : Out} : Reach s → step s l = some (s', o) → Reach s'

theorem reach_inv {s : State} (h : Reach s) : Inv s := by
  induction h with
  | init n hs => exact inv_init n hs
  | step _ hs ih => exact (step_decreases _ _ _ _ ih hs).1

/-- **Every task terminates** (as far as the worker logic goes): whatever the peers answer and however the
workers interleave, a download event for `k` heights performs at most `104·k` worker steps — each worker
tries at most 50 times.  (A fetch that never returns is outside this theorem: see `fetch_has_no_deadline`.) -/
theorem worker_terminates (n : Nat) (hs : List Int) (ls : List Label) (s' : State) (outs : List Out)
    (h : run (init n hs) ls = some (s', outs)) : ls.length ≤ 104 * hs.length := by
  have := run_length _ _ _ _ (inv_init n hs) h
  rw [phi_init] at this
  omega

/-- a running worker never exceeds 50 tries, in any reachable state -/
theorem retry_bounded {s : State} (h : Reach s) (wk : Worker) (hw : wk ∈ s.workers)
    (hp : wk.phase = .ready ∨ ∃ p, wk.phase = .fetching p) : wk.retry ≤ 50 :=
  reach_inv h wk hw hp

/-- non-vacuity: a three-height event against two peers runs to completion in 8 steps -/
example : (run (init 2 [5, 6, 7]) [.pick 0, .pick 1, .pick 2, .ret 0 (some 5), .ret 1 none, .pick 1, .ret 1 (some 6),
    .ret 2 (some 7)]).map (·.2) =
    some [.ask 0, .ask 0, .ask 0, .delivered 5, .retry, .ask 1, .delivered 6, .delivered 7] := by decide

/-- the model has no step by which a fetch ends on its own: the code arms no deadline on the reply stream
(fact checked on the implementation by the harness: `stall` → `unbounded`) -/
theorem fetch_has_no_deadline : fetchHasDeadline = false := rfl

/-! ### one worker alone: the re-download pass of `checkTask`, or a one-height request -/

/-- **seq_delivers**: a single worker whose list is `pre ++ p :: post`, where every peer of `pre` fails the
height, `p` answers, and fewer than 50 peers come before `p`, ends with the block answered by `p`; it has
asked exactly `pre` and then `p`, each once, in list order (failed peers are never asked again). -/
theorem seq_delivers (beh : Behaviour) (s : State) (wk : Worker) (pre : List Nat) (p : Nat) (post : List Nat) (h' : Int)
    (fuel : Nat) (hA : Alone s wk) (hv : s.arr.take wk.len = pre ++ p :: post)
    (hfail : ∀ q ∈ pre, beh q wk.height = none) (hok : beh p wk.height = some h')
    (hlt : wk.retry + pre.length < 50) (hf : 2 * pre.length + 2 ≤ fuel) :
    ∃ wk', (runAlone beh fuel s).workers = [wk'] ∧ wk'.phase = .delivered p h' ∧
      wk'.asked = p :: (pre.reverse ++ wk.asked) ∧ wk'.height = wk.height :=
  alone_delivers beh h' pre s wk p post fuel hA hv hfail hok hlt hf

/-- for a fresh task list `0..n-1` (what `initJob` builds): the peers asked are pairwise distinct -/
theorem seq_no_reask (beh : Behaviour) (n : Nat) (h : Int) (hh : h ≤ 1000000) (pre : List Nat) (p : Nat) (post : List Nat)
    (h' : Int) (hv : List.range n = pre ++ p :: post) (hfail : ∀ q ∈ pre, beh q h = none) (hok : beh p h = some h')
    (hlt : pre.length < 50) :
    ∃ wk', (runAlone beh (2 * pre.length + 2) (init n [h])).workers = [wk'] ∧ wk'.phase = .delivered p h' ∧
      wk'.asked.Nodup := by
  have hA : Alone (init n [h]) { height := h, len := n } :=
    ⟨rfl, rfl, by simp [init], fun _ => rfl, fun _ => by simpa [init] using hh⟩
  have hview : (init n [h]).arr.take n = pre ++ p :: post := by
    simp only [init]; rw [List.take_of_length_le (by simp)]; exact hv
  obtain ⟨wk', h1, h2, h3, _⟩ := seq_delivers beh (init n [h]) _ pre p post h' (2 * pre.length + 2) hA hview hfail hok
    (by simpa using hlt) (Nat.le_refl _)
  refine ⟨wk', h1, h2, ?_⟩
  rw [h3]
  have hnd : (pre ++ p :: post).Nodup := hv ▸ List.nodup_range
  have hsub : (pre ++ [p]).Nodup := by
    have e : pre ++ p :: post = (pre ++ [p]) ++ post := by simp
    rw [e] at hnd
    exact (List.nodup_append.mp hnd).1
  have h4 : (p :: pre.reverse).Nodup := by
    have e : (pre ++ [p]).reverse = p :: pre.reverse := by simp
    rw [← e]; exact (List.reverse_perm _).nodup_iff.mpr hsub
  simpa using h4

/-- non-vacuity of `seq_delivers` / `seq_no_reask`: four peers, the first two fail, the third answers -/
example : ((runAlone (fun p _ => if p < 2 then none else some 9) 6 (init 4 [9])).workers.map fun w => (w.phase, w.asked)) =
    [(.delivered 2 9, [2, 1, 0])] := by decide

/-! ### several workers: what the shared array does -/

/-- **no_reask as stated**: in every reachable state no worker has asked the same peer twice -/
def NoReaskStatement : Prop := ∀ s, Reach s → ∀ wk ∈ s.workers, wk.asked.Nodup

/-- the witness schedule: peers [0,1]; the worker for height 1 fails on peer 0 and removes it from the
shared array; the worker for height 2 starts now, sees peer 1 twice, fails on it, removes one copy … -/
def reaskSchedule : List Label :=
  [.pick 0, .ret 0 none, .pick 0, .pick 1, .ret 1 none, .pick 1, .ret 1 none, .pick 1]

theorem reask_witness_outputs :
    (run (init 2 [1, 2]) reaskSchedule).map (·.2) =
      some [.ask 0, .retry, .ask 1, .ask 1, .retry, .ask 1, .retry, .noPeer] := by decide

/-- **the full statement is false of the code**: after the first worker's `Remove` the second worker's view
of the shared array is `[1,1]`; it asks peer 1 again after peer 1 failed, and then gives up with "no peer"
although peer 0 was never asked for its height.  Replayed on the real goroutines by the harness. -/
theorem concurrent_no_reask_false : ¬ NoReaskStatement := by
  intro h
  have hr : ∀ (ls : List Label) (s : State), Reach s → ∀ s' outs, run s ls = some (s', outs) → Reach s' := by
    intro ls
    induction ls with
    | nil => intro s hs s' outs h; simp [run] at h; obtain ⟨rfl, _⟩ := h; exact hs
    | cons l ls ih =>
      intro s hs s' outs h
      simp only [run] at h
      split at h
      · simp at h
      · rename_i s1 o h1
        split at h
        · simp at h
        · rename_i s2 os h2
          simp only [Option.some.injEq, Prod.mk.injEq] at h
          obtain ⟨rfl, _⟩ := h
          exact ih s1 (Reach.step hs h1) s2 os h2
  cases hrun : run (init 2 [1, 2]) reaskSchedule with
  | none => revert hrun; decide
  | some r =>
    have hreach := hr reaskSchedule _ (Reach.init 2 [1, 2]) r.1 r.2 (by simpa using hrun)
    have hw : (r.1.workers.map (·.asked)) = [[1, 0], [1, 1]] := by
      have : (run (init 2 [1, 2]) reaskSchedule).map (fun r => r.1.workers.map (·.asked)) = some [[1, 0], [1, 1]] := by decide
      rw [hrun] at this; simpa using this
    have hmem : [1, 1] ∈ r.1.workers.map (·.asked) := by rw [hw]; simp
    obtain ⟨wk, hwk, hasked⟩ := List.mem_map.mp hmem
    have := h r.1 hreach wk hwk
    rw [hasked] at this
    simp at this

/-- in the same run the second worker ends with "no peer" without ever having asked peer 0 (which may well
serve its height): a servable height is lost by the concurrent pass — and recovered only by `checkTask`'s
re-download, to which `seq_delivers` applies. -/
theorem concurrent_pass_loses_unasked_peer :
    (run (init 2 [1, 2]) reaskSchedule).map (fun r => r.1.workers.map fun w => (w.phase, w.asked.contains 0)) =
      some [(.fetching 1, true), (.noPeer, false)] := by decide

/-- `Index` is a field of the shared `taskInfo`: it is written for one worker's view and read by another's
`Remove`. Both workers fetch from peer 0; the second one's view has meanwhile changed. -/
theorem shared_index_witness :
    (run (init 3 [5, 6]) [.pick 0, .pick 1, .ret 0 none, .pick 0, .ret 0 none, .pick 0, .ret 1 none, .pick 1]).map
      (fun r => (r.1.arr, r.2.getLast?)) = some ([2, 2, 2], some (.ask 2)) := by decide

/-- **wrong height accepted**: the reply's height is not compared with the requested one; the worker reports
success, the requested height is neither delivered nor retried. -/
theorem wrong_height_accepted :
    (run (init 1 [7]) [.pick 0, .ret 0 (some 107)]).map (fun r => (r.2, r.1.workers.map (·.phase))) =
      some ([.ask 0, .delivered 107], [.delivered 0 107]) := by decide

/-- **delivery as stated**: when the event has run to completion, every worker whose height some peer
serves correctly has delivered that height -/
def DeliversStatement : Prop :=
  ∀ (n : Nat) (beh : Behaviour) (h : Int) (p : Nat), p < n → beh p h = some h →
    ∀ fuel ≥ 2 * n + 2, ∀ wk ∈ (runAlone beh fuel (init n [h])).workers, ∃ q, wk.phase = .delivered q h

/-- false already for one worker, because of `wrong_height_accepted` -/
theorem delivers_false : ¬ DeliversStatement := by
  intro hd
  have := hd 2 (fun p h => if p = 0 then some (h + 100) else some h) 7 1 (by decide) (by decide) 6 (by decide)
  have hw : (runAlone (fun p h => if p = 0 then some (h + 100) else some h) 6 (init 2 [7])).workers.map (·.phase) =
      [.delivered 0 107] := by decide
  have hmem : Phase.delivered 0 107 ∈
      (runAlone (fun p h => if p = 0 then some (h + 100) else some h) 6 (init 2 [7])).workers.map (·.phase) := by
    rw [hw]; simp
  obtain ⟨wk, hwk, hph⟩ := List.mem_map.mp hmem
  obtain ⟨q, hq⟩ := this wk hwk
  rw [hq] at hph
  simp at hph

/-- **_partial**: it holds when the first peer of the list that answers at all answers with the right height
(added hypothesis), fewer than 50 peers precede it and announced peer heights are high enough. -/
theorem seq_delivers_right_height (beh : Behaviour) (n : Nat) (h : Int) (hh : h ≤ 1000000) (pre : List Nat) (p : Nat)
    (post : List Nat) (hv : List.range n = pre ++ p :: post) (hfail : ∀ q ∈ pre, beh q h = none) (hok : beh p h = some h)
    (hlt : pre.length < 50) :
    ∃ wk', (runAlone beh (2 * pre.length + 2) (init n [h])).workers = [wk'] ∧ wk'.phase = .delivered p h :=
  let ⟨wk', h1, h2, _⟩ := seq_no_reask beh n h hh pre p post h hv hfail hok hlt
  ⟨wk', h1, h2⟩

end C35
