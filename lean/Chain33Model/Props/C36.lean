import Chain33Model.Proofs.C36
/-!
C36 — Message bus delivers each reply to its own request.  Property theorems only.

The LTS of `Model/C36.lean` has one label per atomic step of queue.go / client.go; a *schedule* is a
list of labels, so a theorem over `Reach` holds for every interleaving of any number of requesters,
responders and closers, of any length.
-/
namespace C36

/-- states reachable by any interleaving that respects the documented pool discipline
("FreeMessage: the context must no longer reference the message"): `free` only for a message that
was never sent, whose reply was consumed, or whose send failed. Channel capacities are arbitrary. -/
inductive Reach : State → Prop where
  | init (ch cl : Nat) : Reach { capHigh := ch, capLow := cl }
  | step {s s' : State} {l : Label} {out : Out} :
      Reach s → l.disciplined = true → step s l = some (s', out) → Reach s'

theorem reach_inv {s : State} (h : Reach s) : Inv s := by
  induction h with
  | init ch cl => constructor <;> simp [total]
  | step _ hd hs ih => exact inv_step _ ih _ hd _ _ hs

theorem reach_cinv {s : State} (h : Reach s) : CInv s := by
  induction h with
  | init ch cl => constructor <;> simp
  | step _ _ hs ih => exact cinv_step _ ih _ _ _ hs

/-- a run from a reachable state ends in a reachable state. -/
theorem reach_run {s : State} (hr : Reach s) : ∀ (ls : List Label) (s' : State) (os : List Out),
    (∀ l ∈ ls, l.disciplined = true) → run s ls = some (s', os) → Reach s' := by
  intro ls
  induction ls generalizing s with
  | nil => intro s' os _ h; simp only [run, Option.some.injEq, Prod.mk.injEq] at h; rw [← h.1]; exact hr
  | cons l ls ih =>
    intro s' os hd h
    simp only [run] at h
    split at h
    · simp at h
    · rename_i s1 o hst
      split at h
      · simp at h
      · rename_i s2 os' hrun
        simp only [Option.some.injEq, Prod.mk.injEq] at h
        rw [← h.1]
        exact ih (Reach.step hr (hd l List.mem_cons_self) hst) s2 os'
          (fun l' hl' => hd l' (List.mem_cons_of_mem _ hl')) hrun

/-- **A synchronous request receives the reply produced for it and never another request's reply**:
in every reachable state, whatever a `Wait` — whichever ready branch of its `select` it takes — hands
out as a reply was produced by a responder for exactly this object *and this generation* (the request
`NewMessage` last created on it).  `Reach` ranges over all resolutions of the `select` races
(`viaDone` of earlier `wait`/`unblock` labels), closes of the topic, queue and client included. -/
theorem reply_matches_request {s s' : State} (hr : Reach s) (o : Obj) (b : Bool) (t : Tag)
    (h : step s (.wait o b) = some (s', .tag t)) : t = ⟨o, (s.objs o).gen⟩ := by
  have hi := reach_inv hr
  simp only [step] at h
  split at h
  · split at h <;> simp at h
  · split at h
    · rename_i u hb
      simp only [Option.some.injEq, Prod.mk.injEq, Out.tag.injEq] at h
      rw [← h.2]; exact (hi.buf o u hb).1
    · simp at h

/-- a responder's answer always lands in the buffer of the request it was produced for
(the object has not been recycled under it). -/
theorem reply_lands_in_own_request {s s' : State} {out : Out} (hr : Reach s) (t : Tag)
    (h : step s (.reply t) = some (s', out)) :
    (s.objs t.obj).gen = t.gen ∧ (s'.objs t.obj).buf = some t := by
  have hi := reach_inv hr
  simp only [step] at h
  split at h
  · rename_i hc
    have ht : t ∈ s.held := by simpa using hc
    split at h
    · simp at h
    · simp only [Option.some.injEq, Prod.mk.injEq] at h
      rw [← h.1]
      exact ⟨(hi.held t ht).1, by simp⟩
  · simp at h

/-- non-vacuity: a complete request/reply round trip, then recycling, then a second round trip on the
same object is reachable, and both waits are enabled. -/
example : (run {} [.new 0, .send 0 true, .recv true, .reply ⟨0, 1⟩, .wait 0 false, .free 0 true,
                   .new 0, .send 0 true, .recv true, .reply ⟨0, 2⟩, .wait 0 false]).map (·.2) =
    some [.ok, .ok, .tag ⟨0, 1⟩, .ok, .tag ⟨0, 1⟩, .ok, .ok, .ok, .tag ⟨0, 2⟩, .ok, .tag ⟨0, 2⟩] := by decide

/-- The discipline is necessary (and is exactly what the `FreeMessage` comment asks for): if a message
is freed while a responder still holds it (requester timed out), the late answer is delivered to the
*next* request that recycles the object.  Replayed on the real code by the harness (`stale` scenario). -/
theorem discipline_necessary :
    (run {} [.new 0, .send 0 true, .recv true, .timeout 0, .free 0 false,
             .new 0, .reply ⟨0, 1⟩, .send 0 true, .wait 0 false]).map (·.2) =
      some [.ok, .ok, .tag ⟨0, 1⟩, .err "timeout", .ok, .ok, .ok, .ok, .tag ⟨0, 1⟩] := by decide

/-- **A subscriber receives each message sent to its topic at most once** — trace level: along every
run from the initial state that respects the pool discipline, of any length and under any interleaving,
no tag (object + generation = one logical message) occurs twice among the outputs of the `recv` labels
(`recvTags` collects them in order). -/
theorem recv_at_most_once (ch cl : Nat) (ls : List Label) (hd : ∀ l ∈ ls, l.disciplined = true)
    (s' : State) (os : List Out) (h : run { capHigh := ch, capLow := cl } ls = some (s', os)) :
    (recvTags ls os).Nodup :=
  (run_recv_nodup ls _ s' os (reach_inv (Reach.init ch cl)) hd h).1

/-- the same from any reachable state (e.g. after an arbitrary prefix), and a tag received in the
continuation was not received (nor answered, nor recycled) before. -/
theorem recv_at_most_once_from {s : State} (hr : Reach s) (ls : List Label)
    (hd : ∀ l ∈ ls, l.disciplined = true) (s' : State) (os : List Out) (h : run s ls = some (s', os)) :
    (recvTags ls os).Nodup ∧ ∀ t ∈ recvTags ls os, ¬ Past s t :=
  run_recv_nodup ls s s' os (reach_inv hr) hd h

/-- **Each received message was sent**: what a `recv` hands out is the *current* request of its object
(the generation `NewMessage` last gave it) in phase `queued` — a phase only a successful `Send`
(`send`/`unblock` with output `ok`) establishes — and it leaves that phase for good. -/
theorem recv_delivers_sent_request {s s' : State} (hr : Reach s) (b : Bool) (t : Tag)
    (h : step s (.recv b) = some (s', .tag t)) :
    (s.objs t.obj).gen = t.gen ∧ (s.objs t.obj).phase = .queued ∧ (s'.objs t.obj).phase = .held := by
  have hp := recv_past s (reach_inv hr) b t s' h
  refine ⟨hp.1.1, hp.1.2, ?_⟩
  have hi' : Inv s' := reach_inv (Reach.step hr rfl h)
  simp only [step] at h
  split at h
  · simp at h
  · simp only [Option.some.injEq, Prod.mk.injEq, Out.tag.injEq] at h
    obtain ⟨hs, rfl⟩ := h
    exact (hi'.held _ (by rw [← hs]; simp)).2

/-- non-vacuity: two requests received in one run, the object of the first recycled and received again
under its next generation — three distinct tags. -/
example : (run {} [.new 0, .send 0 true, .new 1, .send 1 false, .recv true, .recv false, .reply ⟨0, 1⟩,
                   .wait 0 false, .free 0 true, .new 0, .send 0 true, .recv true]).map
            (fun r => recvTags [.new 0, .send 0 true, .new 1, .send 1 false, .recv true, .recv false, .reply ⟨0, 1⟩,
                   .wait 0 false, .free 0 true, .new 0, .send 0 true, .recv true] r.2) =
    some [⟨0, 1⟩, ⟨1, 1⟩, ⟨0, 2⟩] := by decide

/-- **After the topic (subscriber's client) or the whole queue is closed, every send and wait returns an
error instead of blocking forever**: in *any* state with the topic closed, a new send returns `closed`,
the `done` branch of a wait is enabled and returns `closed` (so `Wait` cannot block; Go may instead take
a buffered reply — see `wait_after_close_returns`), and every sender that was blocked on a full channel —
high or low — has its `done` branch enabled, returning `closed`.  This is enabledness of a ready `select`
case in the one modelled topic, not a fairness argument. -/
theorem close_unblocks (s : State) (hc : s.topicClosed = true) :
    (∀ o b, ∃ s', step s (.send o b) = some (s', .err "closed")) ∧
    (∀ o, step s (.wait o true) = some (s, .err "closed")) ∧
    (∀ t, t ∈ s.blockedHigh → ∃ s', step s (.unblock t true true) = some (s', .err "closed")) ∧
    (∀ t, t ∈ s.blockedLow → ∃ s', step s (.unblock t false true) = some (s', .err "closed")) := by
  refine ⟨?_, ?_, ?_, ?_⟩
  · intro o b
    simp only [step, hc, Bool.or_true]
    by_cases hcc : s.clientClosed = true <;> simp [hcc]
  · intro o
    simp [step, hc]
  · intro t ht
    simp [step, hc, ht]
  · intro t ht
    simp [step, hc, ht]

/-- whatever branch a blocked sender or a waiter takes after a close, it *returns*: a blocked sender gets
`closed` or `ok` (it slipped into the orphaned channel), a waiter gets `closed` or a reply — and by
`reply_matches_request` that reply is its own. No branch yields `blocked`. -/
theorem after_close_outcomes (s s' : State) (out : Out) :
    (∀ t b v, step s (.unblock t b v) = some (s', out) → out = .err "closed" ∨ out = .ok) ∧
    (∀ o v, step s (.wait o v) = some (s', out) → out = .err "closed" ∨ ∃ t, out = .tag t) := by
  constructor
  · intro t b v h
    simp only [step] at h
    repeat' split at h
    all_goals first
      | (simp at h; done)
      | (simp only [Option.some.injEq, Prod.mk.injEq] at h; simp [← h.2])
  · intro o v h
    simp only [step] at h
    repeat' split at h
    all_goals first
      | (simp at h; done)
      | (simp only [Option.some.injEq, Prod.mk.injEq] at h; simp [← h.2])

/-- after a close of the topic, or once the requester's own client has closed its `done`, `Wait` cannot
block: its `done` branch is enabled, returns `closed` and leaves the state (a buffered reply included)
untouched; the only other branch takes the buffered reply. -/
theorem wait_after_close_returns (s : State) (hc : s.topicClosed = true ∨ s.clientDone = true) (o : Obj) :
    step s (.wait o true) = some (s, .err "closed") ∧
    (∀ s' out, step s (.wait o false) = some (s', out) → ∃ t, (s.objs o).buf = some t ∧ out = .tag t) := by
  constructor
  · rcases hc with hc | hc <;> simp [step, hc]
  · intro s' out h
    simp only [step, Bool.false_eq_true, if_false] at h
    split at h
    · rename_i t hb
      simp only [Option.some.injEq, Prod.mk.injEq] at h
      exact ⟨t, hb, h.2.symm⟩
    · simp at h

/-- non-vacuity: a request that was never answered, after the whole queue is closed: wait returns `closed`;
and the race the model leaves open: with a reply buffered at the close, both branches are enabled, and
after the `done` branch the reply is still there for a second wait. -/
example : (run {} [.new 0, .send 0 true, .closeQueue, .wait 0 true]).map (·.2) =
    some [.ok, .ok, .ok, .err "closed"] := by decide
example : (run {} [.new 0, .send 0 true, .recv true, .reply ⟨0, 1⟩, .closeTopic, .wait 0 true, .wait 0 false]).map (·.2) =
    some [.ok, .ok, .tag ⟨0, 1⟩, .ok, .ok, .err "closed", .tag ⟨0, 1⟩] := by decide

/-- `closeTopic` and `closeQueue` do close the topic, from every state. -/
theorem close_sets_closed (s s' : State) (out : Out) (l : Label) (hl : l = .closeTopic ∨ l = .closeQueue)
    (h : step s l = some (s', out)) : s'.topicClosed = true := by
  rcases hl with rfl | rfl <;> simp only [step, Option.some.injEq, Prod.mk.injEq] at h <;> rw [← h.1]

/-- **After the requester's own client is closed** (`isClosed = 1`), its sends fail at once, and — in every
reachable state — its `done` channel is closed too, so its waits return as in `wait_after_close_returns`. -/
theorem send_after_client_close {s : State} (hr : Reach s) (hc : s.clientClosed = true) (o : Obj) (b : Bool) :
    step s (.send o b) = some (s, .err "closed") ∧ s.clientDone = true ∧
    step s (.wait o true) = some (s, .err "closed") := by
  have hd : s.clientDone = true := by
    cases h : s.clientDone
    · have := ((reach_cinv hr).notDone h).2; simp [hc] at this
    · rfl
  simp [step, hc, hd]

/-- a `Close` of the requester's client that has subscribed a topic runs to completion when no other `Close`
interferes, and then the client is closed; a `Close` of a client without a topic returns at once and changes
nothing (`client.topic == nil`). -/
theorem closeclient_closes (s : State) (h0 : s.closersA = 0 ∧ s.closersB = 0) (hs : s.reqSub = true)
    (hc : s.clientDone = false ∧ s.clientClosed = false) (hcl : s.closing = false) :
    ∃ s', (run s [.closeEnter, .closeDone, .closeFinish]).map (·.2) = some [.blocked, .blocked, .ok] ∧
      (run s [.closeEnter, .closeDone, .closeFinish]).map (·.1) = some s' ∧
      s'.clientClosed = true ∧ s'.clientDone = true ∧ s'.objs = s.objs ∧ s'.topicClosed = s.topicClosed := by
  simp [run, step, h0.1, h0.2, hs, hc.1, hc.2, hcl]

theorem closeclient_without_topic_is_noop (s : State) (hs : s.reqSub = false) :
    step s .closeEnter = some (s, .ok) := by
  simp [step, hs]

/-- non-vacuity (reachability of `clientClosed`): the requester subscribes, sends a request that is never
answered, closes its client; its wait returns `closed`, a new request's send returns `closed`. -/
example : (run {} [.subReq, .new 0, .send 0 true, .closeEnter, .closeDone, .closeFinish, .wait 0 true,
                   .new 1, .send 1 true]).map (·.2) =
    some [.ok, .ok, .ok, .blocked, .blocked, .ok, .err "closed", .ok, .err "closed"] := by decide
example : ∃ s, Reach s ∧ s.clientClosed = true ∧ s.topicClosed = false :=
  ⟨_, Reach.step (Reach.step (Reach.step (Reach.step (Reach.init 64 40960)
      (l := .subReq) rfl rfl) (l := .closeEnter) rfl rfl) (l := .closeDone) rfl rfl) (l := .closeFinish) rfl rfl,
    rfl, rfl⟩

/-- non-vacuity of `close_unblocks`: a state with a sender blocked on the full low channel is reachable,
and closing unblocks it with an error. -/
example : (run { capLow := 1 } [.new 0, .send 0 false, .new 1, .send 1 false, .closeTopic,
                                .unblock ⟨1, 1⟩ false true]).map (·.2) =
    some [.ok, .ok, .ok, .blocked, .ok, .err "closed"] := by decide

/-! ### "… or crashing" -/

/-- the full claim: no step of any reachable state panics. -/
def NeverPanics : Prop := ∀ (s s' : State) (l : Label), Reach s → step s l ≠ some (s', .panic)

/-- **No send, wait, unblock, reply, close, … panics, in any reachable state, under any interleaving** — in
particular under any number of overlapping `Close` calls of the requester's client: the compare-and-swap on
`isCloseing` lets exactly one caller run `close(client.done)` / `close(client.recv)` (`CInv.one`). -/
theorem never_panics : NeverPanics := by
  intro s s' l hr h
  have hc := reach_cinv hr
  rcases panic_only_close s s' l h with rfl | rfl
  · simp only [step] at h
    split at h
    · simp at h
    · rename_i a ha
      have hd : s.clientDone = false := hc.aOpen (by have := hc.one; omega)
      simp [hd] at h
  · simp only [step] at h
    split at h
    · simp at h
    · rename_i b hb
      have : s.closersB = 1 := by have := hc.one; omega
      simp [hc.bOpen this] at h

/-- non-vacuity: overlapping `Close` calls are reachable schedules — the second caller loses the
compare-and-swap and returns at once while the first is still between `close(done)` and `isClosed = 1`; a
third after completion returns at the `isClosed` check. -/
example : (run {} [.subReq, .closeEnter, .closeEnter, .closeDone, .closeEnter, .closeFinish, .closeEnter]).map (·.2) =
    some [.ok, .blocked, .ok, .blocked, .ok, .ok, .ok] := by decide

/-- **Regression witness** (the `Close` of /repo before commit c931423, configuration `oldClose := true`): two
overlapping calls both pass the entry check and the second `close(client.done)` panics. Found by the harness's
`probeDoubleClose` on the real code (former finding `C36|client.Close|panic-on-concurrent-close`); the probe
stays in the check and must not fire any more. -/
theorem old_close_panics_on_overlap :
    (run { oldClose := true } [.subReq, .closeEnter, .closeEnter, .closeDone, .closeDone]).map (·.2) =
      some [.ok, .blocked, .blocked, .blocked, .panic] := by decide

/-- the same schedule on the current code: the second `closeEnter` is a no-op and the second `closeDone` is
not a step at all. -/
example : (run {} [.subReq, .closeEnter, .closeEnter, .closeDone]).map (·.2) = some [.ok, .blocked, .ok, .blocked] ∧
    run {} [.subReq, .closeEnter, .closeEnter, .closeDone, .closeDone] = none := by decide

end C36
