import Chain33Model.Proofs.C36
/-!
C36 — Message bus delivers each reply to its own request.  Property theorems only.

The LTS of `Model/C36.lean` has one label per atomic step of queue.go / client.go; a *schedule* is a
list of labels, so a theorem over `Reach` holds for every interleaving of any number of requesters,
responders and closers, of any length.
-/
namespace C36

/-- states reachable by any interleaving that respects the documented pool discipline
("FreeMessage: the context must no longer reference the message"): `free` only for a message that
was never sent, whose reply was consumed, or whose send failed. Channel capacities are arbitrary. -/
inductive Reach : State → Prop where
  | init (ch cl : Nat) : Reach { capHigh := ch, capLow := cl }
  | step {s s' : State} {l : Label} {out : Out} :
      Reach s → l.disciplined = true → step s l = some (s', out) → Reach s'

theorem reach_inv {s : State} (h : Reach s) : Inv s := by
  induction h with
  | init ch cl => constructor <;> simp [total]
  | step _ hd hs ih => exact inv_step _ ih _ hd _ _ hs

/-- **A synchronous request receives the reply produced for it and never another request's reply**:
in every reachable state, whatever `Wait` takes out of a message's reply buffer was produced by a
responder for exactly this object *and this generation* (the request `NewMessage` last created on it). -/
theorem reply_matches_request {s s' : State} (hr : Reach s) (o : Obj) (t : Tag)
    (h : step s (.wait o) = some (s', .tag t)) : t = ⟨o, (s.objs o).gen⟩ := by
  have hi := reach_inv hr
  simp only [step] at h
  split at h
  · rename_i u hb
    simp only [Option.some.injEq, Prod.mk.injEq, Out.tag.injEq] at h
    rw [← h.2]; exact (hi.buf o u hb).1
  · split at h <;> simp at h

/-- a responder's answer always lands in the buffer of the request it was produced for
(the object has not been recycled under it). -/
theorem reply_lands_in_own_request {s s' : State} {out : Out} (hr : Reach s) (t : Tag)
    (h : step s (.reply t) = some (s', out)) :
    (s.objs t.obj).gen = t.gen ∧ (s'.objs t.obj).buf = some t := by
  have hi := reach_inv hr
  simp only [step] at h
  split at h
  · rename_i hc
    have ht : t ∈ s.held := by simpa using hc
    split at h
    · simp at h
    · simp only [Option.some.injEq, Prod.mk.injEq] at h
      rw [← h.1]
      exact ⟨(hi.held t ht).1, by simp⟩
  · simp at h

/-- non-vacuity: a complete request/reply round trip, then recycling, then a second round trip on the
same object is reachable, and both waits are enabled. -/
example : (run {} [.new 0, .send 0 true, .recv true, .reply ⟨0, 1⟩, .wait 0, .free 0 true,
                   .new 0, .send 0 true, .recv true, .reply ⟨0, 2⟩, .wait 0]).map (·.2) =
    some [.ok, .ok, .tag ⟨0, 1⟩, .ok, .tag ⟨0, 1⟩, .ok, .ok, .ok, .tag ⟨0, 2⟩, .ok, .tag ⟨0, 2⟩] := by decide

/-- The discipline is necessary (and is exactly what the `FreeMessage` comment asks for): if a message
is freed while a responder still holds it (requester timed out), the late answer is delivered to the
*next* request that recycles the object.  Replayed on the real code by the harness (`stale` scenario). -/
theorem discipline_necessary :
    (run {} [.new 0, .send 0 true, .recv true, .timeout 0, .free 0 false,
             .new 0, .reply ⟨0, 1⟩, .send 0 true, .wait 0]).map (·.2) =
      some [.ok, .ok, .tag ⟨0, 1⟩, .err "timeout", .ok, .ok, .ok, .ok, .tag ⟨0, 1⟩] := by decide

/-- **Each message sent to a topic is handed to a subscriber at most once**: a `recv` removes exactly
the delivered entry from its channel. -/
theorem recv_consumes {s s' : State} (b : Bool) (t : Tag) (h : step s (.recv b) = some (s', .tag t)) :
    (if b then s.high else s.low) = t :: (if b then s'.high else s'.low) := by
  simp only [step] at h
  split at h
  · simp at h
  · split at h
    · simp at h
    · rename_i u rest hl
      simp only [Option.some.injEq, Prod.mk.injEq, Out.tag.injEq] at h
      obtain ⟨rfl, rfl⟩ := h
      cases b <;> simpa using hl

/-- **After the topic (client) or the whole queue is closed, every send and wait returns an error
instead of blocking forever**: in *any* state with the topic closed, a new send returns `closed`, a
wait is enabled (it returns the buffered reply or `closed`), and every sender that was blocked on a
full channel — high or low — has an enabled step that returns `closed`. -/
theorem close_unblocks (s : State) (hc : s.topicClosed = true) :
    (∀ o b, ∃ s', step s (.send o b) = some (s', .err "closed")) ∧
    (∀ o, (step s (.wait o)).isSome) ∧
    (∀ t, t ∈ s.blockedHigh → ∃ s', step s (.unblock t true) = some (s', .err "closed")) ∧
    (∀ t, t ∈ s.blockedLow → ∃ s', step s (.unblock t false) = some (s', .err "closed")) := by
  refine ⟨?_, ?_, ?_, ?_⟩
  · intro o b
    simp only [step, hc, Bool.or_true]
    by_cases hcc : s.clientClosed = true <;> simp [hcc]
  · intro o
    simp only [step, hc, Bool.true_or]
    cases (s.objs o).buf <;> simp
  · intro t ht
    simp [step, hc, ht]
  · intro t ht
    simp [step, hc, ht]

/-- after a close a wait can only return — with the buffered reply or with `closed`: the time-out outcome
(and with it the unbounded block of `Wait`, which is `WaitTimeout(-1)`) is not a possible step any more. -/
theorem wait_after_close_returns (s : State) (hc : s.topicClosed = true ∨ s.clientClosed = true) (o : Obj) :
    step s (.timeout o) = none ∧
    (∃ s' out, step s (.wait o) = some (s', out) ∧ (out = .err "closed" ∨ ∃ t, out = .tag t)) := by
  constructor
  · rcases hc with hc | hc <;> simp [step, hc]
  · simp only [step]
    cases hb : (s.objs o).buf with
    | some t => exact ⟨_, _, rfl, Or.inr ⟨t, rfl⟩⟩
    | none =>
      rcases hc with hc | hc <;> simp [hc] <;> exact ⟨s, _, ⟨rfl, rfl⟩, Or.inl rfl⟩

/-- non-vacuity: a request that was never answered, after the whole queue is closed: wait returns `closed`. -/
example : (run {} [.new 0, .send 0 true, .closeQueue, .wait 0]).map (·.2) =
    some [.ok, .ok, .ok, .err "closed"] := by decide

/-- `closeTopic` and `closeQueue` do close the topic, from every state. -/
theorem close_sets_closed (s s' : State) (out : Out) (l : Label) (hl : l = .closeTopic ∨ l = .closeQueue)
    (h : step s l = some (s', out)) : s'.topicClosed = true := by
  rcases hl with rfl | rfl <;> simp only [step, Option.some.injEq, Prod.mk.injEq] at h <;> rw [← h.1]

/-- after the requester's own client is closed, its sends fail at once. -/
theorem send_after_client_close (s : State) (hc : s.clientClosed = true) (o : Obj) (b : Bool) :
    step s (.send o b) = some (s, .err "closed") := by
  simp [step, hc]

/-- non-vacuity of `close_unblocks`: a state with a sender blocked on the full low channel is reachable,
and closing unblocks it with an error. -/
example : (run { capLow := 1 } [.new 0, .send 0 false, .new 1, .send 1 false, .closeTopic,
                                .unblock ⟨1, 1⟩ false]).map (·.2) =
    some [.ok, .ok, .ok, .blocked, .ok, .err "closed"] := by decide

end C36
