import Chain33Model.Proofs.C37
/-!
C37 — Wallet secrets decrypt correctly across formats and password changes.  Property theorems only.

All theorems hold for EVERY block cipher `C` with `dec k (enc k b) = b` on 16-byte blocks (AES is one) and every
AEAD `A` with `open (seal …) = some` (AES-GCM is one), every password (any length: shorter than 32 bytes is
zero-padded, longer is cut to 32 bytes by `kdf`), every IV / nonce the encrypter may draw.
-/
namespace C37

/-- **Private keys round-trip**: for every password, every 16-byte IV and every plaintext of a supported
private-key length (32, 64), what CBCEncrypterPrivkey writes is read back by CBCDecrypterPrivkey as the
original bytes (through the new-format branch). -/
theorem cbc_roundtrip (C : BlockCipher) (pw iv pt : Bytes) (hiv : iv.length = 16)
    (hl : pt.length = 32 ∨ pt.length = 64) :
    ∃ blob, cbcEncrypt C pw iv pt = .ok blob ∧ cbcDecryptF C pw blob = .ok (pt, .new) := by
  have hm : pt.length % 16 = 0 := by omega
  have hn : pt.length = 16 * (pt.length / 16) := by omega
  have hel := cbcEncN_length C (kdf pw) (pt.length / 16) iv pt hiv hn
  refine ⟨iv ++ cbcEncN C (kdf pw) (pt.length / 16) iv pt, by simp [cbcEncrypt, hm], ?_⟩
  have hbl : (iv ++ cbcEncN C (kdf pw) (pt.length / 16) iv pt).length = 16 + pt.length := by
    rw [List.length_append, hiv, hel]; omega
  have hnew : isNewFormat (16 + pt.length) = true := by
    rcases hl with h | h <;> rw [h] <;> decide
  simp only [cbcDecryptF, hbl, hnew, if_true]
  have htk : (iv ++ cbcEncN C (kdf pw) (pt.length / 16) iv pt).take 16 = iv := by
    rw [List.take_append_of_le_length (by omega), List.take_of_length_le (by omega)]
  have hdr : (iv ++ cbcEncN C (kdf pw) (pt.length / 16) iv pt).drop 16 = cbcEncN C (kdf pw) (pt.length / 16) iv pt := by
    rw [List.drop_append_of_le_length (by omega), List.drop_of_length_le (by omega), List.nil_append]
  have hq : (16 + pt.length - 16) / 16 = pt.length / 16 := by omega
  rw [htk, hdr, hq, cbcN_roundtrip C (kdf pw) _ iv pt hiv hn]

/-- **Legacy key records still decrypt**: a record written by the old encrypter (fixed IV = key[:16], no IV
prefix) for a 32- or 64-byte key is read back as the original bytes (through the legacy branch). -/
theorem cbc_legacy (C : BlockCipher) (pw pt : Bytes) (hl : pt.length = 32 ∨ pt.length = 64) :
    ∃ blob, cbcLegacyEncrypt C pw pt = .ok blob ∧ cbcDecryptF C pw blob = .ok (pt, .legacy) := by
  have hm : pt.length % 16 = 0 := by omega
  have hn : pt.length = 16 * (pt.length / 16) := by omega
  have hk : ((kdf pw).take 16).length = 16 := by rw [List.length_take, kdf_length]; omega
  have hel := cbcEncN_length C (kdf pw) (pt.length / 16) ((kdf pw).take 16) pt hk hn
  refine ⟨cbcEncN C (kdf pw) (pt.length / 16) ((kdf pw).take 16) pt, by simp [cbcLegacyEncrypt, hm], ?_⟩
  have hold : isNewFormat pt.length = false := by
    rcases hl with h | h <;> rw [h] <;> decide
  have hlen : (cbcEncN C (kdf pw) (pt.length / 16) ((kdf pw).take 16) pt).length = pt.length := by omega
  simp only [cbcDecryptF, hlen, hold, hm]
  simp [cbcN_roundtrip C (kdf pw) _ _ pt hk hn]

/-- The two supported lengths are the ONLY block-aligned plaintext lengths that round-trip: for any other
multiple of 16 (0, 16, 48, 80, …) the decrypter takes the legacy branch on the new-format record and returns
`len + 16` bytes. (Not block-aligned input makes the encrypter panic.)  Whether this matters is decided by the
private-key lengths of the registered crypto drivers, extracted from the real drivers by the harness. -/
theorem cbc_other_lengths_do_not_roundtrip (C : BlockCipher) (pw iv pt : Bytes) (hiv : iv.length = 16)
    (hm : pt.length % 16 = 0) (h32 : pt.length ≠ 32) (h64 : pt.length ≠ 64) :
    ∃ blob out, cbcEncrypt C pw iv pt = .ok blob ∧ cbcDecryptF C pw blob = .ok (out, .legacy) ∧
      out.length = pt.length + 16 := by
  have hn : pt.length = 16 * (pt.length / 16) := by omega
  have hel := cbcEncN_length C (kdf pw) (pt.length / 16) iv pt hiv hn
  have hbl : (iv ++ cbcEncN C (kdf pw) (pt.length / 16) iv pt).length = 16 + pt.length := by
    rw [List.length_append, hiv, hel]; omega
  have hold : isNewFormat (16 + pt.length) = false := by
    simp only [isNewFormat, Bool.and_eq_false_iff, Bool.or_eq_false_iff]
    right; constructor <;> simp <;> omega
  have hk : ((kdf pw).take 16).length = 16 := by rw [List.length_take, kdf_length]; omega
  refine ⟨iv ++ cbcEncN C (kdf pw) (pt.length / 16) iv pt,
    cbcDecN C (kdf pw) ((16 + pt.length) / 16) ((kdf pw).take 16) (iv ++ cbcEncN C (kdf pw) (pt.length / 16) iv pt),
    by simp [cbcEncrypt, hm], ?_, ?_⟩
  · simp only [cbcDecryptF, hbl, hold]
    have : (16 + pt.length) % 16 = 0 := by omega
    simp [this]
  · rw [cbcDecN_length C (kdf pw) _ _ _ hk (by rw [hbl]; omega)]; omega

theorem cbc_unaligned_panics (C : BlockCipher) (pw iv pt : Bytes) (hm : pt.length % 16 ≠ 0) :
    cbcEncrypt C pw iv pt = .panic := by
  simp [cbcEncrypt, hm]

/-- **Seeds round-trip**, for every password, every 12-byte nonce, every seed length. -/
theorem gcm_roundtrip (A : AEAD) (pw nonce pt : Bytes) (hn : nonce.length = 12) :
    gcmDecryptF A pw (gcmEncrypt A pw nonce pt) = some (pt, .new) := by
  have hl : (gcmEncrypt A pw nonce pt).length > 12 := by
    simp only [gcmEncrypt, List.length_append, hn, A.aseal_len]; omega
  have htk : (gcmEncrypt A pw nonce pt).take 12 = nonce := by
    simp only [gcmEncrypt]
    rw [List.take_append_of_le_length (by omega), List.take_of_length_le (by omega)]
  have hdr : (gcmEncrypt A pw nonce pt).drop 12 = A.aseal (kdf pw) nonce pt := by
    simp only [gcmEncrypt]
    rw [List.drop_append_of_le_length (by omega), List.drop_of_length_le (by omega), List.nil_append]
  simp only [gcmDecryptF, hl, if_true, htk, hdr, A.aopen_aseal]

/-- **Legacy seed records still decrypt** — stated AEAD hypothesis `hauth`: opening the legacy record
mis-parsed as new format (first 12 bytes taken as nonce) fails authentication.  For AES-GCM this fails except
with probability 2⁻¹²⁸; it does not follow from `open (seal …) = some` (see `gcm_legacy_needs_authentication`). -/
theorem gcm_legacy (A : AEAD) (pw pt : Bytes)
    (hauth : A.aopen (kdf pw) ((gcmLegacyEncrypt A pw pt).take 12) ((gcmLegacyEncrypt A pw pt).drop 12) = none) :
    gcmDecryptF A pw (gcmLegacyEncrypt A pw pt) = some (pt, .legacy) := by
  have hnew : (if (gcmLegacyEncrypt A pw pt).length > 12 then
      A.aopen (kdf pw) ((gcmLegacyEncrypt A pw pt).take 12) ((gcmLegacyEncrypt A pw pt).drop 12) else none) = none := by
    split
    · exact hauth
    · rfl
  have : A.aopen (kdf pw) ((kdf pw).take 12) (gcmLegacyEncrypt A pw pt) = some pt := by
    simp only [gcmLegacyEncrypt, A.aopen_aseal]
  simp only [gcmDecryptF, hnew, this]

/-- non-vacuity of `hauth`: it holds for an authenticating AEAD on a concrete seed. -/
example : gcmDecryptF nonceTagAead [112, 119] (gcmLegacyEncrypt nonceTagAead [112, 119]
      [1, 2, 3, 4, 5, 6, 7, 8, 9, 10, 11, 12, 13, 14]) =
    some ([1, 2, 3, 4, 5, 6, 7, 8, 9, 10, 11, 12, 13, 14], .legacy) :=
  gcm_legacy nonceTagAead _ _ (by decide)

/-- the hypothesis is needed: with a lawful but non-authenticating AEAD the mis-parse succeeds and the legacy
seed is returned without its first 12 bytes. -/
theorem gcm_legacy_needs_authentication :
    gcmDecrypt weakAead [112, 119] (gcmLegacyEncrypt weakAead [112, 119]
      [1, 2, 3, 4, 5, 6, 7, 8, 9, 10, 11, 12, 13, 14]) = some [13, 14] := by decide

/-- decrypting with the wrong password never yields `some` for an AEAD that rejects it. -/
theorem gcm_wrong_password (A : AEAD) (pw blob : Bytes)
    (h1 : A.aopen (kdf pw) (blob.take 12) (blob.drop 12) = none)
    (h2 : A.aopen (kdf pw) ((kdf pw).take 12) blob = none) : gcmDecrypt A pw blob = none := by
  have hnew : (if blob.length > 12 then A.aopen (kdf pw) (blob.take 12) (blob.drop 12) else none) = none := by
    split
    · exact h1
    · rfl
  simp only [gcmDecrypt, gcmDecryptF, hnew, h2, Option.map_none]

/-- one record of the re-encryption loop: address and well-formedness are kept; a record with a non-empty `Addr`
whose key (of a supported length) decrypted under the old password decrypts under the new one to the same key. -/
theorem reenc_account_preserves (C : BlockCipher) (old new iv : Bytes) (a a' : Acct) (hiv : iv.length = 16)
    (hr : reencAcct C old new iv a = .ok a') :
    a'.addr = a.addr ∧ a'.addrOk = a.addrOk ∧
    ∀ k : Bytes, cbcDecrypt C old a.blob = .ok k → (k.length = 32 ∨ k.length = 64) → a.addrOk = true →
      cbcDecrypt C new a'.blob = .ok k := by
  simp only [reencAcct] at hr
  split at hr
  · rename_i he
    simp only [Outcome.ok.injEq] at hr
    subst hr
    refine ⟨rfl, rfl, ?_⟩
    intro k hk hkl _
    -- an empty record decrypts (legacy branch) to the empty key, not a supported length
    have : a.blob = [] := by simpa using he
    rw [this] at hk
    simp [cbcDecrypt, cbcDecryptF, isNewFormat, cbcDecN] at hk
    rw [hk] at hkl
    simp at hkl
  · split at hr
    · simp at hr
    · rename_i k0 hk0
      split at hr
      · simp at hr
      · rename_i b hb
        split at hr
        · simp only [Outcome.ok.injEq] at hr
          subst hr
          refine ⟨rfl, rfl, ?_⟩
          intro k hk hkl _
          rw [hk0] at hk
          simp only [Outcome.ok.injEq] at hk
          subst hk
          obtain ⟨blob, hb', hd⟩ := cbc_roundtrip C new iv k0 hiv hkl
          rw [hb] at hb'
          simp only [Outcome.ok.injEq] at hb'
          subst hb'
          simp [cbcDecrypt, hd]
        · rename_i hbad
          simp only [Outcome.ok.injEq] at hr
          subst hr
          refine ⟨rfl, rfl, ?_⟩
          intro k _ _ hok
          exact absurd hok hbad

/-- **A successful password change preserves every secret**: the password becomes `new`; the seed that
decrypted under the old password decrypts under the new one to the same bytes; the account list keeps its
addresses and order; every stored key (record with a non-empty `Addr`, as every record the wallet writes) that
decrypted under the old password to a key of a supported length decrypts under the new password to the same key. -/
theorem setpasswd_preserves (C : BlockCipher) (A : AEAD) (old new nonce : Bytes) (ivs : Nat → Bytes)
    (writeOk : Bool) (s s' : Store) (hn : nonce.length = 12) (hiv : ∀ i, (ivs i).length = 16)
    (h : setPasswd C A old new nonce ivs writeOk s = (s', .ok)) :
    s.pw = old ∧ s'.pw = new ∧
    (∃ sd, gcmDecrypt A old s.seed = some sd ∧ sd ≠ [] ∧ gcmDecrypt A new s'.seed = some sd) ∧
    s'.accts.length = s.accts.length ∧
    (∀ (j : Nat) (a : Acct), s.accts[j]? = some a → ∃ a' : Acct, s'.accts[j]? = some a' ∧ a'.addr = a.addr ∧
      a'.addrOk = a.addrOk ∧
      ∀ k : Bytes, cbcDecrypt C old a.blob = .ok k → (k.length = 32 ∨ k.length = 64) → a.addrOk = true →
        cbcDecrypt C new a'.blob = .ok k) := by
  simp only [setPasswd] at h
  split at h
  · simp at h
  · split at h
    · simp at h
    · rename_i hpw
      split at h
      · simp at h
      · rename_i sd hsd
        split at h
        · simp at h
        · rename_i hne
          split at h
          · simp at h
          · rename_i accts' hre
            split at h
            · simp only [Prod.mk.injEq, and_true] at h
              subst h
              have hspec := reencAll_spec C old new ivs s.accts 0 accts' hre
              refine ⟨by simpa [eq_comm] using hpw, rfl, ⟨sd, hsd, by simpa using hne, ?_⟩, hspec.1, ?_⟩
              · simp [gcmDecrypt, gcm_roundtrip A new nonce sd hn]
              · intro j a hj
                obtain ⟨a', ha', hr⟩ := hspec.2 j a hj
                have := reenc_account_preserves C old new (ivs (0 + j)) a a' (hiv _) hr
                exact ⟨a', ha', this.1, this.2.1, this.2.2⟩
            · simp at h

/-- **A failed password change changes nothing** (wrong old password, invalid new password, undecryptable
seed, a panic in the loop, a failed batch write): the store is exactly what it was, so everything still
decrypts under the old password. -/
theorem setpasswd_failure_unchanged (C : BlockCipher) (A : AEAD) (old new nonce : Bytes) (ivs : Nat → Bytes)
    (writeOk : Bool) (s s' : Store) (o : SpOut)
    (h : setPasswd C A old new nonce ivs writeOk s = (s', o)) (hf : o ≠ .ok) : s' = s := by
  simp only [setPasswd] at h
  repeat' split at h
  all_goals (simp only [Prod.mk.injEq] at h; obtain ⟨rfl, rfl⟩ := h)
  all_goals first | rfl | exact absurd rfl hf

/-- non-vacuity: a store with a legacy seed record, one new-format and one legacy key record; the change
succeeds and all three decrypt under the new password (toy cipher / nonce-tag AEAD, evaluated by the kernel). -/
example :
    let C := toyCipher
    let A := nonceTagAead
    let old : Bytes := [111, 108, 100, 112, 97, 115, 115, 49]      -- "oldpass1"
    let new : Bytes := [110, 101, 119, 112, 97, 115, 115, 50]      -- "newpass2"
    let k1 : Bytes := List.replicate 32 7
    let k2 : Bytes := List.replicate 64 9
    let sd : Bytes := [1, 2, 3, 4, 5, 6, 7, 8, 9, 10, 11, 12, 13, 14]
    let iv : Bytes := List.replicate 16 3
    let b1 := match cbcEncrypt C old iv k1 with | .ok b => b | .panic => []
    let b2 := match cbcLegacyEncrypt C old k2 with | .ok b => b | .panic => []
    let s : Store := { pw := old, seed := gcmLegacyEncrypt A old sd, accts := [⟨1, b1, true⟩, ⟨2, b2, true⟩] }
    let r := setPasswd C A old new (List.replicate 12 5) (fun _ => iv) true s
    r.2 = .ok ∧ gcmDecrypt A new r.1.seed = some sd ∧
      (r.1.accts.map (fun a => cbcDecrypt C new a.blob)) = [.ok k1, .ok k2] := by decide

/-- every secret of the store is recoverable under the store's CURRENT password: the seed decrypts to `sd`, the
j-th account record is well-formed and decrypts to the j-th key `keys[j]` (of a supported length). -/
def Recoverable (C : BlockCipher) (A : AEAD) (s : Store) (sd : Bytes) (keys : List Bytes) : Prop :=
  gcmDecrypt A s.pw s.seed = some sd ∧ sd ≠ [] ∧ s.accts.length = keys.length ∧
  ∀ (j : Nat) (a : Acct), s.accts[j]? = some a →
    a.addrOk = true ∧ ∃ k : Bytes, keys[j]? = some k ∧ (k.length = 32 ∨ k.length = 64) ∧ cbcDecrypt C s.pw a.blob = .ok k

/-- one password change, successful or not, keeps every secret recoverable under the current password. -/
theorem setpasswd_keeps_recoverable (C : BlockCipher) (A : AEAD) (r : Req) (s : Store) (sd : Bytes) (keys : List Bytes)
    (hn : r.nonce.length = 12) (hiv : ∀ i, (r.ivs i).length = 16) (hrec : Recoverable C A s sd keys) :
    Recoverable C A (setPasswd C A r.old r.new r.nonce r.ivs r.writeOk s).1 sd keys := by
  cases hsp : setPasswd C A r.old r.new r.nonce r.ivs r.writeOk s with
  | mk s' o =>
    by_cases ho : o = .ok
    · subst ho
      obtain ⟨hold, hnew, ⟨sd', hsd1, _, hsd2⟩, hlen, hacc⟩ :=
        setpasswd_preserves C A r.old r.new r.nonce r.ivs r.writeOk s s' hn hiv hsp
      obtain ⟨hs, hne, hl, hk⟩ := hrec
      rw [hold] at hs hk
      have : sd' = sd := by rw [hs] at hsd1; exact (Option.some.inj hsd1).symm
      subst this
      refine ⟨by simp only [hnew]; exact hsd2, hne, by simp only [hlen, hl], ?_⟩
      intro j a' ha'
      have hj : j < s.accts.length := by
        have := (List.getElem?_eq_some_iff.mp ha').1
        simpa [hlen] using this
      obtain ⟨a1, ha1, _, hok, hdec⟩ := hacc j s.accts[j] (List.getElem?_eq_getElem hj)
      have : a1 = a' := by rw [ha'] at ha1; exact (Option.some.inj ha1).symm
      subst this
      obtain ⟨haok, k, hkj, hkl, hkd⟩ := hk j s.accts[j] (List.getElem?_eq_getElem hj)
      exact ⟨by rw [hok]; exact haok, k, hkj, hkl, by simp only [hnew]; exact hdec k hkd hkl haok⟩
    · have := setpasswd_failure_unchanged C A r.old r.new r.nonce r.ivs r.writeOk s s' o hsp ho
      simp only [this]
      exact hrec

/-- **Histories**: after ANY list of successful and failed password changes (wrong old passwords, invalid new
ones, failed batch writes, …) the seed and every stored key decrypt under the wallet's current password to the
same values as before the history. -/
theorem history_keeps_every_secret (C : BlockCipher) (A : AEAD) (sd : Bytes) (keys : List Bytes) :
    ∀ (rs : List Req) (s : Store), (∀ r ∈ rs, r.nonce.length = 12 ∧ ∀ i, (r.ivs i).length = 16) →
      Recoverable C A s sd keys → Recoverable C A (runSetPasswd C A rs s) sd keys
  | [], s, _, h => h
  | r :: rs, s, hr, h =>
    history_keeps_every_secret C A sd keys rs _ (fun x hx => hr x (List.mem_cons_of_mem _ hx))
      (setpasswd_keeps_recoverable C A r s sd keys (hr r List.mem_cons_self).1 (hr r List.mem_cons_self).2 h)

/-- The well-formedness hypothesis (`addrOk`: non-empty `Addr`, which every record written by the wallet has,
GetAccountByte refuses anything else) is needed: for a record with an empty `Addr` the error of
SetWalletAccountInBatch is only logged, the change still succeeds, and that record — left under the old password —
no longer decrypts to its key under the new one (CBC gives garbage, not an error).  Replayed on the real store by
the harness (`w.addbad`), on a record injected behind the wallet's back. -/
theorem malformed_record_is_left_behind :
    let C := toyCipher
    let A := nonceTagAead
    let old : Bytes := [111, 108, 100, 112, 97, 115, 115, 49]
    let new : Bytes := [110, 101, 119, 112, 97, 115, 115, 50]
    let k1 : Bytes := List.replicate 32 7
    let iv : Bytes := List.replicate 16 3
    let b1 := match cbcEncrypt C old iv k1 with | .ok b => b | .panic => []
    let s : Store := { pw := old, seed := gcmEncrypt A old (List.replicate 12 5) [1, 2, 3], accts := [⟨1, b1, false⟩] }
    let r := setPasswd C A old new (List.replicate 12 5) (fun _ => iv) true s
    r.2 = .ok ∧ r.1.pw = new ∧ cbcDecrypt C old b1 = .ok k1 ∧
      (r.1.accts.map (fun a => cbcDecrypt C new a.blob == .ok k1)) = [false] := by decide

/-- non-vacuity of `history_keeps_every_secret`: a recoverable store and a history with a failed and a successful change. -/
example :
    let C := toyCipher
    let A := nonceTagAead
    let p0 : Bytes := [111, 108, 100, 112, 97, 115, 115, 49]
    let p1 : Bytes := [110, 101, 119, 112, 97, 115, 115, 50]
    let k1 : Bytes := List.replicate 32 7
    let iv : Bytes := List.replicate 16 3
    let b1 := match cbcLegacyEncrypt C p0 k1 with | .ok b => b | .panic => []
    let s : Store := { pw := p0, seed := gcmLegacyEncrypt A p0 [1, 2, 3, 4, 5, 6, 7, 8, 9, 10, 11, 12, 13, 14], accts := [⟨1, b1, true⟩] }
    let rs : List Req := [⟨p1, p0, List.replicate 12 5, fun _ => iv, true⟩, ⟨p0, p1, List.replicate 12 5, fun _ => iv, false⟩,
                          ⟨p0, p1, List.replicate 12 5, fun _ => iv, true⟩]
    let s' := runSetPasswd C A rs s
    s'.pw = p1 ∧ gcmDecrypt A s'.pw s'.seed = some [1, 2, 3, 4, 5, 6, 7, 8, 9, 10, 11, 12, 13, 14] ∧
      s'.accts.map (fun a => cbcDecrypt C s'.pw a.blob) = [.ok k1] := by decide

end C37
