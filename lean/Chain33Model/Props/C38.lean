import Chain33Model.Proofs.C38
/-!
C38 — Wallet never appears unlocked without a successful unlock.  Property theorems only.

`Reach v s` (Proofs/C38.lean): `s` is reachable by ANY interleaving, of any length, of the atomic steps of
ProcWalletUnLock / ProcWalletLock / the unlock-timeout callback / status readers / guarded handlers /
wallet restart and the micro-steps of ProcWalletSetPasswd in variant `v`.  `auth` is the ghost "a
successful unlock happened since the last lock / timeout / restart".  The property is the invariant
`locked = false → auth = true` (observers and guarded handlers read exactly the flag).

The code as it is (`code`, /repo since fd9f097: ProcWalletSetPasswd never touches the flag) satisfies the FULL
statement: `full_statement`, `guarded_secret_needs_unlock`, `password_change_never_touches_flag`.

The theorems named `regression_old_…` are about the two OLD variants of ProcWalletSetPasswd (`oldCode`: before
fd9f097; `oldVerifyFirst`: a rejected smaller repair).  They record the two defects this check found and
reproduced on the real code, and are kept as regression witnesses: should the temporary unlock ever come back,
these are the interleavings to replay (`./check C38` with VERIF_C38_VARIANT=old):
* `regression_old_transient_unlock` — the flag was cleared before the old password was verified; an observer saw
  `unlocked` during a password change that then failed (S-C38);
* `regression_old_lost_lock` — a Lock / timeout between `tempislock := load` and the CAS was undone by the CAS and
  the deferred restore put back "unlocked": the wallet stayed unlocked, and guarded handlers returned secrets,
  after a lock — also after a FAILED password change.
-/
namespace C38

/-- The property, for a variant of ProcWalletSetPasswd: in every reachable state the wallet is unlocked only
if a successful unlock happened since the last lock / timeout / restart. -/
def Statement (v : Variant) : Prop := ∀ s, Reach v s → s.locked = false → s.auth = true

/-- The full statement about the code as it is. -/
def FullStatement : Prop := Statement code

/-- S-C38 as a trace: wallet locked, nobody ever unlocks; SetPasswd with a WRONG old password; between its
CAS and its password check a status reader sees `unlocked`; the call then fails and restores the flag. -/
theorem regression_old_transient_unlock :
    (run oldCode {} [.spBegin false true true, .spStep, .spStep, .read, .spStep, .spStep, .read]).map (·.2) =
      some [.mid, .mid, .mid, .flag false, .mid, .ret .errVerify, .flag true] := by decide

/-- **The full statement is false of the oldCode code.** -/
theorem regression_old_statement_false : ¬ Statement oldCode := by
  intro h
  have hr : Reach oldCode { locked := false, sp := some ⟨.verify, true, false, true, true, .ok⟩ } :=
    reach_of_run_state oldCode [.spBegin false true true, .spStep, .spStep] {} _ (Reach.init false) (by decide)
  exact absurd (h _ hr rfl) (by decide)

/-- Second defect found by the model: unlock; SetPasswd (wrong old password) reads `tempislock = 0`; a Lock
(or the unlock timeout) locks the wallet; the CAS(1→0) unlocks it again; the call fails; the deferred
CAS(0→tempislock) restores "unlocked".  Afterwards no call is running, the last flag operation requested
by a user was a lock, yet readers see `unlocked` and a guarded handler returns a secret. -/
theorem regression_old_lost_lock :
    (run oldCode {} [.unlock true false false, .spBegin false true true, .spStep, .lock, .spStep, .spStep,
                     .spStep, .read, .guarded]).map (fun r => (r.1.auth, r.1.sp, r.2)) =
      some (false, none, [.ok, .mid, .mid, .ok, .mid, .mid, .ret .errVerify, .flag false, .secret]) := by decide

/-- The lost lock survives the minimal repair "verify the old password first" (with the right old password). -/
theorem regression_old_verify_first_lost_lock :
    (run oldVerifyFirst {} [.unlock true false true, .spBegin true true true, .spStep, .spStep, .timer, .spStep,
                          .spStep, .spStep, .spStep, .read, .guarded]).map (fun r => (r.1.auth, r.1.sp, r.2)) =
      some (false, none, [.ok, .mid, .mid, .mid, .ok, .mid, .mid, .mid, .ret .ok, .flag false, .secret]) := by
  decide

theorem regression_old_verify_first_statement_false : ¬ Statement oldVerifyFirst := by
  intro h
  have hr := reach_of_run_state oldVerifyFirst [.unlock true false true, .spBegin true true true, .spStep, .spStep,
    .timer, .spStep] {} { locked := false, memPw := true, sp := some ⟨.seedCheck, false, true, true, true, .ok⟩ }
    (Reach.init false) (by decide)
  exact absurd (h _ hr rfl) (by decide)

/-- **The full statement, for the code as it is** (ProcWalletSetPasswd reads the seed with the store-level
`GetSeed` and never writes the flag): every interleaving of unlock / lock / timeout / readers / guarded handlers /
restarts / password changes, of every length. -/
theorem full_statement : FullStatement :=
  fun _ hr hl => (reach_code_inv hr).2 hl

/-- **A password change — failed or successful, with any old password — never makes the wallet appear or act
unlocked**: every micro-step of ProcWalletSetPasswd leaves the flag (and the ghost) exactly as it is, in every
reachable state, under every schedule. -/
theorem password_change_never_touches_flag {s s' : State} {o : Out} (hr : Reach code s)
    (h : step code s .spStep = some (s', o)) : s'.locked = s.locked ∧ s'.auth = s.auth := by
  cases hsp : s.sp with
  | none => simp [step, hsp] at h
  | some c =>
    simp only [step, hsp, Option.some.injEq] at h
    have hc := (reach_struct hr c hsp).2.2 rfl rfl
    have := code_spExec_flag s c hc.1 hc.2
    rw [h] at this
    exact this

/-- non-vacuity: a failing and a successful password change on a locked wallet with readers in between, then an
unlock, a guarded request, a timeout — the flag is `locked` at every point before the unlock. -/
example : (run code {} [.spBegin false true true, .read, .spStep, .read, .spBegin true true true, .spStep, .read,
      .spStep, .read, .guarded, .unlock true false true, .guarded, .timer, .guarded]).map (·.2) =
    some [.mid, .flag true, .ret .errVerify, .flag true, .mid, .mid, .flag true,
          .ret .ok, .flag true, .err "ErrWalletIsLocked", .ok, .secret, .ok, .err "ErrWalletIsLocked"] := by decide

/-- … and there a guarded handler returns a secret only after a successful unlock. -/
theorem guarded_secret_needs_unlock {s s' : State} (hr : Reach code s)
    (h : step code s .guarded = some (s', .secret)) : s.auth = true := by
  apply (reach_code_inv hr).2
  simp only [step] at h
  split at h
  · simp at h
  · split at h
    · simp at h
    · simpa using ‹¬ s.locked = true›

/-- **A SignRawTx request is signed with a STORED key only after a successful unlock** — for every combination of
its two key-selecting fields (`Addr`: empty / a wallet address / another address; `Privkey`: empty / well-formed /
garbage), in every reachable state, under every schedule. (`Addr` wins over `Privkey`, as in ProcSignRawTx.) -/
theorem sign_with_stored_key_needs_unlock {s s' : State} (a : AddrKind) (p : PrivKind) (hr : Reach code s)
    (h : step code s (.sign a p) = some (s', .secret)) : s.auth = true := by
  apply (reach_code_inv hr).2
  simp only [step] at h
  split at h
  · simp at h
  · simp only [Option.some.injEq, Prod.mk.injEq] at h
    cases hl : s.locked with
    | false => rfl
    | true => cases a <;> cases p <;> simp [signOut, hl] at h

/-- on a locked wallet (any variant, any state) no field combination makes SignRawTx use a stored key: with an
`Addr` the answer is ErrWalletIsLocked (ErrOnlyTicketUnLocked in ticket mode) whatever `Privkey` holds; without one only the caller's own key signs. -/
theorem sign_locked_never_uses_stored_key (v : Variant) (s s' : State) (o : Out) (a : AddrKind) (p : PrivKind)
    (hl : s.locked = true) (h : step v s (.sign a p) = some (s', o)) :
    s' = s ∧ o ≠ .secret ∧ (a ≠ .none → o = .err (lockedErr s)) := by
  simp only [step] at h
  split at h
  · simp at h
  · simp only [Option.some.injEq, Prod.mk.injEq] at h
    obtain ⟨rfl, rfl⟩ := h
    cases a <;> cases p <;> simp [signOut, hl]

/-- non-vacuity / the request shapes: locked wallet with both fields → refused; unlocked → the stored key of `Addr`
signs although a key was supplied; no `Addr` → the supplied key signs in any state. -/
example : (run code {} [.sign .wallet .valid, .sign .wallet .garbage, .sign .none .valid, .unlock true false false,
      .sign .wallet .valid, .sign .foreign .valid, .lock, .sign .wallet .valid, .sign .none .none]).map (·.2) =
    some [.err "ErrWalletIsLocked", .err "ErrWalletIsLocked", .supplied, .ok, .secret, .err "ErrAddrNotExist", .ok,
          .err "ErrWalletIsLocked", .err "ErrNoPrivKeyOrAddr"] := by decide

/-- **Declared scope — ticket (mining) mode.**  Two paths accept "wallet locked, ticket unlocked" BY DESIGN:
`GetAllPrivKeys` (plugin interface, no message handler calls it) and `ProcSendToAddress` when the destination is
the consensus contract (`isTransfer`).  They hand out / use stored keys only after a successful unlock OR while a
registered mineStatusReporter reports the ticket unlocked — which the wallet does not control (plugin state; no
reporter exists in this repository, so `ticket = false` and the paths refuse on a locked wallet). -/
theorem ticket_path_needs_unlock_or_ticket_mode {s s' : State} (hr : Reach code s)
    (h : step code s .guardedTicket = some (s', .secret)) : s.auth = true ∨ s.ticket = true := by
  simp only [step] at h
  split at h
  · simp at h
  · cases hl : s.locked with
    | false => exact Or.inl ((reach_code_inv hr).2 hl)
    | true =>
      cases ht : s.ticket with
      | true => exact Or.inr rfl
      | false => simp [hl, ht] at h

/-- every OTHER request (the guarded handlers, SignRawTx in every field combination) refuses on a locked wallet
also in ticket mode — only the error kind changes. -/
theorem ticket_mode_does_not_open_requests (v : Variant) (s s' : State) (o : Out) (hl : s.locked = true) :
    (step v s .guarded = some (s', o) → o = .err (lockedErr s)) ∧
    (∀ a p, step v s (.sign a p) = some (s', o) → o ≠ .secret) := by
  refine ⟨fun h => ?_, fun a p h => ?_⟩
  · simp only [step] at h
    split at h
    · simp at h
    · simp only [hl, if_true, Option.some.injEq, Prod.mk.injEq] at h; exact h.2.symm
  · simp only [step] at h
    split at h
    · simp at h
    · simp only [Option.some.injEq, Prod.mk.injEq] at h
      rw [← h.2]
      cases a <;> cases p <;> simp [signOut, hl]

/-- the ticket-mode path exists: locked wallet, reporter says "ticket unlocked" → the two paths answer, every
other request answers ErrOnlyTicketUnLocked; once the reporter says "locked" again they refuse. -/
example : (run code {} [.guardedTicket, .reporter true, .read, .guardedTicket, .guarded, .sign .wallet .valid,
      .reporter false, .guardedTicket]).map (·.2) =
    some [.err "ErrWalletIsLocked", .ok, .flag true, .secret, .err "ErrOnlyTicketUnLocked",
          .err "ErrOnlyTicketUnLocked", .ok, .err "ErrWalletIsLocked"] := by decide

/-- (any variant; subsumed by `full_statement` for the code as it is): over all interleavings of unlock (right / wrong password,
wallet or ticket-only, with / without timeout), lock, timeout, readers, guarded handlers and restarts the
wallet is unlocked only after a successful unlock and before the next lock / timeout. -/
theorem unlocked_needs_unlock_without_password_change {v : Variant} {s : State} (h : ReachNoSp v s)
    (hl : s.locked = false) : s.auth = true := by
  have hi := reachS_inv (noSp_reachS h)
  have hn := noSp_sp_none h
  simp only [InvG, hn] at hi
  exact hi.2 hl

/-- (old variants, regression) — added hypothesis `Sched`: no lock / timeout step falls
between the `load` and the `cas` of a running ProcWalletSetPasswd.  Then the ONLY states in which the wallet
is unlocked without a preceding successful unlock are those inside the temporary-unlock window of a running
password change that found the wallet locked (`temp = true`, restore registered). -/
theorem regression_old_unlocked_only_in_window {v : Variant} {s : State} (h : ReachS v s)
    (hl : s.locked = false) :
    s.auth = true ∨ ∃ c, s.sp = some c ∧ c.deferOn = true ∧ c.temp = true := by
  have hi := reachS_inv h
  simp only [InvG] at hi
  cases hsp : s.sp with
  | none => simp only [hsp] at hi; exact Or.inl (hi.2 hl)
  | some c =>
    simp only [hsp, CallInv] at hi
    obtain ⟨_, _, _, _, _, hflag⟩ := hi
    by_cases hd : c.deferOn = true
    · simp only [hd, if_true] at hflag
      cases ht : c.temp with
      | false => exact Or.inl (hflag.1 ht hl)
      | true => exact Or.inr ⟨c, rfl, hd, ht⟩
    · simp only [hd] at hflag
      exact Or.inl (hflag.1 hl)

/-- … in particular whenever no password change is running the flag tells the truth, so a guarded handler
(which needs `wallet.mtx`, i.e. no running password change) returns a secret only after a successful unlock. -/
theorem regression_old_quiescent_unlocked_needs_unlock {v : Variant} {s : State} (h : ReachS v s)
    (hq : s.sp = none) (hl : s.locked = false) : s.auth = true := by
  rcases regression_old_unlocked_only_in_window h hl with ha | ⟨c, hc, _⟩
  · exact ha
  · rw [hq] at hc; simp at hc

theorem regression_old_guarded_secret_needs_unlock {v : Variant} {s s' : State} (hr : ReachS v s)
    (h : step v s .guarded = some (s', .secret)) : s.auth = true := by
  simp only [step] at h
  split at h
  · simp at h
  · rename_i hq
    split at h
    · simp at h
    · exact regression_old_quiescent_unlocked_needs_unlock hr hq (by simpa using ‹¬ s.locked = true›)

/-- (old verify-first variant, regression): under the same scheduling hypothesis, an
unauthorised "unlocked" is seen only while a password change whose OLD PASSWORD WAS VERIFIED is running. -/
theorem regression_old_verify_first_window {s : State} (h : ReachS oldVerifyFirst s) (hr : Reach oldVerifyFirst s)
    (hl : s.locked = false) :
    s.auth = true ∨ ∃ c, s.sp = some c ∧ c.deferOn = true ∧ c.temp = true ∧ c.oldOk = true := by
  rcases regression_old_unlocked_only_in_window h hl with ha | ⟨c, hc, hd, ht⟩
  · exact Or.inl ha
  · refine Or.inr ⟨c, hc, hd, ht, ?_⟩
    have hs := reach_struct hr c hc
    apply hs.2.1 rfl
    intro hn
    have := hs.1 rfl hn
    rw [hd] at this
    exact absurd this (by decide)

/-- **With verification first, a password change with a wrong old password never touches the flag** — under
every schedule (no hypothesis): each of its micro-steps leaves flag and ghost as they are. -/
theorem regression_old_verify_first_failed_change_harmless {s s' : State} {o : Out} (hr : Reach oldVerifyFirst s) (c : Call)
    (hc : s.sp = some c) (hw : c.oldOk = false) (h : step oldVerifyFirst s .spStep = some (s', o)) :
    s'.locked = s.locked ∧ s'.auth = s.auth ∧ s'.sp = none ∧ o = .ret .errVerify := by
  have hs := reach_struct hr c hc
  have hn : c.nxt = .verify := by
    by_cases hn : c.nxt = .verify
    · exact hn
    · have := hs.2.1 rfl hn; rw [hw] at this; exact absurd this (by decide)
  have hd := hs.1 rfl hn
  simp only [step, hc, Option.some.injEq] at h
  obtain ⟨nxt, temp, oldOk, writeOk, deferOn, res⟩ := c
  simp only at hw hn hd
  subst hw; subst hn; subst hd
  simp only [spExec, failWith] at h
  obtain ⟨rfl, rfl⟩ := h
  simp

/-- Only status readers (and Lock / the timer) run while a password change holds `wallet.mtx`: an unlock or
a guarded handler (key dump, seed, signing, transfer) is not enabled, so the transient state of
`regression_old_transient_unlock` can be *seen* but not *used* — unlike the lost lock. -/
theorem window_excludes_guarded (v : Variant) (s : State) (c : Call) (hc : s.sp = some c) :
    step v s .guarded = none ∧ (∀ a p, step v s (.sign a p) = none) ∧ (∀ a b t, step v s (.unlock a b t) = none) ∧
    (∀ a b w, step v s (.spBegin a b w) = none) := by
  simp [step, hc]

/-- a lock and a fired timeout lock the wallet, from every state; an unlock with a wrong password changes nothing. -/
theorem lock_locks (v : Variant) (s s' : State) (o : Out) (l : Label) (hl : l = .lock ∨ l = .timer)
    (h : step v s l = some (s', o)) : s'.locked = true ∧ s'.auth = false := by
  rcases hl with rfl | rfl <;> simp only [step] at h
  · simp only [Option.some.injEq, Prod.mk.injEq] at h; rw [← h.1]; simp
  · split at h
    · simp only [Option.some.injEq, Prod.mk.injEq] at h; rw [← h.1]; simp
    · simp at h

theorem unlock_wrong_password_no_change (v : Variant) (s s' : State) (o : Out) (b t : Bool)
    (h : step v s (.unlock false b t) = some (s', o)) : s' = s := by
  simp only [step] at h
  split at h
  · simp at h
  · simp only [Bool.not_false, if_true, Option.some.injEq, Prod.mk.injEq] at h; exact h.1.symm

/-- a guarded handler on a locked wallet answers ErrWalletIsLocked (ErrOnlyTicketUnLocked when a mining plugin
reports the ticket unlocked) — never a secret —, in every state. -/
theorem guarded_locked (v : Variant) (s s' : State) (o : Out) (hl : s.locked = true)
    (h : step v s .guarded = some (s', o)) : o = .err (lockedErr s) ∧ s' = s := by
  simp only [step] at h
  split at h
  · simp at h
  · simp only [hl, if_true, Option.some.injEq, Prod.mk.injEq] at h; exact ⟨h.2.symm, h.1.symm⟩

/-- the scheduling hypothesis of the partial theorems is necessary: the lost-lock trace violates exactly it. -/
theorem regression_old_sched_hypothesis_necessary :
    ∃ s, Reach oldCode s ∧ s.sp = none ∧ s.locked = false ∧ s.auth = false :=
  ⟨_, reach_of_run_state oldCode [.unlock true false false, .spBegin false true true, .spStep, .lock, .spStep,
        .spStep, .spStep] {} { locked := false, memPw := true } (Reach.init false) (by decide), rfl, rfl, rfl⟩

/-- non-vacuity: a complete successful password change on a locked wallet with cached password, then an
unlock, a guarded request, a timeout — all under `Sched`-respecting schedules; the hypotheses of the partial
theorems are met by non-trivial states (an unlocked, authorised one and one inside the window). -/
example : (run oldCode { memPw := true } [.spBegin true true true, .spStep, .spStep, .read, .spStep, .spStep,
      .spStep, .spStep, .read, .unlock true false true, .guarded, .timer, .guarded]).map (·.2) =
    some [.mid, .mid, .mid, .flag false, .mid, .mid, .mid, .ret .ok, .flag true, .ok, .secret, .ok,
          .err "ErrWalletIsLocked"] := by decide

example : ∃ s, ReachS oldCode s ∧ s.locked = false ∧ s.auth = true :=
  ⟨{ locked := false, auth := true, memPw := true },
   ReachS.step (l := .unlock true false false) (o := .ok) (ReachS.init true) (by intro h; cases h <;> contradiction) (by decide),
   rfl, rfl⟩

example : ∃ s c, ReachS oldCode s ∧ s.locked = false ∧ s.auth = false ∧ s.sp = some c ∧ c.deferOn = true ∧ c.temp = true :=
  ⟨{ locked := false, sp := some ⟨.verify, true, false, true, true, .ok⟩ }, ⟨.verify, true, false, true, true, .ok⟩,
   ReachS.step (l := .spStep) (o := .mid) (s := { sp := some ⟨.cas, true, false, true, false, .ok⟩ })
      (ReachS.step (l := .spStep) (o := .mid) (s := { sp := some ⟨.load, false, false, true, false, .ok⟩ })
        (ReachS.step (l := .spBegin false true true) (o := .mid) (ReachS.init false)
          (by intro h; cases h <;> contradiction) (by decide))
        (by intro h; cases h <;> contradiction) (by decide))
      (by intro h; cases h <;> contradiction) (by decide), rfl, rfl, rfl, rfl, rfl⟩

example : ∃ s, ReachNoSp oldCode s ∧ s.locked = false :=
  ⟨{ locked := false, auth := true, memPw := true },
   ReachNoSp.step (l := .unlock true false false) (o := .ok) (ReachNoSp.init true)
     (by intro a b c h; cases h) (by intro h; cases h) (by decide), rfl⟩

end C38
