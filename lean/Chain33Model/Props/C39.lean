import Chain33Model.Model.C39
import Chain33Model.Proofs.C39
/-!
C39 — RPC access control holds for every request shape.  Property theorems only.

The specification side is written from the property text, in terms of the *configuration*
(not of the derived package maps): an address is admitted only if it is on the configured IP
whitelist under either accepted key or the whitelist is a wildcard; a method runs only if it is
whitelisted and not blacklisted; basic authentication must succeed when configured.
-/
namespace C39

/-- the configured whitelist is the documented wildcard: `*` as the only entry of a key
(chain33.toml / types.RPC: "默认是“*”，允许所有IP访问"). -/
abbrev StarWildcard (c : Cfg) : Prop := c.whitelist = ["*"] ∨ c.whitlist = ["*"]

/-- **Named assumption `zero-entry-is-wildcard`** (not in the property text, not in the configuration
comments): the code encodes `*` internally as the map key `0.0.0.0` and therefore also treats a configured
*entry* `0.0.0.0`, anywhere in a list, as "every address".  All three endpoints do so consistently. -/
abbrev ZeroEntry (c : Cfg) : Prop := "0.0.0.0" ∈ c.whitelist ∨ "0.0.0.0" ∈ c.whitlist

/-- wildcard as the code understands it: the documented `*`, or (assumption above) an entry `0.0.0.0`. -/
abbrev Wildcard (c : Cfg) : Prop := StarWildcard c ∨ ZeroEntry c

/-- the client address is on the configured IP whitelist under either accepted key. -/
abbrev OnWhitelist (c : Cfg) (ip : IP) : Prop := ip.norm ∈ c.whitelist ∨ ip.norm ∈ c.whitlist

abbrev MethodWhitelisted (wl : List String) (fn : String) : Prop := wl = [] ∨ "*" ∈ wl ∨ fn ∈ wl

/-- not blacklisted; an empty configured blacklist means the built-in one (`CloseQueue`). -/
abbrev MethodNotBlacklisted (bl : List String) (fn : String) : Prop :=
  fn ∉ bl ∧ (bl = [] → fn ≠ "CloseQueue")

abbrev AuthOK (c : Cfg) (cr : Cred) : Prop := (c.user = "" ∧ c.pass = "") ∨ cr = .pair c.user c.pass

/-- what one `InitIPWhitelist` call contributes: a looked-up key found among the added entries is
configured (or is the default / wildcard encoding). -/
theorem ipEntries_mem (c : Cfg) (x : String) (h : x ∈ ipEntries c) :
    x = "127.0.0.1" ∨ (x = "0.0.0.0" ∧ StarWildcard c) ∨ x ∈ c.whitelist ∨ x ∈ c.whitlist := by
  unfold ipEntries at h
  unfold StarWildcard
  split at h
  · simp at h; exact Or.inl h
  · split at h
    · rename_i hw; simp at hw; simp at h; simp [hw, h]
    · split at h
      · rename_i hw; simp at hw; simp at h; simp [hw, h]
      · split at h
        · exact Or.inr (Or.inr (Or.inl h))
        · exact Or.inr (Or.inr (Or.inr h))

/-- **IP gate** (no side hypothesis: `norm_ne_default` discharges the default entry). -/
theorem ip_gate (c : Cfg) (ip : IP) (h : mainIPAdmit c ip = true) (hl : ip.isLoopback = false) :
    OnWhitelist c ip ∨ Wildcard c := by
  have hd := norm_ne_default ip hl
  unfold mainIPAdmit ipAdmitS ipSet ipAdd at h
  simp only [hl, Bool.false_or, Bool.or_eq_true, List.contains_iff_mem, List.nil_append] at h
  unfold OnWhitelist Wildcard ZeroEntry
  rcases h with h | h
  · rcases ipEntries_mem c _ h with h | ⟨_, h⟩ | h | h
    · exact absurd h (by decide)
    · exact Or.inr (Or.inl h)
    · exact Or.inr (Or.inr (Or.inl h))
    · exact Or.inr (Or.inr (Or.inr h))
  · rcases ipEntries_mem c _ h with h | ⟨_, h⟩ | h | h
    · exact absurd h hd
    · exact Or.inr (Or.inl h)
    · exact Or.inl (Or.inl h)
    · exact Or.inl (Or.inr h)

/-- without the `0.0.0.0` assumption: if no configured entry is `0.0.0.0`, an admitted non-loopback address
is on the configured whitelist or the whitelist is the documented `*`. -/
theorem ip_gate_strict (c : Cfg) (ip : IP) (h : mainIPAdmit c ip = true) (hl : ip.isLoopback = false)
    (hz : ¬ ZeroEntry c) : OnWhitelist c ip ∨ StarWildcard c := by
  rcases ip_gate c ip h hl with h | h | h
  · exact Or.inl h
  · exact Or.inr h
  · exact absurd h hz

example : mainIPAdmit { whitelist := ["10.0.0.7"] } (.v4 10 0 0 7) = true ∧ (IP.v4 10 0 0 7).isLoopback = false ∧
    ¬ ZeroEntry { whitelist := ["10.0.0.7"] } := by decide

/-- the assumption is needed: an entry `0.0.0.0` beside other entries admits an address that is neither
listed nor covered by `*` (shown on the real code by the differential run, op `ipmain`). -/
theorem zero_entry_admits_unlisted :
    let c : Cfg := { whitelist := ["10.0.0.7", "0.0.0.0"] }
    mainIPAdmit c (.v4 8 8 8 8) = true ∧ ethIPAdmit c (.v4 8 8 8 8) = true ∧
      ¬ OnWhitelist c (.v4 8 8 8 8) ∧ ¬ StarWildcard c := by decide

theorem auth_gate (c : Cfg) (cr : Cred) (h : authOk c cr = true) : AuthOK c cr := by
  unfold authOk at h
  unfold AuthOK
  split at h
  · rename_i hc; simp at hc; exact Or.inl hc
  · cases cr with
    | none => simp at h
    | pair u p => simp at h; right; simp [h.1, h.2]

theorem jfunc_gate (c : Cfg) (fn : String) (h : jFuncOk c fn = true) :
    MethodWhitelisted c.jWL fn ∧ MethodNotBlacklisted c.jBL fn := by
  unfold jFuncOk jWLset jBLset at h
  unfold MethodWhitelisted MethodNotBlacklisted
  simp only [Bool.and_eq_true, Bool.not_eq_true', Bool.or_eq_true, List.contains_iff_mem] at h
  obtain ⟨hb, hw⟩ := h
  constructor
  · by_cases e : c.jWL = []
    · exact Or.inl e
    · simp [e] at hw
      by_cases s : c.jWL = ["*"]
      · right; left; simp [s]
      · simp [s] at hw; rcases hw with hw | hw
        · exact Or.inr (Or.inl hw)
        · exact Or.inr (Or.inr hw)
  · by_cases e : c.jBL = []
    · simp [e] at hb ⊢; exact hb
    · simp [e] at hb; exact ⟨hb, fun h' => absurd h' e⟩

theorem gfunc_gate (c : Cfg) (fn : String) (h : gFuncOk c fn = true) :
    MethodWhitelisted c.gWL fn ∧ MethodNotBlacklisted c.gBL fn := by
  unfold gFuncOk gWLset gBLset at h
  unfold MethodWhitelisted MethodNotBlacklisted
  simp only [Bool.and_eq_true, Bool.not_eq_true', Bool.or_eq_true, List.contains_iff_mem] at h
  obtain ⟨hb, hw⟩ := h
  constructor
  · by_cases e : c.gWL = []
    · exact Or.inl e
    · simp [e] at hw
      by_cases s : c.gWL = ["*"]
      · right; left; simp [s]
      · simp [s] at hw; rcases hw with hw | hw
        · exact Or.inr (Or.inl hw)
        · exact Or.inr (Or.inr hw)
  · by_cases e : c.gBL = []
    · simp [e] at hb ⊢; exact hb
    · simp [e] at hb; exact ⟨hb, fun h' => absurd h' e⟩

/-- **JSON-RPC gate.** For every configuration, every non-loopback client address, every
credentials and every method string: the request reaches the dispatcher only if the address is
whitelisted (or the whitelist is a wildcard), the method (last dot segment) is whitelisted and not
blacklisted, and basic authentication succeeded when configured. -/
theorem jrpc_gate (c : Cfg) (ip : IP) (cr : Cred) (m : String)
    (h : jrpcReaches c ip cr m = true) (hl : ip.isLoopback = false) :
    (OnWhitelist c ip ∨ Wildcard c) ∧ AuthOK c cr ∧
      MethodWhitelisted c.jWL (lastSeg m '.') ∧ MethodNotBlacklisted c.jBL (lastSeg m '.') := by
  unfold jrpcReaches at h
  simp only [hl, Bool.false_or, Bool.and_eq_true] at h
  obtain ⟨⟨hi, ha⟩, hf⟩ := h
  exact ⟨ip_gate c ip hi hl, auth_gate c cr ha, jfunc_gate c _ hf⟩

/-- **Every request shape: the gate and the dispatcher read the same method.**  For every list of object
members (any key spelling, duplicates in any order, any value kinds) the `Method` that
`parseJSONRpcParams` hands to the method lists is the `ServiceMethod` that the `net/rpc/jsonrpc` codec
dispatches; and a body the gate decodes without error is decoded without error by the codec. -/
theorem gate_method_eq_dispatch_method (ms : List (String × JV)) :
    methodOf clientRequest ms = methodOf serverRequest ms := methodOf_client_eq_server ms

theorem gate_accepts_dispatch_same (b : Body) (m : String) (h : gateMethod b = some m) :
    dispatchMethod b = some m := gate_dispatch_agree b m h

/-- non-vacuity, on a body whose first, exactly spelled key is a decoy and whose later case-variant key
carries the real method: both sides read `Probe.Secret`. -/
example : gateMethod (.obj [("method", .str "Probe.Ping"), ("params", .arr), ("mEthod", .str "Probe.Secret"), ("id", .uint 1)])
      = some "Probe.Secret" ∧
    dispatchMethod (.obj [("method", .str "Probe.Ping"), ("params", .arr), ("mEthod", .str "Probe.Secret"), ("id", .uint 1)])
      = some "Probe.Secret" := by decide

/-- what the agreement theorem excludes: a gate that looks its keys up exactly (a `map[string]…` lookup
instead of struct decoding) judges the decoy while the codec dispatches the other method. -/
example : (let ms : List (String × JV) := [("method", .str "Probe.Ping"), ("Method", .str "Probe.Secret")]
    (ms.foldl (fun cur kv => if kv.1 == "method" then some kv.2 else cur) none, methodOf serverRequest ms))
    = (some (.str "Probe.Ping"), "Probe.Secret") := by decide

/-- **JSON-RPC gate over request bodies.** For every configuration, non-loopback client address, credentials
and request body: if the middleware hands a `ServiceMethod` `m` to `net/rpc`, then the address is whitelisted
(or wildcard), basic authentication succeeded when configured, and the *dispatched* method `m` — not merely
the one the gate looked at — is whitelisted and not blacklisted. -/
theorem jrpc_gate_body (c : Cfg) (ip : IP) (cr : Cred) (b : Body) (m : String)
    (h : jrpcServes c ip cr b = some m) (hl : ip.isLoopback = false) :
    (OnWhitelist c ip ∨ Wildcard c) ∧ AuthOK c cr ∧
      MethodWhitelisted c.jWL (lastSeg m '.') ∧ MethodNotBlacklisted c.jBL (lastSeg m '.') := by
  unfold jrpcServes at h
  split at h
  · exact absurd h (by simp)
  · rename_i hg
    simp only [Bool.not_eq_true', Bool.not_eq_false, Bool.and_eq_true] at hg
    split at h
    · exact absurd h (by simp)
    · rename_i g hgm
      simp only [hl, Bool.false_or] at h
      split at h
      · rename_i hf
        have hd := gate_dispatch_agree b g hgm
        rw [hd] at h
        have e : g = m := by simpa using h
        subst e
        exact ⟨ip_gate c ip hg.1 hl, auth_gate c cr hg.2, jfunc_gate c _ hf⟩
      · exact absurd h (by simp)

/-- … and the receiver method `net/rpc` then looks up (`ServiceMethod[LastIndex(".")+1:]`) is exactly the
segment the lists judged: **the method that runs** is whitelisted and not blacklisted. -/
theorem jrpc_method_that_runs (c : Cfg) (ip : IP) (cr : Cred) (b : Body) (m fn : String)
    (h : jrpcServes c ip cr b = some m) (hn : rpcMethodName m = some fn) (hl : ip.isLoopback = false) :
    (OnWhitelist c ip ∨ Wildcard c) ∧ AuthOK c cr ∧
      MethodWhitelisted c.jWL fn ∧ MethodNotBlacklisted c.jBL fn := by
  rw [rpcMethodName_eq_lastSeg m fn hn]
  exact jrpc_gate_body c ip cr b m h hl

example : rpcMethodName "x.Probe.Ping" = some "Ping" ∧ rpcMethodName "Ping" = none := by decide

example : jrpcServes { whitelist := ["10.0.0.7"], jWL := ["Version"], user := "u", pass := "p" }
    (.v4 10 0 0 7) (.pair "u" "p")
    (.obj [("METHOD", .str "Chain33.CloseQueue"), ("id", .uint 3), ("Method", .str "Chain33.Version"), ("params", .arr)])
      = some "Chain33.Version" ∧ (IP.v4 10 0 0 7).isLoopback = false := by decide

/-- loopback clients still have to authenticate. -/
theorem jrpc_auth_always (c : Cfg) (ip : IP) (cr : Cred) (m : String)
    (h : jrpcReaches c ip cr m = true) : AuthOK c cr := by
  unfold jrpcReaches at h
  simp only [Bool.and_eq_true] at h
  exact auth_gate c cr h.1.2

/-- **gRPC unary gate.** -/
theorem grpc_unary_gate (c : Cfg) (ip : IP) (m : String)
    (h : grpcUnaryReaches c ip m = true) (hl : ip.isLoopback = false) :
    (OnWhitelist c ip ∨ Wildcard c) ∧
      MethodWhitelisted c.gWL (lastSeg m '/') ∧ MethodNotBlacklisted c.gBL (lastSeg m '/') := by
  unfold grpcUnaryReaches at h
  simp only [Bool.and_eq_true] at h
  exact ⟨ip_gate c ip h.1 hl, gfunc_gate c _ h.2⟩

/-- **Full gRPC statement of the property text** ("a JSON-RPC or gRPC method runs only if … basic
authentication succeeds when configured"): the unary gate with the `AuthOK` conjunct. -/
def GrpcGateFull : Prop :=
  ∀ (c : Cfg) (ip : IP) (cr : Cred) (m : String), grpcUnaryReachesCred c ip cr m = true → ip.isLoopback = false →
    (OnWhitelist c ip ∨ Wildcard c) ∧ AuthOK c cr ∧
      MethodWhitelisted c.gWL (lastSeg m '/') ∧ MethodNotBlacklisted c.gBL (lastSeg m '/')

/-- **Refuted**: with `jrpcUserName`/`jrpcUserPasswd` configured, a gRPC call without credentials from a
whitelisted address runs (the same request over JSON-RPC stops at `auth`).  `grpc_unary_gate` /
`grpc_all_gated` are the proved part (`GrpcGateFull` minus the `AuthOK` conjunct).  The witness is replayed
on the real gRPC server from corpus/C39. -/
theorem grpc_runs_without_basic_auth :
    let c : Cfg := { whitelist := ["10.0.0.7"], user := "admin", pass := "pw" }
    grpcUnaryReachesCred c (.v4 10 0 0 7) .none "/types.chain33/Version" = true ∧
      (IP.v4 10 0 0 7).isLoopback = false ∧ ¬ AuthOK c .none ∧
      jrpcReaches c (.v4 10 0 0 7) .none "Chain33.Version" = false := by decide

theorem grpc_gate_full_false : ¬ GrpcGateFull := by
  intro h
  have w := grpc_runs_without_basic_auth
  exact w.2.2.1 (h _ _ _ _ w.1 w.2.1).2.1

/-- non-vacuity: a non-wildcard configuration and a non-loopback address that passes. -/
example : jrpcReaches { whitelist := ["10.0.0.7"], jWL := ["Version"], user := "u", pass := "p" }
    (.v4 10 0 0 7) (.pair "u" "p") "Chain33.Version" = true ∧
    (IP.v4 10 0 0 7).isLoopback = false := by decide

/-- **gRPC gate for every method kind** (unary and server-streaming). -/
theorem grpc_all_gated (c : Cfg) (ip : IP) (m : String) (streaming : Bool)
    (h : (if streaming then grpcStreamReaches c ip m else grpcUnaryReaches c ip m) = true)
    (hl : ip.isLoopback = false) :
    (OnWhitelist c ip ∨ Wildcard c) ∧
      MethodWhitelisted c.gWL (lastSeg m '/') ∧ MethodNotBlacklisted c.gBL (lastSeg m '/') := by
  cases streaming
  · exact grpc_unary_gate c ip m (by simpa using h) hl
  · simp only [if_true] at h
    unfold grpcStreamReaches at h
    simp only [hl, Bool.false_or] at h
    exact grpc_unary_gate c ip m h hl

example : grpcStreamReaches { whitelist := ["10.0.0.7"], gWL := ["SubEvent"] } (.v4 10 0 0 7)
    "/types.chain33/SubEvent" = true ∧ (IP.v4 10 0 0 7).isLoopback = false := by decide

/-- **The Ethereum-compatible endpoint admits exactly the same client addresses** as the other two
endpoints whenever a non-empty IP whitelist is configured under either accepted key. -/
theorem eth_eq_main (c : Cfg) (ip : IP) (h : c.whitelist ≠ [] ∨ c.whitlist ≠ []) :
    ethIPAdmit c ip = mainIPAdmit c ip := by
  unfold ethIPAdmit mainIPAdmit ipAdmitS ipSet ipAdd ipEntries
  simp only [List.nil_append]
  cases hl : ip.isLoopback
  case true => simp
  case false =>
  simp only [Bool.false_or]
  have anyeq : ∀ l : List String,
      l.any (fun a => a == "0.0.0.0" || a == ip.norm) = (l.contains "0.0.0.0" || l.contains ip.norm) := by
    intro l
    rw [Bool.eq_iff_iff]
    simp only [List.any_eq_true, Bool.or_eq_true, beq_iff_eq, List.contains_iff_mem]
    constructor
    · rintro ⟨a, ha, h | h⟩
      · left; rw [← h]; exact ha
      · right; rw [← h]; exact ha
    · rintro (h | h)
      · exact ⟨_, h, Or.inl rfl⟩
      · exact ⟨_, h, Or.inr rfl⟩
  by_cases e1 : c.whitelist = []
  · have e2 : c.whitlist ≠ [] := by rcases h with h | h; exact absurd e1 h; exact h
    have e2' : c.whitlist.isEmpty = false := by cases hw : c.whitlist <;> simp_all
    simp only [e1, List.isEmpty_nil, e2', Bool.and_false, Bool.false_or, if_true, Bool.not_true,
      Bool.false_eq_true, if_false]
    by_cases s : c.whitlist = ["*"]
    · simp [s]
    · have s' : (c.whitlist == ["*"]) = false := by simpa using s
      have s0 : (([] : List String) == ["*"]) = false := by decide
      simp only [s', s0, Bool.false_or, Bool.false_eq_true, if_false]
      exact anyeq _
  · have e1' : c.whitelist.isEmpty = false := by cases hw : c.whitelist <;> simp_all
    simp only [e1', Bool.false_and, Bool.false_or, Bool.false_eq_true, if_false, Bool.not_false, if_true]
    by_cases s : c.whitelist = ["*"]
    · simp [s]
    · have s' : (c.whitelist == ["*"]) = false := by simpa using s
      simp only [s', Bool.false_or, Bool.false_eq_true, if_false]
      by_cases t : c.whitlist = ["*"]
      · simp [t]
      · have t' : (c.whitlist == ["*"]) = false := by simpa using t
        simp only [t', Bool.false_or, Bool.false_eq_true, if_false]
        exact anyeq _

/-! ### the package map is never cleared: a second `InitCfg` adds to it -/

theorem ipAdmitS_append (s t : List String) (ip : IP) :
    ipAdmitS (s ++ t) ip = (ipAdmitS s ip || ipAdmitS t ip) := by
  unfold ipAdmitS
  rw [Bool.eq_iff_iff]
  simp only [Bool.or_eq_true, List.contains_iff_mem, List.mem_append]
  constructor
  · rintro ((h | h | h) | h | h) <;> simp [h]
  · rintro ((h | h) | h | h) <;> first | (rcases h with h | h <;> simp [h]) | simp [h]

/-- **Two configurations.** After `InitCfg c₁` and then `InitCfg c₂` on the same process (the map is only
added to), exactly the addresses admitted under `c₁` or under `c₂` are admitted. -/
theorem reinit_admits_union (c₁ c₂ : Cfg) (ip : IP) :
    ipAdmitS (ipAdd (ipSet c₁) c₂) ip = (mainIPAdmit c₁ ip || mainIPAdmit c₂ ip) := by
  unfold mainIPAdmit
  have : ipAdd (ipSet c₁) c₂ = ipSet c₁ ++ ipSet c₂ := by simp [ipAdd, ipSet]
  rw [this, ipAdmitS_append]

/-- the gate after a re-initialisation: an admitted non-loopback address is covered by one of the two
configurations — not necessarily by the current one. -/
theorem ip_gate_reinit (c₁ c₂ : Cfg) (ip : IP) (h : ipAdmitS (ipAdd (ipSet c₁) c₂) ip = true)
    (hl : ip.isLoopback = false) :
    (OnWhitelist c₁ ip ∨ Wildcard c₁) ∨ (OnWhitelist c₂ ip ∨ Wildcard c₂) := by
  rw [reinit_admits_union, Bool.or_eq_true] at h
  rcases h with h | h
  · exact Or.inl (ip_gate c₁ ip h hl)
  · exact Or.inr (ip_gate c₂ ip h hl)

/-- … and the current configuration alone does not bound it: the assumption "a node calls `rpc.InitCfg`
once" is necessary for `ip_gate` (replayed on the real code, op `ipadd`). -/
theorem reinit_keeps_old_entries :
    let c₁ : Cfg := { whitelist := ["10.0.0.7"] }
    let c₂ : Cfg := { whitelist := ["10.0.0.8"] }
    ipAdmitS (ipAdd (ipSet c₁) c₂) (.v4 10 0 0 7) = true ∧ mainIPAdmit c₂ (.v4 10 0 0 7) = false ∧
      ¬ (OnWhitelist c₂ (.v4 10 0 0 7) ∨ Wildcard c₂) := by decide

example : ({ whitlist := ["10.0.0.7"] } : Cfg).whitelist ≠ [] ∨ ({ whitlist := ["10.0.0.7"] } : Cfg).whitlist ≠ [] := by
  decide

/-- regression witnesses for the two defects repaired in /repo (fix: commits 70f9c19, fe470e5):
the configurations and addresses on which the old code diverged. -/
theorem eth_witness_whitlist_key :
    ethIPAdmit { whitlist := ["10.0.0.7"] } (.v4 8 8 8 8) = false ∧
    mainIPAdmit { whitlist := ["10.0.0.7"] } (.v4 8 8 8 8) = false := by decide

theorem stream_witness_unlisted :
    grpcStreamReaches { whitelist := ["10.0.0.7"] } (.v4 8 8 8 8) "/types.chain33/SubEvent" = false := by decide

end C39
