import Chain33Model.Model.C39
/-!
C39 — RPC access control holds for every request shape.  Property theorems only.

The specification side is written from the property text, in terms of the *configuration*
(not of the derived package maps): an address is admitted only if it is on the configured IP
whitelist under either accepted key or the whitelist is a wildcard; a method runs only if it is
whitelisted and not blacklisted; basic authentication must succeed when configured.
-/
namespace C39

/-- the configured whitelist is a wildcard (`*` as the only entry of a key, or the entry `0.0.0.0`). -/
abbrev Wildcard (c : Cfg) : Prop :=
  c.whitelist = ["*"] ∨ c.whitlist = ["*"] ∨ "0.0.0.0" ∈ c.whitelist ∨ "0.0.0.0" ∈ c.whitlist

/-- the client address is on the configured IP whitelist under either accepted key. -/
abbrev OnWhitelist (c : Cfg) (ip : IP) : Prop := ip.norm ∈ c.whitelist ∨ ip.norm ∈ c.whitlist

abbrev MethodWhitelisted (wl : List String) (fn : String) : Prop := wl = [] ∨ "*" ∈ wl ∨ fn ∈ wl

/-- not blacklisted; an empty configured blacklist means the built-in one (`CloseQueue`). -/
abbrev MethodNotBlacklisted (bl : List String) (fn : String) : Prop :=
  fn ∉ bl ∧ (bl = [] → fn ≠ "CloseQueue")

abbrev AuthOK (c : Cfg) (cr : Cred) : Prop := (c.user = "" ∧ c.pass = "") ∨ cr = .pair c.user c.pass

/-- every non-loopback address has a text different from the default entry `127.0.0.1`
    (hypothesis of the gate theorems; true of every address `net.ParseIP` classifies as non-loopback). -/
abbrev NotDefaultEntry (ip : IP) : Prop := ip.norm ≠ "127.0.0.1"

theorem ip_gate (c : Cfg) (ip : IP) (h : mainIPAdmit c ip = true) (hl : ip.isLoopback = false)
    (hd : NotDefaultEntry ip) : OnWhitelist c ip ∨ Wildcard c := by
  unfold mainIPAdmit at h
  simp only [hl, Bool.false_or, Bool.or_eq_true, List.contains_iff_mem] at h
  unfold ipSet at h
  unfold OnWhitelist Wildcard NotDefaultEntry at *
  split at h
  · rcases h with h | h <;> simp at h
    exact absurd h hd
  · split at h
    · rename_i hw; simp at hw; simp [hw]
    · split at h
      · rename_i hw; simp at hw; simp [hw]
      · split at h
        · rcases h with h | h <;> simp [h]
        · rcases h with h | h <;> simp [h]

theorem auth_gate (c : Cfg) (cr : Cred) (h : authOk c cr = true) : AuthOK c cr := by
  unfold authOk at h
  unfold AuthOK
  split at h
  · rename_i hc; simp at hc; exact Or.inl hc
  · cases cr with
    | none => simp at h
    | pair u p => simp at h; right; simp [h.1, h.2]

theorem jfunc_gate (c : Cfg) (fn : String) (h : jFuncOk c fn = true) :
    MethodWhitelisted c.jWL fn ∧ MethodNotBlacklisted c.jBL fn := by
  unfold jFuncOk jWLset jBLset at h
  unfold MethodWhitelisted MethodNotBlacklisted
  simp only [Bool.and_eq_true, Bool.not_eq_true', Bool.or_eq_true, List.contains_iff_mem] at h
  obtain ⟨hb, hw⟩ := h
  constructor
  · by_cases e : c.jWL = []
    · exact Or.inl e
    · simp [e] at hw
      by_cases s : c.jWL = ["*"]
      · right; left; simp [s]
      · simp [s] at hw; rcases hw with hw | hw
        · exact Or.inr (Or.inl hw)
        · exact Or.inr (Or.inr hw)
  · by_cases e : c.jBL = []
    · simp [e] at hb ⊢; exact hb
    · simp [e] at hb; exact ⟨hb, fun h' => absurd h' e⟩

theorem gfunc_gate (c : Cfg) (fn : String) (h : gFuncOk c fn = true) :
    MethodWhitelisted c.gWL fn ∧ MethodNotBlacklisted c.gBL fn := by
  unfold gFuncOk gWLset gBLset at h
  unfold MethodWhitelisted MethodNotBlacklisted
  simp only [Bool.and_eq_true, Bool.not_eq_true', Bool.or_eq_true, List.contains_iff_mem] at h
  obtain ⟨hb, hw⟩ := h
  constructor
  · by_cases e : c.gWL = []
    · exact Or.inl e
    · simp [e] at hw
      by_cases s : c.gWL = ["*"]
      · right; left; simp [s]
      · simp [s] at hw; rcases hw with hw | hw
        · exact Or.inr (Or.inl hw)
        · exact Or.inr (Or.inr hw)
  · by_cases e : c.gBL = []
    · simp [e] at hb ⊢; exact hb
    · simp [e] at hb; exact ⟨hb, fun h' => absurd h' e⟩

/-- **JSON-RPC gate.** For every configuration, every non-loopback client address, every
credentials and every method string: the request reaches the dispatcher only if the address is
whitelisted (or the whitelist is a wildcard), the method (last dot segment) is whitelisted and not
blacklisted, and basic authentication succeeded when configured. -/
theorem jrpc_gate (c : Cfg) (ip : IP) (cr : Cred) (m : String)
    (h : jrpcReaches c ip cr m = true) (hl : ip.isLoopback = false) (hd : NotDefaultEntry ip) :
    (OnWhitelist c ip ∨ Wildcard c) ∧ AuthOK c cr ∧
      MethodWhitelisted c.jWL (lastSeg m '.') ∧ MethodNotBlacklisted c.jBL (lastSeg m '.') := by
  unfold jrpcReaches at h
  simp only [hl, Bool.false_or, Bool.and_eq_true] at h
  obtain ⟨⟨hi, ha⟩, hf⟩ := h
  exact ⟨ip_gate c ip hi hl hd, auth_gate c cr ha, jfunc_gate c _ hf⟩

/-- loopback clients still have to authenticate. -/
theorem jrpc_auth_always (c : Cfg) (ip : IP) (cr : Cred) (m : String)
    (h : jrpcReaches c ip cr m = true) : AuthOK c cr := by
  unfold jrpcReaches at h
  simp only [Bool.and_eq_true] at h
  exact auth_gate c cr h.1.2

/-- **gRPC unary gate.** -/
theorem grpc_unary_gate (c : Cfg) (ip : IP) (m : String)
    (h : grpcUnaryReaches c ip m = true) (hl : ip.isLoopback = false) (hd : NotDefaultEntry ip) :
    (OnWhitelist c ip ∨ Wildcard c) ∧
      MethodWhitelisted c.gWL (lastSeg m '/') ∧ MethodNotBlacklisted c.gBL (lastSeg m '/') := by
  unfold grpcUnaryReaches at h
  simp only [Bool.and_eq_true] at h
  exact ⟨ip_gate c ip h.1 hl hd, gfunc_gate c _ h.2⟩

/-- non-vacuity: a non-wildcard configuration and a non-loopback address that passes. -/
example : jrpcReaches { whitelist := ["10.0.0.7"], jWL := ["Version"], user := "u", pass := "p" }
    (.v4 10 0 0 7) (.pair "u" "p") "Chain33.Version" = true ∧
    (IP.v4 10 0 0 7).isLoopback = false ∧ NotDefaultEntry (.v4 10 0 0 7) := by decide

/-- **gRPC gate for every method kind** (unary and server-streaming). -/
theorem grpc_all_gated (c : Cfg) (ip : IP) (m : String) (streaming : Bool)
    (h : (if streaming then grpcStreamReaches c ip m else grpcUnaryReaches c ip m) = true)
    (hl : ip.isLoopback = false) (hd : NotDefaultEntry ip) :
    (OnWhitelist c ip ∨ Wildcard c) ∧
      MethodWhitelisted c.gWL (lastSeg m '/') ∧ MethodNotBlacklisted c.gBL (lastSeg m '/') := by
  cases streaming
  · exact grpc_unary_gate c ip m (by simpa using h) hl hd
  · simp only [if_true] at h
    unfold grpcStreamReaches at h
    simp only [hl, Bool.false_or] at h
    exact grpc_unary_gate c ip m h hl hd

example : grpcStreamReaches { whitelist := ["10.0.0.7"], gWL := ["SubEvent"] } (.v4 10 0 0 7)
    "/types.chain33/SubEvent" = true ∧ (IP.v4 10 0 0 7).isLoopback = false := by decide

/-- **The Ethereum-compatible endpoint admits exactly the same client addresses** as the other two
endpoints whenever a non-empty IP whitelist is configured under either accepted key. -/
theorem eth_eq_main (c : Cfg) (ip : IP) (h : c.whitelist ≠ [] ∨ c.whitlist ≠ []) :
    ethIPAdmit c ip = mainIPAdmit c ip := by
  unfold ethIPAdmit mainIPAdmit ipSet
  cases hl : ip.isLoopback
  case true => simp
  case false =>
  simp only [Bool.false_or]
  have anyeq : ∀ l : List String,
      l.any (fun a => a == "0.0.0.0" || a == ip.norm) = (l.contains "0.0.0.0" || l.contains ip.norm) := by
    intro l
    rw [Bool.eq_iff_iff]
    simp only [List.any_eq_true, Bool.or_eq_true, beq_iff_eq, List.contains_iff_mem]
    constructor
    · rintro ⟨a, ha, h | h⟩
      · left; rw [← h]; exact ha
      · right; rw [← h]; exact ha
    · rintro (h | h)
      · exact ⟨_, h, Or.inl rfl⟩
      · exact ⟨_, h, Or.inr rfl⟩
  by_cases e1 : c.whitelist = []
  · have e2 : c.whitlist ≠ [] := by rcases h with h | h; exact absurd e1 h; exact h
    have e2' : c.whitlist.isEmpty = false := by cases hw : c.whitlist <;> simp_all
    simp only [e1, List.isEmpty_nil, e2', Bool.and_false, Bool.false_or, if_true, Bool.not_true,
      Bool.false_eq_true, if_false]
    by_cases s : c.whitlist = ["*"]
    · simp [s]
    · have s' : (c.whitlist == ["*"]) = false := by simpa using s
      have s0 : (([] : List String) == ["*"]) = false := by decide
      simp only [s', s0, Bool.false_or, Bool.false_eq_true, if_false]
      exact anyeq _
  · have e1' : c.whitelist.isEmpty = false := by cases hw : c.whitelist <;> simp_all
    simp only [e1', Bool.false_and, Bool.false_or, Bool.false_eq_true, if_false, Bool.not_false, if_true]
    by_cases s : c.whitelist = ["*"]
    · simp [s]
    · have s' : (c.whitelist == ["*"]) = false := by simpa using s
      simp only [s', Bool.false_or, Bool.false_eq_true, if_false]
      by_cases t : c.whitlist = ["*"]
      · simp [t]
      · have t' : (c.whitlist == ["*"]) = false := by simpa using t
        simp only [t', Bool.false_or, Bool.false_eq_true, if_false]
        exact anyeq _

example : ({ whitlist := ["10.0.0.7"] } : Cfg).whitelist ≠ [] ∨ ({ whitlist := ["10.0.0.7"] } : Cfg).whitlist ≠ [] := by
  decide

/-- regression witnesses for the two defects repaired in /repo (fix: commits 70f9c19, fe470e5):
the configurations and addresses on which the old code diverged. -/
theorem eth_witness_whitlist_key :
    ethIPAdmit { whitlist := ["10.0.0.7"] } (.v4 8 8 8 8) = false ∧
    mainIPAdmit { whitlist := ["10.0.0.7"] } (.v4 8 8 8 8) = false := by decide

theorem stream_witness_unlisted :
    grpcStreamReaches { whitelist := ["10.0.0.7"] } (.v4 8 8 8 8) "/types.chain33/SubEvent" = false := by decide

end C39
