import Chain33Model.Base.Wire
import Chain33Model.Model.C01
open Wire

/-- ops: see `C01.Drv.handle` (new/reopen/set/get/iter/info/tget/thas/tidx/titer). -/
def main : IO Unit := do
  loopState (← IO.getStdin) (← IO.getStdout) C01.Drv.step (C01.Store.new C01.Cfg.default)
