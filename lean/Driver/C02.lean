import Chain33Model.Base.Wire
import Chain33Model.Model.C02
open Wire

/-- ops: `C02.Drv.handle` (mset/commit/rollback + every C01 op). -/
def main : IO Unit := do
  loopState (← IO.getStdin) (← IO.getStdout) C02.Drv.step (C01.Store.new C01.Cfg.default)
