import Chain33Model.Base.Wire
import Chain33Model.Model.C02Lazy
open Wire

/-- ops: `C02.Drv.handle` (mset/commit/rollback + every C01 op) on the eager model; after a line `lazy` the same ops
run on the literal lazy model with memTree (`C02L.Drv.handle`). -/
def main : IO Unit := do
  loopState (← IO.getStdin) (← IO.getStdout) C02L.Drv.step C02L.Drv.DS.init
