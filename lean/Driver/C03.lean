import Chain33Model.Base.Wire
import Chain33Model.Model.C03
open Wire

/-- ops: `C03.Drv.handle` (proof/verify + every C02/C01 op). -/
def main : IO Unit := do
  loopState (← IO.getStdin) (← IO.getStdout) C03.Drv.step (C01.Store.new C01.Cfg.default)
