import Chain33Model.Base.Wire
import Chain33Model.Model.C04
open Wire

/-- ops: the store LTS of C04 (`C04.Drv.step` = set/mset/commit/rollback/get/iter/info/reopen/new). -/
def main : IO Unit := do
  loopState (← IO.getStdin) (← IO.getStdout) C04.Drv.step (C01.Store.new C01.Cfg.default)
