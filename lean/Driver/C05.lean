import Chain33Model.Base.Wire
import Chain33Model.Model.C05
open Wire

/-- ops: `C05.Drv.handle` (new <pruneHeight> / restart / set / mset / commit / rollback / get / prune <h> / dump). -/
def main : IO Unit := do
  loopState (← IO.getStdin) (← IO.getStdout) C05.Drv.step (C05.PState.new 0)
