import Chain33Model.Base.Wire
import Chain33Model.Model.C06
open Wire C06

/-!
ops (hex bytes, `-` = nil/empty):
  open mem|level|badger      -> ok            (fresh empty database)
  reopen                     -> ok            (close + open the same files; model: no-op)
  put <k> <v>                -> ok
  del <k>                    -> ok | notfound (GoMemDB.Delete of an absent key returns an error)
  get <k>                    -> = <v> | notfound
  batch <S:k:v|N:k|D:k|R>,… | - -> <ok|notfound> <ValueSize> <ValueLen>
                                (N = Set(k, nil), R = Reset(); memBatch.Write returns the error of its last op)
  it <start|-> <end|-> <0|1> -> ok            (opens an iterator on a snapshot; writes close it)
  rewind | next | seek <k>   -> <ret01> <valid01> <key|-> <value|->  | panic
-/

inductive Backend where
  | mem | level | badger
  deriving DecidableEq

inductive AnyIter where
  | lvl (it : Iter)
  | bad (it : BIter)

structure St where
  backend : Backend := .mem
  m : Map := []
  it : Option AnyIter := none

def b01 (b : Bool) : String := if b then "1" else "0"

def showIt (ret valid : Bool) (k v : Bytes) : String :=
  if valid then s!"{b01 ret} 1 {toHexOrDash k} {toHexOrDash v}" else s!"{b01 ret} 0 - -"

/-- batch items: `S:k:v` Set(k, v) with a non-nil value (`-` = non-nil empty), `N:k` Set(k, nil),
`D:k` Delete(k), `R` Reset(). -/
def parseCall (s : String) : Option BCall :=
  match s.splitOn ":" with
  | ["S", k, v] => do
    let k ← fromHex k
    let v ← fromHex v
    pure (.set k (some v))
  | ["N", k] => do
    let k ← fromHex k
    pure (.set k none)
  | ["D", k] => do
    let k ← fromHex k
    pure (.delete k)
  | ["R"] => some .reset
  | _ => none

def parseBatch (s : String) : Option (List BCall) :=
  if s == "-" then some [] else (s.splitOn ",").mapM parseCall

/-- result of `Delete` on GoMemDB: deleting an absent key is an error. -/
def delResult (b : Backend) (m : Map) (k : Bytes) : String :=
  if b == .mem && (get m k).isNone then "notfound" else "ok"

def itStep (s : St) (f : Iter → Iter × Bool) (g : BIter → Option (BIter × Bool)) : St × String :=
  match s.it with
  | none => (s, "bad-op")
  | some (.lvl it) =>
    let (it', r) := f it
    ({ s with it := some (.lvl it') }, showIt r it'.valid it'.key it'.value)
  | some (.bad it) =>
    match g it with
    | none => (s, "panic")
    | some (it', r) => ({ s with it := some (.bad it') }, showIt r it'.valid it'.key it'.value)

def step (s : St) (line : String) : St × String :=
  match words line with
  | ["open", b] =>
    match b with
    | "mem" => ({ backend := .mem }, "ok")
    | "level" => ({ backend := .level }, "ok")
    | "badger" => ({ backend := .badger }, "ok")
    | _ => (s, "bad-op")
  | ["reopen"] => ({ s with it := none }, "ok")
  | ["put", k, v] =>
    match fromHex k, fromHex v with
    | some k, some v => ({ s with m := insert s.m k v, it := none }, "ok")
    | _, _ => (s, "bad-op")
  | ["del", k] =>
    match fromHex k with
    | some k => ({ s with m := erase s.m k, it := none }, delResult s.backend s.m k)
    | none => (s, "bad-op")
  | ["get", k] =>
    match fromHex k with
    | some k =>
      match get s.m k with
      | some v => (s, "= " ++ toHexOrDash v)
      | none => (s, "notfound")
    | none => (s, "bad-op")
  | ["batch", b] =>
    match parseBatch b with
    | some calls =>
      -- the batch is built by the calls, ValueSize/ValueLen are read, then Write
      let bt := calls.foldl Batch.call ({} : Batch)
      let r := bt.write s.m
      let err := if s.backend == .mem && r.2 then "notfound" else "ok"
      ({ s with m := r.1, it := none }, s!"{err} {bt.size} {bt.len}")
    | none => (s, "bad-op")
  | ["it", st, en, rev] =>
    match fromHex st with
    | some st =>
      let en? : Option (Option Bytes) := if en == "-" then some none else (fromHex en).map some
      match en?, rev with
      | some en, "0" | some en, "1" =>
        let r := rev == "1"
        let it := if s.backend == .badger then AnyIter.bad (BIter.mk' s.m st en r)
                  else AnyIter.lvl (Iter.mk' s.m st en r)
        ({ s with it := some it }, "ok")
      | _, _ => (s, "bad-op")
    | none => (s, "bad-op")
  | ["rewind"] => itStep s Iter.rewind (fun it => some it.rewind)
  | ["next"] => itStep s Iter.next (fun it => some it.next)
  | ["seek", k] =>
    match fromHex k with
    | some k => itStep s (fun it => it.seek k) (fun it => some (it.seek k))
    | none => (s, "bad-op")
  | _ => (s, "bad-op")

def main : IO Unit := do
  loopState (← IO.getStdin) (← IO.getStdout) step ({} : St)
