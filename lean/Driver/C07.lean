import Chain33Model.Base.Wire
import Chain33Model.Model.C07
open Wire C06 C07

/-!
ops (hex bytes, `-` = nil/empty):
  layers <n>                                  -> ok     n empty layers, layer 0 has priority
  lput <i> <k> <v> | ldel <i> <k>             -> ok
  list plain|merged <prefix> <key> <count> <dir>  -> <item>,<item>… | nil
  count plain|merged <prefix>                 -> <n>
  mit <start> <end> <rev01>                   -> ok     merged iterator over all layers
  mrewind | mnext | mseek <k>                 -> <ret01> <valid01> <key> <value>
`plain` = ListHelper directly on layer 0; `merged` = ListHelper over NewMergedIteratorDB(layers).
-/

structure St where
  layers : List Map := []
  it : Option MIter := none

def showItems : Option (List Bytes) → String
  | none => "fuel"
  | some [] => "nil"
  | some xs => ",".intercalate (xs.map toHexOrDash)

def b01 (b : Bool) : String := if b then "1" else "0"

def showIt (ret : Bool) (it : MIter) : String :=
  if it.dir = .fault then "fault"
  else if it.valid then s!"{b01 ret} 1 {toHexOrDash it.key} {toHexOrDash it.value}" else s!"{b01 ret} 0 - -"

def modLayer (s : St) (i : Nat) (f : Map → Map) : Option St :=
  match s.layers[i]? with
  | none => none
  | some m => some { s with layers := s.layers.set i (f m), it := none }

def mstep (s : St) (f : MIter → MIter × Bool) : St × String :=
  match s.it with
  | none => (s, "bad-op")
  | some it =>
    let (it', r) := f it
    ({ s with it := some it' }, showIt r it')

def step (s : St) (line : String) : St × String :=
  match words line with
  | ["layers", n] =>
    match n.toNat? with
    | some n => if 1 ≤ n ∧ n ≤ 4 then ({ layers := List.replicate n [] }, "ok") else (s, "bad-op")
    | none => (s, "bad-op")
  | ["lput", i, k, v] =>
    match i.toNat?, fromHex k, fromHex v with
    | some i, some k, some v =>
      match modLayer s i (fun m => insert m k v) with
      | some s' => (s', "ok")
      | none => (s, "bad-op")
    | _, _, _ => (s, "bad-op")
  | ["ldel", i, k] =>
    match i.toNat?, fromHex k with
    | some i, some k =>
      match modLayer s i (fun m => erase m k) with
      | some s' => (s', "ok")
      | none => (s, "bad-op")
    | _, _ => (s, "bad-op")
  | ["list", mode, p, k, c, d] =>
    match fromHex p, fromHex k, c.toNat?, d.toNat? with
    | some p, some k, some c, some d =>
      match mode, s.layers with
      | "plain", m :: _ => (s, showItems (listPlain m p k c d))
      | "merged", _ :: _ => (s, showItems (listMerged s.layers p k c d))
      | _, _ => (s, "bad-op")
    | _, _, _, _ => (s, "bad-op")
  | ["count", mode, p] =>
    match fromHex p with
    | some p =>
      match mode, s.layers with
      | "plain", m :: _ => (s, match countPlain m p with | some n => toString n | none => "fuel")
      | "merged", _ :: _ => (s, match countMerged s.layers p with | some n => toString n | none => "fuel")
      | _, _ => (s, "bad-op")
    | none => (s, "bad-op")
  | ["mit", st, en, rev] =>
    match fromHex st, s.layers with
    | some st, _ :: _ =>
      let en? : Option (Option Bytes) := if en == "-" then some none else (fromHex en).map some
      match en?, rev with
      | some en, "0" | some en, "1" =>
        ({ s with it := some (mergedIter s.layers st en (rev == "1")) }, "ok")
      | _, _ => (s, "bad-op")
    | _, _ => (s, "bad-op")
  | ["mrewind"] => mstep s MIter.rewind
  | ["mnext"] => mstep s MIter.next
  | ["mseek", k] =>
    match fromHex k with
    | some k => mstep s (fun it => it.seek k)
    | none => (s, "bad-op")
  | _ => (s, "bad-op")

def main : IO Unit := do
  loopState (← IO.getStdin) (← IO.getStdout) step ({} : St)
