import Chain33Model.Base.Wire
import Chain33Model.Model.C08
open Wire C06 C07 C08

/-!
ops (hex bytes, `-` = nil/empty):
  newbase                 -> ok    fresh empty base database, no LocalDB
  base <k> <v>            -> ok    write into the base database (only before `new`)
  new                     -> ok    NewLocalDB(base, false)
  newro                   -> ok    NewLocalDB(base, true): read-only mode, `set` answers `panic`
  begin | commit | rollback -> ok
  set <k> <v>             -> ok
  get <k>                 -> = <v> | notfound
  list <prefix> <key> <count> <dir> -> <item>,… | nil
  count <prefix>          -> <n>
requests without a transaction handle (blockchain/localdb.go with Txid = 0; EventLocalPrefixCount):
they read the committed base database, whatever the LocalDB has buffered
  bget <k>                -> = <v> | notfound      (an empty stored value reads as notfound)
  blist <prefix> <key> <count> <dir> -> <item>,… | nil
  bcount <prefix>         -> <n>
-/

structure St where
  base : Map := []
  l : Option LocalDB := none
  ro : Option RoLocalDB := none

def showItems : Option (List Bytes) → String
  | none => "fuel"
  | some [] => "nil"
  | some xs => ",".intercalate (xs.map toHexOrDash)

def withL (s : St) (f : LocalDB → LocalDB × String) : St × String :=
  match s.l with
  | none => (s, "bad-op")
  | some l =>
    let (l', o) := f l
    ({ s with l := some l' }, o)

def showOut : Out → String
  | .ok => "ok"
  | .val (some v) => "= " ++ toHexOrDash v
  | .val none => "notfound"
  | .items xs => showItems xs
  | .num (some n) => toString n
  | .num none => "fuel"
  | .panic => "panic"

def roStep (s : St) (ro : RoLocalDB) (op : Op) : St × String :=
  let r := ro.step op
  ({ s with ro := some r.1 }, showOut r.2)

def parseOp (ws : List String) : Option Op :=
  match ws with
  | ["begin"] => some .begin
  | ["commit"] => some .commit
  | ["rollback"] => some .rollback
  | ["set", k, v] => do
    let k ← fromHex k
    let v ← fromHex v
    pure (.set k v)
  | ["get", k] => do
    let k ← fromHex k
    pure (.get k)
  | ["list", p, k, c, d] => do
    let p ← fromHex p
    let k ← fromHex k
    let c ← c.toNat?
    let d ← d.toNat?
    pure (.list p k c d)
  | ["count", p] => do
    let p ← fromHex p
    pure (.count p)
  | _ => none

def step (s : St) (line : String) : St × String :=
  match s.ro, parseOp (words line) with
  | some ro, some op => roStep s ro op
  | _, _ =>
  match words line with
  | ["newbase"] => ({}, "ok")
  | ["base", k, v] =>
    match s.l, fromHex k, fromHex v with
    | none, some k, some v => ({ s with base := insert s.base k v }, "ok")
    | _, _, _ => (s, "bad-op")
  | ["new"] => ({ s with l := some (LocalDB.new s.base), ro := none }, "ok")
  | ["newro"] => ({ s with ro := some (RoLocalDB.new s.base), l := none }, "ok")
  | ["begin"] => withL s (fun l => (l.begin, "ok"))
  | ["commit"] => withL s (fun l => (l.commit, "ok"))
  | ["rollback"] => withL s (fun l => (l.rollback, "ok"))
  | ["set", k, v] =>
    match fromHex k, fromHex v with
    | some k, some v => withL s (fun l => (l.set k v, "ok"))
    | _, _ => (s, "bad-op")
  | ["get", k] =>
    match fromHex k with
    | some k => withL s (fun l =>
        let (l', r) := l.get k
        (l', match r with
             | some v => "= " ++ toHexOrDash v
             | none => "notfound"))
    | none => (s, "bad-op")
  | ["list", p, k, c, d] =>
    match fromHex p, fromHex k, c.toNat?, d.toNat? with
    | some p, some k, some c, some d => withL s (fun l => (l, showItems (l.list p k c d)))
    | _, _, _, _ => (s, "bad-op")
  | ["count", p] =>
    match fromHex p with
    | some p => withL s (fun l => (l, match l.prefixCount p with
                                      | some n => toString n
                                      | none => "fuel"))
    | none => (s, "bad-op")
  | ["bget", k] =>
    match fromHex k with
    | some k =>
      (s, match C06.get s.base k with
          | some v => if v.isEmpty then "notfound" else "= " ++ toHexOrDash v
          | none => "notfound")
    | none => (s, "bad-op")
  | ["blist", p, k, c, d] =>
    match fromHex p, fromHex k, c.toNat?, d.toNat? with
    | some p, some k, some c, some d => (s, showItems (listPlain s.base p k c d))
    | _, _, _, _ => (s, "bad-op")
  | ["bcount", p] =>
    match fromHex p with
    | some p => (s, match countPlain s.base p with
                    | some n => toString n
                    | none => "fuel")
    | none => (s, "bad-op")
  | _ => (s, "bad-op")

def main : IO Unit := do
  loopState (← IO.getStdin) (← IO.getStdout) step ({} : St)
