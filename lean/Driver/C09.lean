import Chain33Model.Base.Wire
import Chain33Model.Model.C09
open Wire

/-!
Driver for C09.  Lines as in harness/cmd/h_c09/main.go:
`reset <level|mem>` | `add <ver> <hash> <prev|-> <k>=<v>,...|-` | `del <ver> <hash>` |
`getv <k> <ver>` | `trash <ver>` | `maxv` | `dump` | `sget <hash> <k>` |
`iadd …` / `idel …` (the same through MVCCIter) | `ilist` (the "last" records through MVCCIter.Iterator).
-/

namespace DrvC09
open C09

def hexN (b : C09.Bytes) : String :=
  if b.isEmpty then "-" else
  String.ofList (b.foldr (fun x acc => hexDigit (x / 16 % 16) :: hexDigit (x % 16) :: acc) [])

def unhexN (s : String) : Option C09.Bytes :=
  if s.toList.any (fun c => 'A' ≤ c ∧ c ≤ 'F') then none else
  (fromHex s).map (fun b => b.map (·.toNat))

def parseVer (s : String) : Option Nat :=
  if s.length = 0 ∨ s.length > 19 then none
  else if s.toList.all (fun c => '0' ≤ c ∧ c ≤ '9') then
    match s.toNat? with
    | some n => if n < 2 ^ 63 then some n else none
    | none => none
  else none

def parseKVs (s : String) : Option (List (C09.Bytes × C09.Bytes)) :=
  if s == "-" then some [] else
  (s.splitOn ",").mapM (fun p =>
    match p.splitOn "=" with
    | [k, v] => do
      let k ← unhexN k
      let v ← unhexN v
      pure (k, v)
    | _ => none)

def showRes : Res → String
  | .val b => hexN b
  | .notfound => "notfound"
  | .version => "version"
  | .prevversion => "prevversion"
  | .onlytop => "onlytop"
  | .parseErr => "err:parse"
  | .ok => "ok"

def dump (db : DB) : String :=
  if db.isEmpty then "-" else
  ",".intercalate (db.map (fun e => hexN e.1 ++ "=" ++ hexN e.2))

def step (st : Option State) (line : String) : Option State × String :=
  let bad := (st, "bad-op")
  match words line, st with
  | ["reset", b], _ => if b == "level" || b == "mem" then (some {}, "ok") else bad
  | _, none => bad
  | ["add", ver, hash, prev, kvs], some s =>
    match parseVer ver, unhexN hash, unhexN prev, parseKVs kvs with
    | some ver, some hash, some prevB, some kvs =>
      if hash.length < 16 then bad else
      let prev := if prev == "-" then none else some prevB
      let (s', r) := add s ver hash prev kvs
      (some s', showRes r)
    | _, _, _, _ => bad
  | ["iadd", ver, hash, prev, kvs], some s =>
    match parseVer ver, unhexN hash, unhexN prev, parseKVs kvs with
    | some ver, some hash, some prevB, some kvs =>
      if hash.length < 16 then bad else
      let prev := if prev == "-" then none else some prevB
      let (s', r) := iterAdd s ver hash prev kvs
      (some s', showRes r)
    | _, _, _, _ => bad
  | ["idel", ver, hash], some s =>
    match parseVer ver, unhexN hash with
    | some ver, some hash =>
      if hash.length < 16 then bad else
      let (s', r) := iterDel s ver hash
      (some s', showRes r)
    | _, _ => bad
  | ["ilist"], some s => (st, dump s.last)
  | ["del", ver, hash], some s =>
    match parseVer ver, unhexN hash with
    | some ver, some hash =>
      if hash.length < 16 then bad else
      let (s', r) := del s ver hash
      (some s', showRes r)
    | _, _ => bad
  | ["getv", k, ver], some s =>
    match unhexN k, parseVer ver with
    | some k, some ver => (st, showRes (getV s.data k ver))
    | _, _ => bad
  | ["trash", ver], some s =>
    match parseVer ver with
    | some ver => (some { s with data := trash s.data ver }, "ok")
    | none => bad
  | ["setver", ver, hash], some s =>
    match parseVer ver, unhexN hash with
    | some ver, some hash =>
      if hash.length < 16 then bad else
      (some (setVersion s ver hash), "ok")
    | _, _ => bad
  | ["maxv"], some s =>
    (st, match maxVersion s with | some v => toString v | none => "notfound")
  | ["dump"], some s => (st, dump s.data)
  | ["sget", hash, k], some s =>
    match unhexN hash, unhexN k with
    | some hash, some k => (st, showRes (stateGet s hash k))
    | _, _ => bad
  | _, _ => bad

end DrvC09

def main : IO Unit := do
  loopState (← IO.getStdin) (← IO.getStdout) DrvC09.step (none : Option C09.State)
