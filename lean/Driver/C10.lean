import Chain33Model.Base.Wire
import Chain33Model.Model.C10
import Chain33Model.Model.C10Join
open Wire

/-!
Driver for C10.  Lines as in harness/cmd/h_c10/main.go:
`reset <level|mem>` | `add|replace|update <pk> <f1> <f2> <pay>` | `del <pk>` | `save` | `get <pk>` |
`listidx <f1|f2|primary> <prefix|-> <pk|-> <count> <0|1>` | `scan`.
-/

namespace DrvC10
open C10

def hexN (b : C09.Bytes) : String :=
  if b.isEmpty then "-" else
  String.ofList (b.foldr (fun x acc => hexDigit (x / 16 % 16) :: hexDigit (x % 16) :: acc) [])

def unhexN (s : String) : Option C09.Bytes :=
  if s.toList.any (fun c => 'A' ≤ c ∧ c ≤ 'F') then none else
  (fromHex s).map (fun b => b.map (·.toNat))

def showRes : Res → String
  | .ok => "ok"
  | .dup => "dup"
  | .notfound => "notfound"
  | .invalid => "invalid"
  | .decode => "decode"
  | .saveErr => "err:save"
  | .panic => "panic"

def showRow (r : Row) : String :=
  hexN r.pk ++ ":" ++ hexN r.f1 ++ ":" ++ hexN r.f2 ++ ":" ++ hexN r.pay

def showList : ListRes → String
  | .rows rs => ",".intercalate (rs.map showRow)
  | .notfound => "notfound"
  | .decode => "decode"

def showKVs (kvs : List KV) : String :=
  if kvs.isEmpty then "-" else
  ",".intercalate (kvs.map (fun kv => (match kv.2 with | none => "D:" | some _ => "S:") ++ hexN kv.1))

def showVal : Val → String
  | .pk p => hexN p
  | .row p _ => "row:" ++ hexN p

def scan (db : TDB) : String :=
  let ents := db.filter (fun e => C09.inRange tablePrefix e.1)
  if ents.isEmpty then "-" else
  ",".intercalate (ents.map (fun e =>
    if dataPrefix.isPrefixOf e.1 then "d:" ++ hexN (e.1.drop dataPrefix.length)
    else if metaPrefix.isPrefixOf e.1 then "i:" ++ hexN (e.1.drop metaPrefix.length) ++ "=" ++ showVal e.2
    else "o:" ++ hexN e.1))

def parseCount (s : String) : Option Nat :=
  match s.toNat? with
  | some n => if n < 65536 ∧ toString n == s then some n else none
  | none => none

def step (st : Option Table) (line : String) : Option Table × String :=
  let bad := (st, "bad-op")
  match words line, st with
  | ["reset", b], _ => if b == "level" || b == "mem" then (some {}, "ok") else bad
  | _, none => bad
  | [op, pk, f1, f2, pay], some t =>
    if op == "add" || op == "replace" || op == "update" then
      match unhexN pk, unhexN f1, unhexN f2, unhexN pay with
      | some pk, some f1, some f2, some pay =>
        if pk.isEmpty then bad else
        let d : Row := ⟨pk, f1, f2, pay⟩
        let (t', r) := if op == "add" then add t d else if op == "replace" then replace t d else update t pk d
        (some t', showRes r)
      | _, _, _, _ => bad
    else bad
  | ["del", pk], some t =>
    match unhexN pk with
    | some pk => if pk.isEmpty then bad else
      let (t', r) := del t pk
      (some t', showRes r)
    | none => bad
  | ["save"], some t =>
    match save t with
    | (t', some kvs) => (some t', showKVs kvs)
    | (_, none) => (st, "err:save")
  | ["get", pk], some t =>
    match unhexN pk with
    | some pk => if pk.isEmpty then bad else
      (st, match getData t.db pk with
           | .row _ d => showRow d
           | .missing => "notfound"
           | .undecodable => "decode")
    | none => bad
  | ["listidx", name, pfx, pk, count, dir], some t =>
    match unhexN pfx, unhexN pk, parseCount count with
    | some pfxB, some pkB, some count =>
      if dir != "0" && dir != "1" then bad else
      let asc := dir == "1"
      let pfxO := if pfx == "-" then none else some pfxB
      if name == "f1" then (st, showList (listIndex t.db nameF1 Row.f1 pfxO pkB count asc))
      else if name == "f2" then (st, showList (listIndex t.db nameF2 Row.f2 pfxO pkB count asc))
      else if name == "primary" then
        (st, showList (listPrimary t.db pfxO (if pk == "-" then none else some pkB) count asc))
      else bad
    | _, _, _ => bad
  | ["scan"], some t => (st, scan t.db)
  | _, _ => bad

/-! join tables: `jreset` | `jr <kind> <gid> <status>` | `jl <kind> <tx> <gid> <addr>` | `jsave` |
`jlist <index> <left|-> <right>` (text tokens, as harness/cmd/h_c10/join.go) -/

open C10J in
def jbytes (s : String) : C09.Bytes := s.toUTF8.toList.map (·.toNat)

def jtext (b : C09.Bytes) : String := String.ofList (b.map Char.ofNat)

open C10J in
def jres : C10J.Res → String
  | .ok => "ok" | .dup => "dup" | .notfound => "notfound" | .invalid => "invalid"
  | .decode => "decode" | .metaErr => "err:meta" | .panic => "panic"

open C10J in
def jerr : SaveErr → String
  | .notfound => "notfound" | .decode => "decode" | .metaE => "err:meta" | .panic => "panic"

open C10J in
def jshowKVs (kvs : List C10J.KV) : String :=
  -- sorted by key (the order of a kv list depends on Go map iteration in mergeCache)
  let sorted := kvs.foldl (fun st kv => C09.put st kv.1 kv.2) ([] : C09.Store (Option C10J.Val))
  if sorted.isEmpty then "-" else
  ",".intercalate (sorted.map (fun kv => (match kv.2 with | none => "D:" | some _ => "S:") ++ hexN kv.1))

open C10J in
def jrowText (lr : GRow × GRow) : String :=
  let f (r : GRow) (n : C09.Bytes) : String := match fieldOf r n with | some v => jtext v | none => "?"
  jtext lr.1.pk ++ "/" ++ f lr.1 nGameID ++ "/" ++ f lr.1 nAddr ++ "/" ++ jtext lr.2.pk ++ "=" ++ f lr.2 nStatus

structure JState where
  jt : C10J.JT
  db : C10J.TDB

open C10J in
def jstep (st : Option JState) (line : String) : Option JState × String :=
  let bad := (st, "bad-op")
  match words line, st with
  | ["jreset"], _ => (some ⟨initJT, []⟩, "ok")
  | _, none => bad
  | ["jr", kind, gid, status], some s =>
    if status.toNat?.isNone && !(status.startsWith "-") then bad else
    let d := rightRow (jbytes gid) (jbytes status)
    let r :=
      if kind == "add" then some (C10J.add s.db s.jt.right d)
      else if kind == "replace" then some (C10J.replace s.db s.jt.right d)
      else if kind == "update" then some (C10J.update s.db s.jt.right (jbytes gid) d)
      else if kind == "del" then some (C10J.del s.db s.jt.right (jbytes gid))
      else none
    (match r with
     | some (t', res) => (some { s with jt := { s.jt with right := t' } }, jres res)
     | none => bad)
  | ["jl", kind, tx, gid, addr], some s =>
    let d := leftRow (jbytes tx) (jbytes gid) (jbytes addr)
    let r :=
      if kind == "add" then some (C10J.add s.db s.jt.left d)
      else if kind == "replace" then some (C10J.replace s.db s.jt.left d)
      else if kind == "update" then some (C10J.update s.db s.jt.left (jbytes tx) d)
      else if kind == "del" then some (C10J.del s.db s.jt.left (jbytes tx))
      else none
    (match r with
     | some (t', res) => (some { s with jt := { s.jt with left := t' } }, jres res)
     | none => bad)
  | ["jsave"], some s =>
    (match saveJoin s.db s.jt with
     | .ok (kvs, jt') => (some ⟨jt', C10J.applyKVs s.db kvs⟩, "ok " ++ jshowKVs kvs)
     | .error (e, jt') => (some { s with jt := jt' }, jerr e))
  | ["jlist", index, l, r], some s =>
    let lk := if l == "-" then [] else jbytes l
    (match joinList s.db s.jt (jbytes index) (joinKey lk (jbytes r)) true with
     | .ok rows => (st, ",".intercalate (rows.map jrowText))
     | .error e => (st, jerr e))
  | _, _ => bad

def stepAll (st : Option C10.Table × Option JState) (line : String) :
    (Option C10.Table × Option JState) × String :=
  if line.startsWith "j" then
    let (j', o) := jstep st.2 line
    ((st.1, j'), o)
  else
    let (t', o) := step st.1 line
    ((t', st.2), o)

end DrvC10

def main : IO Unit := do
  loopState (← IO.getStdin) (← IO.getStdout) DrvC10.stepAll
    ((none, none) : Option C10.Table × Option DrvC10.JState)
