import Chain33Model.Base.Wire
import Chain33Model.Model.C11
open Wire

/-!
Driver for the block-execution model (C11; also used by the block run of C12).

`blk <flags5> b<base> <addrs> <store> <main> <unit>…`  (`b<base>`: harness-side base-state index, ignored here)
* flags: feeOn forkExecRollback forkResetTx0 forkStateDBSet forkLocalDBAccess (0/1 each)
* addrs: `namehex=addrhex,…` | `-`        store: `khex=(vhex|$int),…` | `-`      main: `khex=vhex,…` | `-`
* unit:  `T<tx>` | `G<tx>+<tx>…`          tx: `acctkeyhex,fee,execerhex,execops,localops`
* ops:   `op/op…` | `-` with op = `S:k:v H:k:v D:k:v G:k LS:k:v LH:k:v LD:k:v LG:k LL:p F P`
Output: `receipt receipt … | [obs,…] [obs,…] …` or `blockpanic`.
-/

namespace C11Drv
open C11

def parsePairs {α β : Type} (s : String) (fk : String → Option α) (fv : String → Option β) : Option (List (α × β)) :=
  if s == "-" then some [] else
  (s.splitOn ",").mapM (fun p =>
    match p.splitOn "=" with
    | [k, v] => do
      let k ← fk k
      let v ← fv v
      pure (k, v)
    | _ => none)

def parseVal (s : String) : Option Val :=
  if s.startsWith "$" then (parseInt? (s.drop 1).copy).map Val.acct
  else (fromHex s).map Val.raw

def parseOp (s : String) : Option Op :=
  match s.splitOn ":" with
  | ["F"] => some .fail
  | ["P"] => some .panic
  | ["G", k] => (fromHex k).map .getS
  | ["LG", k] => (fromHex k).map .getL
  | ["LL", k] => (fromHex k).map .listL
  | [kind, k, v] => do
    let k ← fromHex k
    let v ← fromHex v
    match kind with
    | "S" => some (.setS k v)
    | "H" => some (.hidS k v)
    | "D" => some (.declS k v)
    | "LS" => some (.setL k v)
    | "LH" => some (.hidL k v)
    | "LD" => some (.declL k v)
    | _ => none
  | _ => none

def parseOps (s : String) : Option (List Op) :=
  if s == "-" then some [] else (s.splitOn "/").mapM parseOp

def parseTx (s : String) : Option Tx :=
  match s.splitOn "," with
  | [a, f, e, eo, lo] => do
    let a ← fromHex a
    let f ← parseInt? f
    let e ← fromHex e
    let eo ← parseOps eo
    let lo ← parseOps lo
    pure { acctKey := a, fee := f, execer := e, execOps := eo, localOps := lo }
  | _ => none

def parseUnit (s : String) : Option TxUnit :=
  if s.startsWith "T" then (parseTx (s.drop 1).copy).map .single
  else if s.startsWith "G" then ((s.drop 1).copy.splitOn "+").mapM parseTx |>.map .group
  else none

def bit (c : Char) : Option Bool := if c == '1' then some true else if c == '0' then some false else none

def mainCfg : C12.Cfg := { isPara := false, title := [], forkExecKey := true }

def parseEnv (flags addrs : String) : Option Env :=
  match flags.toList with
  | [a, b, c, d, e] => do
    let a ← bit a; let b ← bit b; let c ← bit c; let d ← bit d; let e ← bit e
    let ad ← parsePairs addrs fromHex fromHex
    pure { cfg := mainCfg, feeOn := a, forkExecRollback := b, forkResetTx0 := c, forkStateDBSet := d,
           forkLocalDBAccess := e, allowUser := synthAllowUser, registry := fullRegistry, addrs := ad }
  | _ => none

def showVal : Val → String
  | .raw b => toHexOrDash b
  | .acct n => "$" ++ toString n

def showErr : Err → String
  | .fail => "fail" | .panic => "panic" | .memset => "memset" | .notAllowKey => "notallowkey"
  | .memsetLocal => "memsetlocal" | .noBalance => "nobalance" | .execName => "execname"

def showLog : RLog → String
  | .fee p c => "fee(" ++ toString p ++ ":" ++ toString c ++ ")"
  | .err e => "err(" ++ showErr e ++ ")"
  | .user => "user"

def showReceipt (r : Receipt) : String :=
  toString r.ty ++ "{" ++ ",".intercalate (r.kv.map (fun p => toHexOrDash p.1 ++ "=" ++ showVal p.2)) ++ "}{"
    ++ ",".intercalate (r.logs.map showLog) ++ "}"

def showObs : Obs → String
  | .val v => showVal v
  | .nf => "nf" | .dr => "dr" | .dw => "dw" | .ok => "ok"
  | .list kvs => "(" ++ "+".intercalate (kvs.map (fun p => toHexOrDash p.1 ++ "=" ++ toHexOrDash p.2)) ++ ")"

def showResult : Option (List Receipt × List (List Obs)) → String
  | none => "blockpanic"
  | some (rs, obs) =>
    " ".intercalate (rs.map showReceipt) ++ " | " ++
      " ".intercalate (obs.map (fun o => "[" ++ ",".intercalate (o.map showObs) ++ "]"))

def handle (line : String) : String :=
  match words line with
  | "blk" :: flags :: _base :: addrs :: store :: main :: units =>
    match parseEnv flags addrs, parsePairs store fromHex parseVal, parsePairs main fromHex fromHex,
          units.mapM parseUnit with
    | some env, some store, some main, some us => showResult (runBlock env store main us)
    | _, _, _, _ => "bad-op"
  | _ => "bad-op"

end C11Drv

def main : IO Unit := do
  loopPure (← IO.getStdin) (← IO.getStdout) C11Drv.handle
