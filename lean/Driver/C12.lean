import Chain33Model.Base.Wire
import Chain33Model.Model.C11
open Wire hiding Bytes

/-!
Driver for the key-permission predicates (C12).  All byte strings hex, `-` = empty.

* `allow <para01><fork01> <title> <key> <realExecer> <txExecer> <addr(txExecer)> <addr(realExecer)>` -> 0|1
  (`isAllowKeyWrite` with the synthetic universe's friend oracle)
* `local <execer> <key>` / `local2 <execer> <key>`  -> ok|prefix|keylen
* `findexecer <key>` -> hex|notmavl|noexecer        `execkey <key>` -> hex|none
* `realname <execer>` / `paraname <execer>` -> hex  `paraexec <para01> <title> <execer>` -> hex
* `allowname <name> <execer>` -> 0|1                `checkkv <k,k,…|-> <k,k,…|->` -> ok|memset
* `allowuser` -> the process-wide `types.AllowUserExec` (hex, sorted, duplicates removed)
* `realexec <para01> <title> <execer>` -> hex       ((*executor).getRealExecName with the synthetic registry)
-/

namespace C12Drv
open C12

def b01 (b : Bool) : String := if b then "1" else "0"

def bit (c : Char) : Option Bool := if c == '1' then some true else if c == '0' then some false else none

def parseList (s : String) : Option (List Bytes) :=
  if s == "-" then some [] else (s.splitOn ",").mapM fromHex

def showLocal : Option LocalErr → String
  | none => "ok"
  | some .prefix => "prefix"
  | some .keyLen => "keylen"

def mkEnv (para fork : Bool) (title : Bytes) (addrs : List (Bytes × Bytes)) : C11.Env :=
  { cfg := { isPara := para, title := title, forkExecKey := fork }, allowUser := C11.synthAllowUser,
    registry := C11.fullRegistry, addrs := addrs }

def handle (line : String) : String :=
  match words line with
  | ["allow", flags, title, key, real, txe, atx, areal] =>
    match flags.toList, fromHex title, fromHex key, fromHex real, fromHex txe, fromHex atx, fromHex areal with
    | [p, f], some title, some key, some real, some txe, some atx, some areal =>
      match bit p, bit f with
      | some p, some f =>
        let env := mkEnv p f title [(txe, atx), (real, areal)]
        b01 (isAllowKeyWrite env.cfg env.execAddr (C11.friendOracle env) key real txe)
      | _, _ => "bad-op"
    | _, _, _, _, _, _, _ => "bad-op"
  | ["local", e, k] =>
    match fromHex e, fromHex k with
    | some e, some k => showLocal (isAllowLocalKey e k)
    | _, _ => "bad-op"
  | ["local2", e, k] =>
    match fromHex e, fromHex k with
    | some e, some k => showLocal (isAllowLocalKey2 e k)
    | _, _ => "bad-op"
  | ["findexecer", k] =>
    match fromHex k with
    | some k => match findExecer k with
      | .ok x => toHexOrDash x
      | .error .notMavl => "notmavl"
      | .error .noExecer => "noexecer"
    | none => "bad-op"
  | ["execkey", k] =>
    match fromHex k with
    | some k => match getExecKey k with
      | some a => toHexOrDash a
      | none => "none"
    | none => "bad-op"
  | ["realname", e] => match fromHex e with
    | some e => toHexOrDash (getRealExecName e)
    | none => "bad-op"
  | ["paraname", e] => match fromHex e with
    | some e => toHexOrDash (getParaExecName e)
    | none => "bad-op"
  | ["paraexec", p, t, e] =>
    match p.toList, fromHex t, fromHex e with
    | [p], some t, some e => match bit p with
      | some p => toHexOrDash (getParaExec { isPara := p, title := t, forkExecKey := true } e)
      | none => "bad-op"
    | _, _, _ => "bad-op"
  | ["realexec", p, t, e] =>
    match p.toList, fromHex t, fromHex e with
    | [p], some t, some e => match bit p with
      | some p => toHexOrDash (C11.realExecName (mkEnv p true t []) e)
      | none => "bad-op"
    | _, _, _ => "bad-op"
  | ["allowname", n, e] =>
    match fromHex n, fromHex e with
    | some n, some e => b01 (isAllowExecName C11.synthAllowUser n e)
    | _, _ => "bad-op"
  | ["allowuser"] => ",".intercalate ((C11.synthAllowUser.foldl (fun acc k => C11.insertKey k acc) []).map toHexOrDash)
  | ["checkkv", m, k] =>
    match parseList m, parseList k with
    | some m, some k => if checkKV m k then "ok" else "memset"
    | _, _ => "bad-op"
  | _ => "bad-op"

end C12Drv

def main : IO Unit := do
  loopPure (← IO.getStdin) (← IO.getStdout) C12Drv.handle
