import Chain33Model.Base.Wire
import Chain33Model.Model.C13
open Wire C13

/-
ops:
  site <text with spaces>            -> listed | UNEXPECTED-SITE          (text = everything after "site ")
  sitecount <n>                      -> ok | expected <m>
  sort <hexname,hexname,...|->       -> sorted names, comma separated     (bytewise order = sort.Strings)
  deldup <k:v,k:v,...|->             -> k:v,... after DelDupKey
  checkkv <k,k,...|-> <k:v,...|->    -> ok | ErrNotAllowMemSetKey
  verify <0|1 ...>                   -> true | false
  blk ...                            -> same              (repeated-execution digests: the model is the identity: every run must
                                                            reproduce the first line it saw for that block)
-/

abbrev B := List UInt8

def bytesLe : B → B → Bool
  | [], _ => true
  | _ :: _, [] => false
  | a :: as, b :: bs => if a < b then true else if b < a then false else bytesLe as bs

def list? (s : String) : Option (List B) :=
  if s == "-" then some [] else (s.splitOn ",").mapM fromHex

def pairs? (s : String) : Option (List (B × B)) :=
  if s == "-" then some [] else
  (s.splitOn ",").mapM fun p =>
    match p.splitOn ":" with
    | [k, v] => do pure (← fromHex k, ← fromHex v)
    | _ => none

def joinHex (l : List B) : String := if l.isEmpty then "-" else ",".intercalate (l.map toHexOrDash)

def step (seen : List (String × String)) (line : String) : List (String × String) × String :=
  if line.startsWith "site " then
    let s := (line.drop 5).toString
    (seen, if expectedSites.any (fun p => p.1 == s) then "listed" else "UNEXPECTED-SITE")
  else
  match words line with
  | ["actionmap", _, _, vals] =>
      -- regenerated fact: the action numbers of a registered type map are pairwise distinct (hypothesis of
      -- findByValue_order_irrelevant)
      let vs := if vals == "-" then [] else vals.splitOn ","
      (seen, if decide (vs.Nodup) then "injective" else "NOT-INJECTIVE")
  | ["sitecount", n] => (seen, if n.toNat? == some expectedSites.length then "ok" else s!"expected {expectedSites.length}")
  | ["sort", l] => match list? l with
      | some l => (seen, joinHex (sortI bytesLe l))
      | none => (seen, "bad-op")
  | ["deldup", l] => match pairs? l with
      | some l => (seen, if (delDup l).isEmpty then "-" else ",".intercalate ((delDup l).map fun p => toHexOrDash p.1 ++ ":" ++ toHexOrDash p.2))
      | none => (seen, "bad-op")
  | ["checkkv", m, l] => match list? m, pairs? l with
      | some m, some l => (seen, if checkKV m l then "ok" else "ErrNotAllowMemSetKey")
      | _, _ => (seen, "bad-op")
  | "verify" :: rs => (seen, toString (verifyLoop (rs.map (· == "1"))))
  | ["blk", cfg, h, d] =>
      -- determinism: the digest of block h must be the one first seen for (cfg, h)
      match seen.find? (fun p => p.1 == cfg ++ "/" ++ h) with
      | some p => (seen, p.2)
      | none => ((cfg ++ "/" ++ h, d) :: seen, d)
  | _ => (seen, "bad-op")

def main : IO Unit := do
  loopState (← IO.getStdin) (← IO.getStdout) step []
