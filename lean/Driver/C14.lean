import Chain33Model.Base.Wire
import Chain33Model.Base.Proto
import Chain33Model.Model.C14
open Wire C14
abbrev B := List UInt8

/-
ops (hex tokens, `-` = empty):
  blk <height> <hash> <parent> <quick 0|1>            -> ok      new block, clears transactions and pre-state
  tx <hash> <eth> <from> <to> <fee> <rty> <txres> <info> <feeinfo> <coins>   -> ok
        coins: n | t:<amt> | e:<amt> | w:<amt> | g:<amt>
  pre cnt <addr> <n> | pre recv <addr> <n> | pre fee <hash> <f> <c> | pre stx <hash[:8]> <value> | pre raw <cnt|recv|fee> <arg> <hex>  -> ok
  add                 -> KV list of blockAdd on the pre-state, or `error`
  del                 -> KV list of blockDel on the state after `add`
  chk                 -> `same` when every key touched by add/del is observationally restored, else the keys that differ
  mvreset             -> ok    (empty MVCC store)
  mvadd <v> <hash> <prev|nil> <k:v,k:v,...|->          -> KV list | panic     (list is applied on ok)
  mvdel <v> <hash>                                        -> KV list | panic     (list is applied on ok)
KV list rendering: `<hex key>=<hex value>|nil` joined by `,` (`-` for the empty list); an empty value renders as `=`.
-/

def s2b (s : String) : B := s.toUTF8.toList

def padNat (w n : Nat) : B :=
  let d := (toString n).toUTF8.toList
  List.replicate (w - d.length) 48 ++ d

def renderKey : Key → B
  | .tx q h => if q then s2b "TX:" ++ h else h
  | .etx h => s2b "ETX:" ++ h
  | .stx h => s2b "STX:" ++ h
  | .addrHash a s => s2b "TxAddrHash:" ++ a ++ s2b ":" ++ padNat 18 s
  | .addrDir a d s => s2b "TxAddrDirHash:" ++ a ++ s2b ":" ++ s2b (toString d) ++ s2b ":" ++ padNat 18 s
  | .feeDir a s => s2b "TxFeeAddrDirHash:" ++ a ++ s2b ":1:" ++ padNat 18 s
  | .count a => s2b "AddrTxsCount:" ++ a
  | .totalFee h => s2b "TotalFeeKey:" ++ h
  | .recv a => s2b "LODB-coins-Addr:" ++ a
  | .mvHash h => s2b ".-mvcc-.m." ++ h
  | .mvVer v => s2b ".-mvcc-.m.version." ++ padNat 20 v
  | .mvData k v => s2b ".-mvcc-.d." ++ k ++ s2b "." ++ padNat 20 v
  | .mvKL v => s2b ".-mvcc-.m.versionkl." ++ padNat 20 v

def renderVal : Val → B
  | .blob b => b
  | .int n => Proto.fInt64 1 n
  | .fee f c => Proto.fInt64 1 f ++ Proto.fInt64 2 c
  | .keys ks => Proto.fRepBytes 2 (ks.map (Proto.fBytes 1))

def renderKV (kv : KV) : String :=
  toHex (renderKey kv.1) ++ "=" ++ (match kv.2 with | none => "nil" | some v => toHex (renderVal v))

def renderKVs (l : List KV) : String :=
  if l.isEmpty then "-" else ",".intercalate (l.map renderKV)

structure St where
  blk : Block := { height := 0, hash := [], parent := [], quick := false, txs := [] }
  pre : Store := []
  post : Option Store := none      -- after add
  addL : List KV := []
  delL : List KV := []
  mv : Store := []

def coins? (s : String) : Option CoinsAct :=
  if s == "n" then some .none else
  match s.splitOn ":" with
  | [k, a] => do
    let a ← parseInt? a
    if k == "t" then pure (.transfer a) else if k == "e" then pure (.toExec a)
    else if k == "w" then pure (.withdraw a) else if k == "g" then pure (.genesis a) else none
  | _ => none

def kvPairs? (s : String) : Option (List (B × B)) :=
  if s == "-" then some [] else
  (s.splitOn ",").mapM fun p =>
    match p.splitOn ":" with
    | [k, v] => do pure (← fromHex k, ← fromHex v)
    | _ => none

def touched (l : List KV) : List Key := l.map (·.1)

def obsEqB (a b : Option Val) : Bool :=
  a == b || ((match a with | none => true | some v => v.isEmptyEnc) && (match b with | none => true | some v => v.isEmptyEnc))

def step (s : St) (line : String) : St × String :=
  match words line with
  | ["blk", h, hash, parent, q] =>
    match h.toNat?, fromHex hash, fromHex parent with
    | some h, some hash, some parent =>
      ({ s with blk := { height := h, hash := hash, parent := parent, quick := q == "1", txs := [] },
                pre := [], post := none, addL := [], delL := [] }, "ok")
    | _, _, _ => (s, "bad-op")
  | ["tx", hash, eth, sender, to, fee, rty, txres, info, feeinfo, coins] =>
    match fromHex hash, fromHex eth, fromHex sender, fromHex to, parseInt? fee, rty.toNat?,
          fromHex txres, fromHex info, fromHex feeinfo, coins? coins with
    | some hash, some eth, some sender, some to, some fee, some rty, some txres, some info, some feeinfo, some coins =>
      let t : Tx := { hash := hash, eth := eth, sender := sender, to := to, fee := fee, rty := rty,
                      txres := txres, info := info, feeinfo := feeinfo, coins := coins }
      ({ s with blk := { s.blk with txs := s.blk.txs ++ [t] } }, "ok")
    | _, _, _, _, _, _, _, _, _, _ => (s, "bad-op")
  | ["pre", "cnt", a, n] =>
    match fromHex a, parseInt? n with
    | some a, some n => ({ s with pre := set s.pre (Key.count a) (.int n) }, "ok")
    | _, _ => (s, "bad-op")
  | ["pre", "recv", a, n] =>
    match fromHex a, parseInt? n with
    | some a, some n => ({ s with pre := set s.pre (Key.recv a) (.int n) }, "ok")
    | _, _ => (s, "bad-op")
  | ["pre", "fee", h, f, c] =>
    match fromHex h, parseInt? f, parseInt? c with
    | some h, some f, some c => ({ s with pre := set s.pre (Key.totalFee h) (.fee f c) }, "ok")
    | _, _, _ => (s, "bad-op")
  | ["pre", "stx", h8, v] =>
    match fromHex h8, fromHex v with
    | some h8, some v => ({ s with pre := set s.pre (Key.stx h8) (.blob v) }, "ok")
    | _, _ => (s, "bad-op")
  | ["pre", "raw", kind, arg, v] =>
    match fromHex arg, fromHex v with
    | some arg, some v =>
      let k := if kind == "cnt" then Key.count arg else if kind == "recv" then Key.recv arg else Key.totalFee arg
      ({ s with pre := set s.pre k (.blob v) }, "ok")
    | _, _ => (s, "bad-op")
  | ["add"] =>
    match blockAdd s.pre s.blk with
    | none => ({ s with post := none }, "error")
    | some l => ({ s with post := some (applyKVs s.pre l), addL := l }, renderKVs l)
  | ["del"] =>
    match s.post with
    | none => (s, "no-add")
    | some m =>
      let l := blockDel m s.blk
      ({ s with delL := l }, renderKVs l)
  | ["chk"] =>
    match s.post with
    | none => (s, "no-add")
    | some m =>
      let fin := applyKVs m s.delL
      let bad := (touched s.addL ++ touched s.delL).eraseDups.filter (fun k => !obsEqB (get fin k) (get s.pre k))
      (s, if bad.isEmpty then "same" else ",".intercalate (bad.map (fun k => toHex (renderKey k))))
  | ["mvreset"] => ({ s with mv := [] }, "ok")
  | ["mvadd", v, hash, prev, kvs] =>
    match v.toNat?, fromHex hash, kvPairs? kvs with
    | some v, some hash, some kvs =>
      let prevNil := prev == "nil"
      match (if prevNil then some [] else fromHex prev) with
      | none => (s, "bad-op")
      | some p =>
        match mvccAdd s.mv kvs hash p prevNil v with
        | .panic => (s, "panic")
        | .ok l => ({ s with mv := applyKVs s.mv l }, renderKVs l)
    | _, _, _ => (s, "bad-op")
  | ["mvdel", v, hash] =>
    match v.toNat?, fromHex hash with
    | some v, some hash =>
      match mvccDel s.mv hash v with
      | .panic => (s, "panic")
      | .ok l => ({ s with mv := applyKVs s.mv l }, renderKVs l)
    | _, _ => (s, "bad-op")
  | _ => (s, "bad-op")

def main : IO Unit := do
  loopState (← IO.getStdin) (← IO.getStdout) step {}
