import Chain33Model.Base.Wire
import Chain33Model.Model.C15
open Wire

/-!
Driver for C15.  One op per line, one answer per line.

  cfg allow <execaddr>...            -> ok        (addresses of cfg.GetMinerExecs())
  reset                              -> ok        (fresh store)
  limits                             -> <MaxCoin*precision> <MaxTokenBalance>
  transfer F T amt | checktransfer F T amt | mint A amt | burn A amt | genesis A amt
  genesisexec A amt E | toexec F E amt | withdraw F E amt | frozen A E amt | active A E amt
  exectransfer F T E amt | exectransferfrozen F T E amt | depositfrozen A E amt | issue E amt
  execdeposit A E amt | execwithdraw E A amt
  load A | loadexec A E

answer: `<result> <storedAddr>:<balance>:<frozen> ...` for the accounts the operation involves.
-/

abbrev St := C15.State String String

structure DState where
  allow : List String
  st : St

def cfgOf (d : DState) : C15.Cfg String String :=
  { norm := C15.normEth, allow := fun e => d.allow.contains e }

def showAcct (a : C15.Acct String) : String :=
  a.addr ++ ":" ++ toString a.bal ++ ":" ++ toString a.frz

def int64? (s : String) : Option Int :=
  match parseInt? s with
  | some n => if -9223372036854775808 ≤ n ∧ n ≤ 9223372036854775807 then some n else none
  | none => none

/-- which accounts to print: main spellings, then (addr, exec) pairs. -/
def observe (d : DState) (s : St) (mains : List String) (subs : List (String × String)) : String :=
  let c := cfgOf d
  let ms := mains.map (fun a => " " ++ showAcct (C15.loadMain c s a))
  let ss := subs.map (fun p => " " ++ showAcct (C15.loadSub c s p.1 p.2))
  String.join (ms ++ ss)

def doOp (d : DState) (op : C15.Op String) (mains : List String) (subs : List (String × String)) :
    DState × String :=
  let r := C15.step (cfgOf d) d.st op
  ({ d with st := r.1 }, r.2.toString ++ observe d r.1 mains subs)

def handle (d : DState) (line : String) : DState × String :=
  match words line with
  | "cfg" :: "allow" :: as => ({ d with allow := as }, "ok")
  | ["reset"] => ({ d with st := C15.State.init }, "ok")
  | ["limits"] => (d, toString C15.amountLimit ++ " " ++ toString C15.maxBal)
  | ["load", a] => (d, "ok" ++ observe d d.st [a] [])
  | ["loadexec", a, e] => (d, "ok" ++ observe d d.st [] [(a, e)])
  | [op, x, y, z] =>
    match op, int64? z, int64? y with
    | "transfer", some amt, _ => doOp d (.transfer x y amt) [x, y] []
    | "checktransfer", some amt, _ => doOp d (.checkTransfer x y amt) [x] []
    | "toexec", some amt, _ => doOp d (.toExec x y amt) [x, y] [(x, y)]
    | "withdraw", some amt, _ => doOp d (.withdraw x y amt) [x, y] [(x, y)]
    | "frozen", some amt, _ => doOp d (.execFrozen x y amt) [] [(x, y)]
    | "active", some amt, _ => doOp d (.execActive x y amt) [] [(x, y)]
    | "depositfrozen", some amt, _ => doOp d (.execDepositFrozen x y amt) [y] [(x, y)]
    | "execdeposit", some amt, _ => doOp d (.execDeposit x y amt) [] [(x, y)]
    | "execwithdraw", some amt, _ => doOp d (.execWithdraw x y amt) [] [(y, x)]
    | "genesisexec", _, some amt => doOp d (.genesisExec x amt z) [z] [(x, z)]
    | _, _, _ => (d, "bad-op")
  | [op, x, y] =>
    match op, int64? y with
    | "mint", some amt => doOp d (.mint x amt) [x] []
    | "burn", some amt => doOp d (.burn x amt) [x] []
    | "genesis", some amt => doOp d (.genesis x amt) [x] []
    | "issue", some amt => doOp d (.execIssue x amt) [x] []
    | _, _ => (d, "bad-op")
  | [op, x, y, e, z] =>
    match op, int64? z with
    | "exectransfer", some amt => doOp d (.execTransfer x y e amt) [] [(x, e), (y, e)]
    | "exectransferfrozen", some amt => doOp d (.execTransferFrozen x y e amt) [] [(x, e), (y, e)]
    | _, _ => (d, "bad-op")
  | _ => (d, "bad-op")

def main : IO Unit := do
  loopState (← IO.getStdin) (← IO.getStdout) handle { allow := [], st := C15.State.init }
