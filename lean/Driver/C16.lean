import Chain33Model.Base.Wire
import Chain33Model.Model.C16
open Wire C16 C16.Codec

/-- ops (stateful: the crypto registry):
`sha256 <hex>`                         -> hex
`tx <tx>`                              -> `<encode> <hash> <fullhash> <signbytes> <size>`
`clone <tx>`                           -> `<tx> <hash> <fullhash>`   (of `tx.Clone()`)
`clonetx <tx>`                         -> `<tx>`                      (of `CloneTx(tx)`)
`reg|init|load …`                      -> registry ops (Model.C16.Codec.regOp)
`checksign <height> <oracle> <tx> <label>` -> 1|0|panic    (oracle 1|0|p = driver.Validate(signBytes,pub,sig): nil|error|panic)
`parsesig <der|first64|exact65> <hex>` -> hex | rejected
`sigsame <parser> <honest> <variant>`  -> accepted (same bytes reach the verifier) | rejected | other
`fields|sigfields|cloneassign|clonesigassign` -> regenerated-facts constants of the model
-/
def parserOf (p : String) : Option SigParser :=
  if p == "der72" then some .derMax72 else if p == "der" then some .derPrefix else if p == "first64" then some .first64
  else if p == "exact65" then some .exact65 else none

def showFields (fs : List (String × Nat × String × String)) : String :=
  ",".intercalate (fs.map (fun f => s!"{f.1}:{f.2.1}:{f.2.2.1}:{f.2.2.2}"))

def handle (r : Registry) (line : String) : Registry × String :=
  let ws := words line
  match regOp r ws with
  | some (r', o) => (r', o)
  | none =>
  match ws with
  | ["sha256", h] => match fromHex h with
      | some b => (r, toHex (Sha256.hash b))
      | none => (r, "bad-op")
  | ["tx", t] => match parseTx t with
      | some t => (r, s!"{toHexOrDash (encode t)} {toHex (hash t)} {toHex (fullHash t)} {toHexOrDash (signBytes t)} {size t}")
      | none => (r, "bad-op")
  | ["clone", t] => match parseTx t with
      | some t => let c := clone t; (r, s!"{showTx c} {toHex (hash c)} {toHex (fullHash c)}")
      | none => (r, "bad-op")
  | ["clonetx", t] => match parseTx t with
      | some t => (r, showTx (cloneTx t))
      | none => (r, "bad-op")
  | ["fields"] => (r, showFields protoFields)
  | ["sigfields"] => (r, showFields sigProtoFields)
  | ["cloneassign"] => (r, ",".intercalate cloneTxAssigned)
  | ["clonesigassign"] => (r, ",".intercalate cloneSigAssigned)
  | ["sigsame", p, a, b] => match parserOf p, fromHex a, fromHex b with
      | some p, some a, some b => match parseSig p a, parseSig p b with
          | some x, some y => (r, if x = y then "accepted" else "other")
          | some _, none => (r, "rejected")
          | none, _ => (r, "honest-unparsable")
      | _, _, _ => (r, "bad-op")
  | ["checksign", h, o, t, _label] => match parseInt? h, parseVOut o, parseTx t with
      | some h, some o, some t => (r, showVOut (checkSignO r (fun _ _ _ _ => o) h t))
      | _, _, _ => (r, "bad-op")
  | ["parsesig", p, s] =>
      match parserOf p, fromHex s with
      | some p, some s => match parseSig p s with
          | some b => (r, toHexOrDash b)
          | none => (r, "rejected")
      | _, _ => (r, "bad-op")
  | _ => (r, "bad-op")

def main : IO Unit := do
  loopState (← IO.getStdin) (← IO.getStdout) handle ([] : Registry)
