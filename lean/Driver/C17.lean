import Chain33Model.Base.Wire
import Chain33Model.Model.C16
open Wire C16 C16.Codec

/-- ops (stateful: the crypto registry):
`reg|init|load …`                                   -> registry ops
`create <feeRate> <tx>…`                            -> `ok <tx>…` | Err…
`rebuilt <tx>…`                                     -> `<tx>…`
`gcheck <strict01> <cfgChainID> <checkFork01> <paraFork01> <minfee> <maxfee> <label> <tx>…` -> ok | Err…
`gchecksign <h> <oracles> <label> <tx>…`            -> 1|0|panic   (oracles: one of 1|0|p per member)
`grouptx <tx>…`                                     -> `<tx>` of `Transactions.Tx()` | nil
`gettxgroup <tx>`                                   -> single | Err… | decode
`check1 <strict01> <cfgChainID> <checkFork01> <minfee> <maxfee> <tx>` -> ok | Err…  (single tx check)
-/
def showTxs (ts : List Transaction) : String := " ".intercalate (ts.map showTx)

def parseOracles (s : String) : Option (List VOut) :=
  s.toList.foldr (fun c acc => do
    let acc ← acc
    let v ← parseVOut (String.singleton c)
    pure (v :: acc)) (some [])

def nthOracle : List VOut → Nat → VOut
  | [], _ => .fail
  | o :: _, 0 => o
  | _ :: os, n + 1 => nthOracle os n

def showExc : Except Err Unit → String
  | .ok _ => "ok"
  | .error e => e.toString

def handle (r : Registry) (line : String) : Registry × String :=
  let ws := words line
  match regOp r ws with
  | some (r', o) => (r', o)
  | none =>
  match ws with
  | "create" :: rate :: txs => match parseInt? rate, parseTxs txs with
      | some rate, some txs => match createGroup txs rate with
          | .ok g => (r, "ok " ++ showTxs g)
          | .error e => (r, e.toString)
      | _, _ => (r, "bad-op")
  | "rebuilt" :: txs => match parseTxs txs with
      | some txs => (r, showTxs (rebuiltGroup txs))
      | none => (r, "bad-op")
  | "gcheck" :: st :: cid :: cf :: pf :: minfee :: maxfee :: _label :: txs =>
      match parseBool st, parseInt? cid, parseBool cf, parseBool pf, parseInt? minfee, parseInt? maxfee, parseTxs txs with
      | some st, some cid, some cf, some pf, some minfee, some maxfee, some txs =>
        (r, showExc (groupCheck { chainIDStrict := st, cfgChainID := cid, checkFork := cf, paraFork := pf } minfee maxfee txs))
      | _, _, _, _, _, _, _ => (r, "bad-op")
  | "check1" :: st :: cid :: cf :: minfee :: maxfee :: [tx] =>
      match parseBool st, parseInt? cid, parseBool cf, parseInt? minfee, parseInt? maxfee, parseTx tx with
      | some st, some cid, some cf, some minfee, some maxfee, some tx =>
        (r, showExc (singleCheck { chainIDStrict := st, cfgChainID := cid, checkFork := cf, paraFork := false } minfee maxfee tx))
      | _, _, _, _, _, _ => (r, "bad-op")
  | "gchecksign" :: h :: os :: _label :: txs => match parseInt? h, parseOracles os, parseTxs txs with
      | some h, some os, some txs =>
        (r, showVOut (groupCheckSignO r (fun i _ _ _ _ => nthOracle os i) h 0 txs))
      | _, _, _ => (r, "bad-op")
  | "grouptx" :: txs => match parseTxs txs with
      | some txs => match groupTx txs with
          | some t => (r, showTx t)
          | none => (r, "nil")
      | none => (r, "bad-op")
  | ["gettxgroup", tx] => match parseTx tx with
      | some t => match getTxGroupGate t with
          | .single => (r, "single")
          | .err e => (r, e.toString)
          | .decodeHeader => (r, "decode")
      | none => (r, "bad-op")
  | _ => (r, "bad-op")

def main : IO Unit := do
  loopState (← IO.getStdin) (← IO.getStdout) handle ([] : Registry)
