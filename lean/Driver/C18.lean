import Chain33Model.Base.Wire
import Chain33Model.Base.Sha256
import Chain33Model.Model.C18
open Wire

/-!
drv_c18 — ops (one per line):
  `root <ncpu> <spec>`                      -> hex root | `-`
  `comp <flage> <pos> <spec>`               -> `<root> <0|1> <b1,b2,…|->` | `panic`
  `frombranch <index> <leafhex> <b1,b2,…|->` -> hex root
  `multi <ncpu> <execerhex|->:<hash>,…`     -> `<root> <titlehex>:<start>:<count>:<hash>;…` | `panic`
  `deldup <h1,h2,…|->`                      -> `<kept hashes|-> <0|1 = block rejected with ErrTxDup>`
leaf-list `<spec>`: comma separated tokens `g<seed>.<start>.<count>` (generated leaves),
`x<64 hex>` (explicit leaf), `z` (nil leaf), `t<k>` (append a copy of the last k leaves), `e` (nothing).
-/

abbrev B := ByteArray

def bnil : B := ByteArray.empty

def H2 (l r : B) : B :=
  if l.size == 0 || r.size == 0 then bnil else Sha256.hashBA (Sha256.hashBA (l ++ r))

def be (n : Nat) (width : Nat) : List UInt8 :=
  (List.range width).reverse.map (fun i => UInt8.ofNat (n / 256 ^ i % 256))

/-- generated leaf = SHA-256(be64 seed ‖ be32 i). -/
def genLeaf (seed i : Nat) : B := Sha256.hashBA (ByteArray.mk (be seed 8 ++ be i 4).toArray)

def hexB (b : B) : String := if b.size == 0 then "-" else toHex b.toList

def parseLeaf (s : String) : Option B :=
  if s == "-" then some bnil else
  match fromHexChars s.toList with
  | some b => if b.length == 32 then some (ByteArray.mk b.toArray) else none
  | none => none

def parseToken (acc : List B) (tok : String) : Option (List B) :=
  match tok.toList with
  | 'e' :: [] => some acc
  | 'z' :: [] => some (acc ++ [bnil])
  | 'x' :: rest => (parseLeaf (String.ofList rest)).map (fun l => acc ++ [l])
  | 't' :: rest => match (String.ofList rest).toNat? with
      | some k => if k ≤ acc.length then some (acc ++ acc.drop (acc.length - k)) else none
      | none => none
  | 'g' :: rest => match (String.ofList rest).splitOn "." with
      | [a, b, c] => match a.toNat?, b.toNat?, c.toNat? with
          | some seed, some start, some count =>
            some (acc ++ (List.range count).map (fun j => genLeaf seed (start + j)))
          | _, _, _ => none
      | _ => none
  | _ => none

def parseSpec (s : String) : Option (List B) :=
  (s.splitOn ",").foldl (fun acc tok => acc.bind (fun a => parseToken a tok)) (some [])

def parseBranch (s : String) : Option (List B) :=
  if s == "-" then some [] else
  (s.splitOn ",").foldr (fun tok acc => match parseLeaf tok, acc with
    | some l, some a => some (l :: a)
    | _, _ => none) (some [])

def showBranch (b : List B) : String :=
  if b.isEmpty then "-" else ",".intercalate (b.map hexB)

def parseTx (s : String) : Option (C18.Bytes × B) :=
  match s.splitOn ":" with
  | [e, h] => match fromHex e, parseLeaf h with
    | some e, some h => some (e, h)
    | _, _ => none
  | _ => none

def parseTxs (s : String) : Option (List (C18.Bytes × B)) :=
  if s == "-" then some [] else
  (s.splitOn ",").foldr (fun tok acc => match parseTx tok, acc with
    | some t, some a => some (t :: a)
    | _, _ => none) (some [])

def zeroHash : B := ByteArray.mk (Array.replicate 32 0)

def handle (line : String) : String :=
  match words line with
  | ["root", k, spec] => match k.toNat?, parseSpec spec with
      | some k, some xs => hexB (C18.GetMerkleRoot bnil H2 k xs)
      | _, _ => "bad-op"
  | ["comp", f, p, spec] => match f.toNat?, p.toNat?, parseSpec spec with
      | some f, some p, some xs =>
        if p < 2^32 then
          match C18.Computation bnil H2 xs f p with
          | .panic => "panic"
          | .ok (r, m, b) => s!"{hexB r} {if m then 1 else 0} {showBranch b}"
        else "bad-op"
      | _, _, _ => "bad-op"
  | ["frombranch", i, leaf, br] => match i.toNat?, parseLeaf leaf, parseBranch br with
      | some i, some l, some b => if i < 2^32 then hexB (C18.GetMerkleRootFromBranch H2 b l i) else "bad-op"
      | _, _, _ => "bad-op"
  | ["multi", k, txs] => match k.toNat?, parseTxs txs with
      | some k, some txs =>
        match C18.calcMultiLayer bnil zeroHash H2 k txs with
        | .panic => "panic"
        | .ok (r, cs) =>
          let cs' := cs.map (fun c => s!"{toHexOrDash c.title}:{c.start}:{c.count}:{hexB c.hash}")
          s!"{hexB r} {if cs'.isEmpty then "-" else ";".intercalate cs'}"
      | _, _ => "bad-op"
  | ["deldup", hs] => match parseBranch hs with
      | some hs => s!"{showBranch (C18.delDupTx hs)} {if C18.dupRejected hs then 1 else 0}"
      | none => "bad-op"
  | _ => "bad-op"

def main : IO Unit := do
  loopPure (← IO.getStdin) (← IO.getStdout) handle
