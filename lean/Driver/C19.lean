import Chain33Model.Base.Wire
import Chain33Model.Model.C19
open Wire C19

/-
ops:
  cfg <id>:<enableHeight>,...           -> ok      (driver table, id order)
  reset                                 -> ok      (caches dropped)
  check <addrId> <height> <v0>,<v1>,..  -> ok | <error name>   (vi = verdict of driver i for the address: ok | <error>)
  pub2addr <k> <fork1> <fork2>          -> "<l1> <l2>"  (is the returned text lower-case at the first / second call)
Errors are strings; the model's E is String, A is Nat.
-/

structure St where
  cfg : List (Nat × Int) := []
  cache : Cache Nat String := []

def parseCfg (s : String) : Option (List (Nat × Int)) :=
  (s.splitOn ",").mapM fun p =>
    match p.splitOn ":" with
    | [a, b] => do pure (← a.toNat?, ← parseInt? b)
    | _ => none

def mkDrivers (cfg : List (Nat × Int)) (verdicts : List String) : List (Drv Nat String) :=
  (cfg.zip verdicts).map fun ((id, en), v) => ⟨id, en, fun _ => if v == "ok" then none else some v⟩

def step (s : St) (line : String) : St × String :=
  match words line with
  | ["cfg", c] => match parseCfg c with
      | some c => ({ cfg := c, cache := [] }, "ok")
      | none => (s, "bad-op")
  | ["reset"] => ({ s with cache := [] }, "ok")
  | ["check", a, h, vs] =>
    match a.toNat?, parseInt? h with
    | some a, some h =>
      let verdicts := vs.splitOn ","
      if verdicts.length != s.cfg.length then (s, "bad-op") else
      let ds := mkDrivers s.cfg verdicts
      let (r, c') := check ds s.cache a h
      ({ s with cache := c' }, match r with | none => "ok" | some e => e)
    | _, _ => (s, "bad-op")
  | ["pub2addr", _k, f1, f2] =>
    -- text model: raw = mixed case (false = not lower), fmt fork t = lower iff fork
    let cx : EthCtx Nat Bool := { raw := fun _ => false, fmt := fun fk t => fk || t }
    let (a1, c1) := pub2addr cx [] (f1 == "1") 0
    let (a2, _) := pub2addr cx c1 (f2 == "1") 0
    (s, s!"{if a1 then 1 else 0} {if a2 then 1 else 0}")
  | _ => (s, "bad-op")

def main : IO Unit := do
  loopState (← IO.getStdin) (← IO.getStdout) step {}
