import Chain33Model.Base.Wire
import Chain33Model.Model.C20
open Wire

/-- ops: `tobig <c>` | `tocompact <n>` | `work <c>` (decimal). -/
def handle (line : String) : String :=
  match words line with
  | ["tobig", c] => match c.toNat? with
      | some c => if c < 2^32 then toString (C20.compactToBig c) else "bad-op"
      | none => "bad-op"
  | ["tocompact", n] => match parseInt? n with
      | some n => toString (C20.bigToCompact n)
      | none => "bad-op"
  | ["work", c] => match c.toNat? with
      | some c => if c < 2^32 then toString (C20.calcWork c) else "bad-op"
      | none => "bad-op"
  | _ => "bad-op"

def main : IO Unit := do
  loopPure (← IO.getStdin) (← IO.getStdout) handle
