import Chain33Model.Base.Wire
import Chain33Model.Model.C21Wire
open Wire

/-- ops: see harness/cmd/h_c21/mp/ops.go; one output line per input line. -/
def main : IO Unit := do
  loopState (← IO.getStdin) (← IO.getStdout) C21Wire.handle C21Wire.St.init
