import Chain33Model.Base.Wire
import Chain33Model.Model.C24
open Wire C24

/-!
Driver for C24.  State: one raw skip list (values = decimal ids) and one queue.
ops (decimal integers):
  s.new | s.ins <score> <val> <lvl> | s.del <score> | s.find <score> | s.fge <score>
  q.new <cap> | q.push <id> <score> <pri> <size> <lvl> | q.remove <id>
  q.exist <id> | q.get <id> | q.walk <count>
-/

def joinOr (sep : String) (xs : List String) : String :=
  if xs.isEmpty then "-" else sep.intercalate xs

def dumpSl {β : Type} (showVal : β → String) (sl : SkipList β) : String :=
  let nodes := sl.nodes.map (fun n => s!"{n.score}:{n.level}:{showVal n.val}")
  let lanes := (List.range sl.level).map (fun i => joinOr "." ((laneIdx sl.nodes i).map toString))
  let back := (List.range sl.nodes.length).reverse.map toString
  s!"lvl={sl.level} cnt={sl.nodes.length} nodes={joinOr "," nodes} lanes={joinOr "|" lanes} back={joinOr "." back}"

def showBucket (b : List Item) : String := joinOr "+" (b.map (fun it => toString it.id))

def showOptItem : Except Unit (Option Item) → String
  | .error () => "panic"
  | .ok none => "nil"
  | .ok (some it) => toString it.id

def dumpQ (q : Queue) : String :=
  s!"sz={q.size} by={q.bytes} first={showOptItem q.first} last={showOptItem q.last} walk={joinOr "," (q.items.map (fun it => toString it.id))} {dumpSl showBucket q.sl}"

structure St where
  sl : SkipList Nat
  q : Queue

def handle (st : St) (line : String) : St × String :=
  match words line with
  | ["s.new"] => let sl : SkipList Nat := SkipList.new; ({ st with sl := sl }, dumpSl toString sl)
  | ["s.ins", sc, v, l] =>
    match parseInt? sc, v.toNat?, l.toNat? with
    | some sc, some v, some l =>
      let sl := st.sl.insert sc v l
      ({ st with sl := sl }, dumpSl toString sl)
    | _, _, _ => (st, "bad-op")
  | ["s.del", sc] =>
    match parseInt? sc with
    | some sc =>
      let (sl, ok) := st.sl.delete sc
      ({ st with sl := sl }, (if ok then "1 " else "0 ") ++ dumpSl toString sl)
    | none => (st, "bad-op")
  | ["s.find", sc] =>
    match parseInt? sc with
    | some sc => (st, match st.sl.find sc with | some n => toString n.val | none => "nil")
    | none => (st, "bad-op")
  | ["s.fge", sc] =>
    match parseInt? sc with
    | some sc => (st, match st.sl.findGE sc with | some n => s!"{n.score}:{n.val}" | none => "nil")
    | none => (st, "bad-op")
  | ["q.new", c] =>
    match parseInt? c with
    | some c => let q := Queue.new c; ({ st with q := q }, dumpQ q)
    | none => (st, "bad-op")
  | ["q.push", id, sc, pri, sz, l] =>
    match id.toNat?, parseInt? sc, parseInt? pri, parseInt? sz, l.toNat? with
    | some id, some sc, some pri, some sz, some l =>
      let (q, r) := st.q.push ⟨id, sc, pri, sz⟩ l
      ({ st with q := q }, r.toString ++ " " ++ dumpQ q)
    | _, _, _, _, _ => (st, "bad-op")
  | ["q.remove", id] =>
    match id.toNat? with
    | some id =>
      let (q, r) := st.q.remove id
      ({ st with q := q }, r.toString ++ " " ++ dumpQ q)
    | none => (st, "bad-op")
  | ["q.exist", id] =>
    match id.toNat? with
    | some id => (st, toString (st.q.exist id))
    | none => (st, "bad-op")
  | ["q.get", id] =>
    match id.toNat? with
    | some id => (st, match st.q.getItem id with
        | some it => s!"{it.id}:{it.score}:{it.pri}:{it.size}"
        | none => "notfound")
    | none => (st, "bad-op")
  | ["q.walk", c] =>
    match parseInt? c with
    | some c => (st, joinOr "," ((st.q.walk c).map (fun it => toString it.id)))
    | none => (st, "bad-op")
  | _ => (st, "bad-op")

def main : IO Unit := do
  loopState (← IO.getStdin) (← IO.getStdout) handle { sl := SkipList.new, q := Queue.new 0 }
