import Chain33Model.Base.Wire
import Chain33Model.Model.C20
import Chain33Model.Model.C25
import Chain33Model.Model.C25Ext
open Wire C25 C25X

/-!
Driver for C25/C26 (same op language as harness/cmd/h_c25):
  case <name> <fin> <margin> <rec> <gbits>   -> tip=0 h=0 td=<n>
  blk <id> <parent> <height> <bits> <salt> <txs>  -> ok
  deliver <id> | chain | td <id> | seqs | seqof <id> | isorphan <id> | tx <tag> | end
  tick <sec> | finalize <id> | fin | restart | junk <n> | isjunk <k>      (extension layer, Model/C25Ext)
`case` takes two optional trailing words `<maxOrphanBlocks> <orphanExpirationSeconds>` (read from
orphanpool.go by the harness; default 10240 600).  Junk block `k` is an orphan that belongs to no
tree: id 1000000+k, parent 2000000+k, height 5.
Block ids on the wire are tree indices, 0 = genesis.  `diff` of a block is
`C20.calcWork bits` (the model of difficulty.CalcWork, tied separately by C20).
-/

structure DState where
  st : Option (XState (Std.HashMap Nat (Nat × Nat)))
  junk : Nat := 0       -- junk orphans delivered so far
  blocks : List Block   -- declared blocks (wire id = Block.id)
  started : Bool        -- a delivery/observation happened: no more `blk`

def work (bits : Nat) : Nat := (C20.calcWork bits).toNat

def resStr : Res → String
  | .main => "main" | .side => "side" | .orphan => "orphan"
  | .err .exist => "exist" | .err .parentNoExist => "parentnoexist"
  | .err .heightNoMatch => "heightnomatch" | .err .hashNoMatch => "hashnomatch"
  | .err .parentTdNoExist => "parenttdnoexist" | .err .hashNotExist => "hashnotexist"
  | .err .panic => "panic" | .err .stuck => "model-stuck"

def optNat : Option Nat → String
  | some n => toString n | none => "none"

def tipStr (s : State) : String :=
  match tip? s with
  | some t => s!"tip={t.id} h={t.height} td={optNat (s.tds t.id)}"
  | none => "tip=- h=-1 td=none"

def idStr : Option Nat → String
  | some n => toString n | none => "-"

def seqStr (s : State) : String :=
  let recs := (seqLog s).map fun
    | some (true, id) => s!"A{id} "
    | some (false, id) => s!"D{id} "
    | none => "nil "
  String.join recs ++ s!"last={s.lastSeq}"

/-- `-` or a comma separated list of transaction tags. -/
def parseTxs (w : String) : Option (List Nat) :=
  if w == "-" then some [] else (w.splitOn ",").mapM (·.toNat?)

def handle (d : DState) (line : String) : DState × String :=
  match words line with
  | "case" :: _ :: fin :: margin :: rec :: gbits :: rest =>
    let lims : Option (Nat × Nat) := match rest with
      | [] => some (10240, 600)
      | [l, t] => match l.toNat?, t.toNat? with
                  | some l, some t => some (l, t)
                  | _, _ => none
      | _ => none
    match fin.toNat?, margin.toNat?, gbits.toNat?, lims with
    | some f, some m, some gb, some (lim, ttl) =>
      if (rec == "0" || rec == "1") && gb < 2^32 then
        let g : Block := { id := 0, parent := 0, height := 0, diff := work gb }
        let x := initX (Std.HashMap Nat (Nat × Nat)) f m (rec == "1") g lim ttl
        ({ st := some x, blocks := [g], started := false }, tipStr x.base)
      else ({ d with st := none }, "bad-op")
    | _, _, _, _ => ({ d with st := none }, "bad-op")
  | ["blk", id, par, h, bits, salt, txs] =>
    match d.st, id.toNat?, par.toNat?, h.toNat?, bits.toNat?, salt.toNat?, parseTxs txs with
    | some _, some id, some par, some h, some bits, some _, some txs =>
      if !d.started && id == d.blocks.length && par < id && bits < 2^32 then
        ({ d with blocks := d.blocks ++ [{ id := id, parent := par, height := h, diff := work bits, txs := txs }] }, "ok")
      else (d, "bad-op")
    | _, _, _, _, _, _, _ => (d, "bad-op")
  | ["tx", tag] =>
    match d.st, tag.toNat? with
    | some x, some t => ({ d with started := true }, optNat (x.base.txIdx t))
    | _, _ => (d, "bad-op")
  | ["tick", n] =>
    match d.st, n.toNat? with
    | some x, some n => ({ d with st := some (tick x n), started := true }, "ok")
    | _, _ => (d, "bad-op")
  | ["junk", n] =>
    match d.st, n.toNat? with
    | some x, some n =>
      let x' := (List.range n).foldl (fun x k =>
        (processBlockX x { id := 1000000 + d.junk + k, parent := 2000000 + d.junk + k, height := 5, diff := 1 }).1) x
      ({ d with st := some x', junk := d.junk + n, started := true }, "ok")
    | _, _ => (d, "bad-op")
  | ["isjunk", k] =>
    match d.st, k.toNat? with
    | some x, some k => ({ d with started := true }, if isKnownOrphan x.base (1000000 + k) then "yes" else "no")
    | _, _ => (d, "bad-op")
  | [op, arg] =>
    match d.st, arg.toNat? with
    | some x, some id =>
      match d.blocks[id]? with
      | none => (d, "bad-op")
      | some b =>
        let d := { d with started := true }
        let s := x.base
        if op == "deliver" then
          if id == 0 || b.height == 0 then (d, "bad-op") else
          let (x', r) := processBlockX x b
          ({ d with st := some x' }, resStr r ++ " " ++ tipStr x'.base)
        else if op == "finalize" then
          let s' := finalize s b.height b.id
          ({ d with st := some { x with base := s' } }, s!"fin={s'.fin}")
        else if op == "td" then (d, optNat (s.tds id))
        else if op == "seqof" then (d, optNat (s.hashSeq id))
        else if op == "isorphan" then (d, if isKnownOrphan s id then "yes" else "no")
        else (d, "bad-op")
    | _, _ => (d, "bad-op")
  | ["fin"] =>
    match d.st with
    | some x => ({ d with started := true }, s!"fin={x.base.fin}")
    | none => (d, "bad-op")
  | ["restart"] =>
    match d.st with
    | some x =>
      match restartX x with
      | some x' => ({ d with st := some x', started := true }, tipStr x'.base)
      | none => ({ d with st := none }, "panic")
    | none => (d, "bad-op")
  | ["chain"] =>
    match d.st with
    | some x =>
      ({ d with started := true },
        ",".intercalate ((mainChain x.base).map idStr) ++ (if cleanAbove x.base then " clean" else " dirty"))
    | none => (d, "bad-op")
  | ["seqs"] =>
    match d.st with
    | some x => ({ d with started := true }, seqStr x.base)
    | none => (d, "bad-op")
  | ["end"] =>
    match d.st with
    | some _ => ({ st := none, blocks := [], started := false }, "ok")
    | none => (d, "bad-op")
  | _ => (d, "bad-op")

def main : IO Unit := do
  loopState (← IO.getStdin) (← IO.getStdout) handle { st := none, blocks := [], started := false }
