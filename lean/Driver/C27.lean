import Chain33Model.Model.C27
/-! Driver for C27 (op language of harness/internal/chainkit/c27_run; handler: `C27.Drv.handle`). -/
def main : IO Unit := C27.Drv.main
