import Chain33Model.Model.C27
/-! Driver for C28 — the same executable model and op language as C27 (`C27.Drv.handle`). -/
def main : IO Unit := C27.Drv.main
