import Chain33Model.Base.Wire
import Chain33Model.Model.C20
import Chain33Model.Model.C25
import Chain33Model.Model.C29
open Wire C25 C29

/-!
Driver for C29 (op language of harness/cmd/h_c29):
  case <name> <fin> <margin> <rec> <gbits>          -> tip=0 h=0 td=<n>
  blk <id> <parent> <height> <bits> <salt> <txs>    -> ok
  deliver <id>                                      -> <res> tip=<id> h=<h> td=<n>      (the uninterrupted run)
  writes                                            -> n=<W> B<id> S<id> C<id> D<id> …   (the run's durable writes, in order)
  crash <k>                                         -> recovered state after the first k writes (or `panic`)
  resume <k>                                        -> results of re-delivering the history on the recovered node + final chain
  end                                               -> ok
-/

structure DState where
  st : Option State
  cfg : Nat × Nat × Bool     -- fin, margin, rec
  blocks : List Block
  hist : List Block          -- delivered blocks, in order
  started : Bool

def work (bits : Nat) : Nat := (C20.calcWork bits).toNat

def resStr : Res → String
  | .main => "main" | .side => "side" | .orphan => "orphan"
  | .err .exist => "exist" | .err .parentNoExist => "parentnoexist"
  | .err .heightNoMatch => "heightnomatch" | .err .hashNoMatch => "hashnomatch"
  | .err .parentTdNoExist => "parenttdnoexist" | .err .hashNotExist => "hashnotexist"
  | .err .panic => "panic" | .err .stuck => "model-stuck"

def optNat : Option Nat → String
  | some n => toString n | none => "none"

def tipStr (s : State) : String :=
  match tip? s with
  | some t => s!"tip={t.id} h={t.height} td={optNat (s.tds t.id)}"
  | none => "tip=- h=-1 td=none"

def idStr : Option Nat → String
  | some n => toString n | none => "-"

def seqStr (s : State) : String :=
  let recs := (seqLog s).map fun
    | some (true, id) => s!"A{id} "
    | some (false, id) => s!"D{id} "
    | none => "nil "
  String.join recs ++ s!"last={s.lastSeq}"

def chainStr (s : State) : String :=
  ",".intercalate ((mainChain s).map idStr) ++ (if cleanAbove s then " clean" else " dirty")

def parseTxs (w : String) : Option (List Nat) :=
  if w == "-" then some [] else (w.splitOn ",").mapM (·.toNat?)

def writeStr : Write → String
  | .store b _ => s!"B{b.id}"
  | .state b => s!"S{b.id}"
  | .connect b _ _ => s!"C{b.id}"
  | .disconnect b _ => s!"D{b.id}"

def insertSorted (x : Nat) : List Nat → List Nat
  | [] => [x]
  | y :: ys => if x < y then x :: y :: ys else if x == y then y :: ys else y :: insertSorted x ys

def allTags (bs : List Block) : List Nat :=
  bs.foldl (fun acc b => b.txs.foldl (fun a t => insertSorted t a) acc) []

/-- what the harness reads from a restarted node. -/
def recoveredStr (d : DState) (dk : Disk) (s : State) : String :=
  let tds := ",".intercalate (d.blocks.map (fun b => optNat (s.tds b.id)))
  let txs := ",".intercalate ((allTags d.blocks).map (fun t => s!"{t}={optNat (s.txIdx t)}"))
  let st := match tip? s with
    | some t => if dk.roots t.id then "ok" else "missing"
    | none => "missing"
  s!"{tipStr s} chain={chainStr s} tds={tds} txs={txs} seqs={seqStr s} state={st}"

def genesisOf (d : DState) : Option Block := d.blocks.head?

def crashDisk (d : DState) (k : Nat) : Option Disk :=
  match genesisOf d with
  | none => none
  | some g => some (crash d.cfg.1 d.cfg.2.1 d.cfg.2.2 g d.hist k)

def handle (d : DState) (line : String) : DState × String :=
  match words line with
  | ["case", _, fin, margin, rec, gbits] =>
    match fin.toNat?, margin.toNat?, gbits.toNat? with
    | some f, some m, some gb =>
      if (rec == "0" || rec == "1") && gb < 2^32 then
        let g : Block := { id := 0, parent := 0, height := 0, diff := work gb }
        let s := init f m (rec == "1") g
        ({ st := some s, cfg := (f, m, rec == "1"), blocks := [g], hist := [], started := false }, tipStr s)
      else ({ d with st := none }, "bad-op")
    | _, _, _ => ({ d with st := none }, "bad-op")
  | ["blk", id, par, h, bits, salt, txs] =>
    match d.st, id.toNat?, par.toNat?, h.toNat?, bits.toNat?, salt.toNat?, parseTxs txs with
    | some _, some id, some par, some h, some bits, some _, some txs =>
      if !d.started && id == d.blocks.length && par < id && bits < 2^32 then
        ({ d with blocks := d.blocks ++ [{ id := id, parent := par, height := h, diff := work bits, txs := txs }] }, "ok")
      else (d, "bad-op")
    | _, _, _, _, _, _, _ => (d, "bad-op")
  | ["deliver", arg] =>
    match d.st, arg.toNat? with
    | some s, some id =>
      match d.blocks[id]? with
      | none => (d, "bad-op")
      | some b =>
        if id == 0 || b.height == 0 then (d, "bad-op") else
        let (s', r) := processBlock s b
        ({ d with st := some s', hist := d.hist ++ [b], started := true }, resStr r ++ " " ++ tipStr s')
    | _, _ => (d, "bad-op")
  | ["writes"] =>
    match d.st, genesisOf d with
    | some _, some g =>
      let ws := writesOf (init d.cfg.1 d.cfg.2.1 d.cfg.2.2 g) d.hist
      ({ d with started := true }, s!"n={ws.length}" ++ String.join (ws.map (fun w => " " ++ writeStr w)))
    | _, _ => (d, "bad-op")
  | ["crash", arg] =>
    match d.st, arg.toNat?, genesisOf d with
    | some _, some k, some _ =>
      match crashDisk d k with
      | none => (d, "bad-op")
      | some dk =>
        match recover d.cfg.1 d.cfg.2.1 d.cfg.2.2 dk with
        | none => ({ d with started := true }, "panic")
        | some s => ({ d with started := true }, recoveredStr d dk s)
    | _, _, _ => (d, "bad-op")
  | ["resume", arg] =>
    match d.st, arg.toNat?, genesisOf d with
    | some _, some k, some _ =>
      match crashDisk d k with
      | none => (d, "bad-op")
      | some dk =>
        match recover d.cfg.1 d.cfg.2.1 d.cfg.2.2 dk with
        | none => ({ d with started := true }, "panic")
        | some s =>
          let (sf, rs) := d.hist.foldl (fun (acc : State × List String) b =>
            let (s', r) := processBlock acc.1 b
            (s', acc.2 ++ [resStr r])) (s, [])
          ({ d with started := true }, ",".intercalate rs ++ " " ++ tipStr sf ++ " chain=" ++ chainStr sf)
    | _, _, _ => (d, "bad-op")
  | ["end"] =>
    match d.st with
    | some _ => ({ st := none, cfg := (0, 0, false), blocks := [], hist := [], started := false }, "ok")
    | none => (d, "bad-op")
  | _ => (d, "bad-op")

def main : IO Unit := do
  loopState (← IO.getStdin) (← IO.getStdout) handle
    { st := none, cfg := (0, 0, false), blocks := [], hist := [], started := false }
