import Chain33Model.Base.Wire
import Chain33Model.Model.C30
open Wire C30

/-!
Driver for C30 (stateless).
  lim <base> <forks> <height>                                   -> cfg.GetP(height).MaxTxNumber
  add <height> <base> <forks> <blFork> <count0> <size0> <entry>*  -> ids of addedTx
  exp <height> <blocktime> <txHeightOn 0|1> <tx>*               -> ids kept | panic
forks  = `-` | `<forkHeight>:<value>,...`
entry  = `b` | `s<id>:<size>:<blocked 0|1>` | `g` | `g<id>:<size>:<b>+<id>:<size>:<b>+...`
tx     = `<id>:<groupCount>:<expire>:<hdr>`,  hdr = `n` | `g` | `g<groupCount>~<expire>.<groupCount>~<expire>...`
-/

def joinOr (sep : String) (xs : List String) : String :=
  if xs.isEmpty then "-" else sep.intercalate xs

def allSome {α : Type} : List (Option α) → Option (List α)
  | [] => some []
  | none :: _ => none
  | some x :: rest => (allSome rest).map (x :: ·)

def parseForks (s : String) : Option (List (Int × Int)) :=
  if s == "-" then some [] else
  allSome ((s.splitOn ",").map (fun p =>
    match p.splitOn ":" with
    | [h, v] => match parseInt? h, parseInt? v with
      | some h, some v => some (h, v)
      | _, _ => none
    | _ => none))

def parseTx (s : String) : Option Tx :=
  match s.splitOn ":" with
  | [id, sz, b] => match id.toNat?, sz.toNat?, b with
    | some id, some sz, "0" => some ⟨id, sz, false⟩
    | some id, some sz, "1" => some ⟨id, sz, true⟩
    | _, _, _ => none
  | _ => none

def parseEntry (s : String) : Option Entry :=
  if s == "b" then some .bad
  else if s == "g" then some (.group [])
  else if s.startsWith "s" then (parseTx (s.drop 1).toString).map .single
  else if s.startsWith "g" then (allSome (((s.drop 1).toString.splitOn "+").map parseTx)).map .group
  else none

def parseMember (s : String) : Option (Int × Int) :=
  match s.splitOn "~" with
  | [g, e] => match parseInt? g, parseInt? e with
    | some g, some e => some (g, e)
    | _, _ => none
  | _ => none

def parseHdr (s : String) : Option (Option (List (Int × Int))) :=
  if s == "n" then some none
  else if s == "g" then some (some [])
  else if s.startsWith "g" then (allSome (((s.drop 1).toString.splitOn ".").map parseMember)).map some
  else none

def parseETx (s : String) : Option ETx :=
  match s.splitOn ":" with
  | [id, gc, e, h] => match id.toNat?, parseInt? gc, parseInt? e, parseHdr h with
    | some id, some gc, some e, some h => some ⟨id, gc, e, h⟩
    | _, _, _, _ => none
  | _ => none

def handle (line : String) : String :=
  match words line with
  | ["lim", base, forks, h] =>
    match parseInt? base, parseForks forks, parseInt? h with
    | some base, some forks, some h => toString (limitAt base forks h)
    | _, _, _ => "bad-op"
  | "add" :: h :: base :: forks :: bl :: c0 :: s0 :: ents =>
    match parseInt? h, parseInt? base, parseForks forks, parseInt? bl, c0.toNat?, s0.toNat?, allSome (ents.map parseEntry) with
    | some h, some base, some forks, some bl, some c0, some s0, some ents =>
      joinOr "," ((addTxsToBlock base forks bl h c0 s0 ents).map (fun t => toString t.id))
    | _, _, _, _, _, _, _ => "bad-op"
  | "exp" :: h :: bt :: th :: txs =>
    match parseInt? h, parseInt? bt, th, allSome (txs.map parseETx) with
    | some h, some bt, th, some txs =>
      if th == "0" || th == "1" then
        match checkTxExpire (ETx.expired (th == "1") h bt) txs with
        | some r => joinOr "," (r.map (fun t => toString t.id))
        | none => "panic"
      else "bad-op"
    | _, _, _, _ => "bad-op"
  | _ => "bad-op"

def main : IO Unit := do
  loopPure (← IO.getStdin) (← IO.getStdout) handle
