import Chain33Model.Base.Wire
import Chain33Model.Model.C31
open Wire C31

/-
ops (address texts are hex of their UTF-8 bytes, `-` = empty text):
  set <text,text,...|none>                   -> ok | panic          (blacklist configured from these spellings)
  parse <text>                              -> <raw hex> | none
  (<active> below is `0`, `1` or `<height>:<forkHeight>`)
  core <active> <txv>                       -> pass | hit:<position>
  exec <active> f <txv> <base>              -> receipt of a para-chain forwarded transaction
  poolp <reach> <forwarded> <base> <members> -> para-chain pool
  exec <active> s <txv> <base>              -> receipt types, comma separated (err|pack|ok)
  exec <active> g <txv>;<base>|<txv>;<base>...
  exec <active> p <outer txv> <inner txv | none> <base>
  prod <active> <txv>|<txv>...              -> take | skip
  pool <reach 0|1> <base> <txv>;<addrOk 0|1>;<inner txv|none>|...    -> accepted | blocked | other
  delay <txv>                               -> cached | blocked
txv = <from>/<to>/<realTo>/<execer>/<payload>,  payload = `n` (does not decode as an EVM action) | <contract text>:<para raw hex>
  realexec <execer text>                    -> real executor name (hex)
-/

def text? (h : String) : Option (List Char) := do
  let b ← fromHex h
  let s ← String.fromUTF8? (ByteArray.mk b.toArray)
  pure s.toList

def evm? (s : String) : Option (Option Evm) :=
  if s == "n" then some none else
  match s.splitOn ":" with
  | [c, p] => do pure (some { contract := ← text? c, para := ← fromHex p })
  | _ => none

def txv? (s : String) : Option TxV :=
  match s.splitOn "/" with
  | [f, t, r, x, e] => do pure { sender := ← text? f, to := ← text? t, realTo := ← text? r, execer := ← text? x, payload := ← evm? e }
  | _ => none

def ty? (s : String) : Option Ty :=
  if s == "err" then some .err else if s == "pack" then some .pack else if s == "ok" then some .ok else none

def tyS : Ty → String
  | .err => "err" | .pack => "pack" | .ok => "ok"

def posS : Pos → String
  | .sender => "from" | .to => "to" | .realTo => "realTo" | .evmContract => "evmContract" | .evmPara => "evmPara"

def poolRes? (s : String) : Option PoolRes :=
  if s == "accepted" then some .accepted else if s == "blocked" then some .blocked else if s == "other" then some .other else none

def poolS : PoolRes → String
  | .accepted => "accepted" | .blocked => "blocked" | .other => "other"

/-- activation token: `0` / `1`, or `<height>:<forkHeight>`. -/
def act (s : String) : Bool :=
  match s.splitOn ":" with
  | [h, f] => (match h.toNat?, f.toNat? with | some h, some f => activeAt f h | _, _ => false)
  | _ => s == "1"

def txvs? (s : String) : Option (List TxV) := (s.splitOn "|").mapM txv?

def step (set : List Raw) (line : String) : List Raw × String :=
  match words line with
  | ["set", l] =>
    match (if l == "none" then some [] else (l.splitOn ",").mapM text?) with
    | none => (set, "bad-op")
    | some ts => match mkSet ts with
      | none => (set, "panic")
      | some s => (s, "ok")
  | ["realexec", t] =>
    match text? t with
    | none => (set, "bad-op")
    | some t => (set, toHexOrDash (String.ofList (realExecName t)).toUTF8.toList)
  | ["parse", t] =>
    match text? t with
    | none => (set, "bad-op")
    | some t => (set, match parse t with | none => "none" | some r => toHexOrDash r)
  | ["core", a, t] =>
    match txv? t with
    | none => (set, "bad-op")
    | some t => (set, match check (act a) set t with | none => "pass" | some p => "hit:" ++ posS p)
  | ["exec", a, "s", t, b] =>
    match txv? t, ty? b with
    | some t, some b => (set, ",".intercalate ((execItem (act a) set (.single t b)).map tyS))
    | _, _ => (set, "bad-op")
  | ["exec", a, "f", t, b] =>
    match txv? t, ty? b with
    | some t, some b => (set, ",".intercalate ((execItem (act a) set (.forwarded t b)).map tyS))
    | _, _ => (set, "bad-op")
  | ["poolp", r, f, b, l] =>
    let ms := (l.splitOn "|").mapM fun m =>
      match m.splitOn ";" with
      | [t, a, i] => do
        let inner ← (if i == "none" then some none else (txv? i).map some)
        pure ({ outer := ← txv? t, addrOk := a == "1", inner := inner } : PoolTx)
      | _ => none
    match poolRes? b, ms with
    | some b, some ts => (set, poolS (poolSubmitPara set ts (r == "1") (f == "1") b))
    | _, _ => (set, "bad-op")
  | ["exec", a, "g", l] =>
    let ms := (l.splitOn "|").mapM fun m =>
      match m.splitOn ";" with
      | [t, b] => do pure (← txv? t, ← ty? b)
      | _ => none
    match ms with
    | some ms => (set, ",".intercalate ((execItem (act a) set (.group ms)).map tyS))
    | none => (set, "bad-op")
  | ["exec", a, "p", o, i, b] =>
    match txv? o, (if i == "none" then some none else (txv? i).map some), ty? b with
    | some o, some i, some b => (set, ",".intercalate ((execItem (act a) set (.proxied o i b)).map tyS))
    | _, _, _ => (set, "bad-op")
  | ["prod", a, l] =>
    match txvs? l with
    | some ts => (set, if producerTakes (act a) set ts then "take" else "skip")
    | none => (set, "bad-op")
  | ["pool", r, b, l] =>
    let ms := (l.splitOn "|").mapM fun m =>
      match m.splitOn ";" with
      | [t, a, i] => do
        let inner ← (if i == "none" then some none else (txv? i).map some)
        pure ({ outer := ← txv? t, addrOk := a == "1", inner := inner } : PoolTx)
      | _ => none
    match poolRes? b, ms with
    | some b, some ts => (set, poolS (poolSubmit set ts (r == "1") b))
    | _, _ => (set, "bad-op")
  | ["delay", t] =>
    match txv? t with
    | some t => (set, if delayTakes set t then "cached" else "blocked")
    | none => (set, "bad-op")
  | _ => (set, "bad-op")

def main : IO Unit := do
  loopState (← IO.getStdin) (← IO.getStdout) step []
