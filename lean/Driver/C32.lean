import Chain33Model.Base.Wire
import Chain33Model.Model.C32
open Wire C32

/-
Trace validation driver: the harness logs the visible events of the real Push (one per line) and the
specification acceptor must accept each of them from the state reached so far.
  cfg <maxSeq> <strict01>      -> ok        (and resets the acceptor; strict: every acknowledgement is
                                             followed at once by its record — histories without injected
                                             store failures / crashes)
  skip <a> <b>                 -> ok | rejected   (filter subscriptions: range scanned, no matching data)
  stalled                      -> ok | rejected   (first block of the range exceeds the size limit)
  post <a> <b> <ok01>          -> ok | rejected
  persisted <v>                -> ok | rejected
  deactivated                  -> ok | rejected
  started                      -> ok | rejected
  acked?                       -> prints the effective resume point (debug)
A rejected event leaves the state unchanged.
-/

structure St where
  c : Cfg := {}
  strict : Bool := true
  s : Spec := {}

def ev? (ws : List String) : Option Ev :=
  match ws with
  | ["post", a, b, ok] => do pure (.post (← parseInt? a) (← parseInt? b) (ok == "1"))
  | ["persisted", v] => do pure (.persisted (← parseInt? v))
  | ["deactivated"] => some .deactivated
  | ["started"] => some .started
  | ["stalled"] => some .stalled
  | ["skip", a, b] => do pure (.skip (← parseInt? a) (← parseInt? b))
  | _ => none

def stepLine (st : St) (line : String) : St × String :=
  match words line with
  | ["cfg", m, k] => match m.toNat? with
      | some m => ({ c := { maxSeq := m }, strict := k == "1", s := {} }, "ok")
      | none => (st, "bad-op")
  | ["acked?"] => (st, toString (eff st.s))
  | ws => match ev? ws with
    | none => (st, "bad-op")
    | some e => match accept st.c st.strict st.s e with
      | none => (st, "rejected")
      | some s' => ({ st with s := s' }, "ok")

def main : IO Unit := do
  loopState (← IO.getStdin) (← IO.getStdout) stepLine {}
