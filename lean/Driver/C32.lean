import Chain33Model.Base.Wire
import Chain33Model.Model.C32
open Wire C32

/-
Trace validation driver: the harness logs the visible events of the real Push (one per line) and the
specification acceptor must accept each of them from the state reached so far.
  cfg <maxSeq>                 -> ok        (and resets the acceptor)
  post <a> <b> <ok01>          -> ok | rejected
  persisted <v>                -> ok | rejected
  deactivated                  -> ok | rejected
  started                      -> ok | rejected
  acked?                       -> prints the effective resume point (debug)
A rejected event leaves the state unchanged.
-/

structure St where
  c : Cfg := {}
  s : Spec := {}

def ev? (ws : List String) : Option Ev :=
  match ws with
  | ["post", a, b, ok] => do pure (.post (← parseInt? a) (← parseInt? b) (ok == "1"))
  | ["persisted", v] => do pure (.persisted (← parseInt? v))
  | ["deactivated"] => some .deactivated
  | ["started"] => some .started
  | _ => none

def stepLine (st : St) (line : String) : St × String :=
  match words line with
  | ["cfg", m] => match m.toNat? with
      | some m => ({ c := { maxSeq := m }, s := {} }, "ok")
      | none => (st, "bad-op")
  | ["acked?"] => (st, toString (eff st.s))
  | ws => match ev? ws with
    | none => (st, "bad-op")
    | some e => match accept st.c st.s e with
      | none => (st, "rejected")
      | some s' => ({ st with s := s' }, "ok")

def main : IO Unit := do
  loopState (← IO.getStdin) (← IO.getStdout) stepLine {}
