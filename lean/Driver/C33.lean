import Chain33Model.Model.C33Ops
open Wire C33

def main : IO Unit := do
  loopState (← IO.getStdin) (← IO.getStdout) C33.Ops.stepLine {}
