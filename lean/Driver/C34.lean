import Chain33Model.Model.C33Ops
open Wire C33

/- C34 uses the light-block part of the C33 model: ops reset / pool push|del|up / cur / now / lt / tick. -/
def main : IO Unit := do
  loopState (← IO.getStdin) (← IO.getStdout) C33.Ops.stepLine {}
