import Chain33Model.Base.Wire
import Chain33Model.Model.C35
open Wire C35

/-
ops:
  init <npeers> <h,h,...>      -> ok          one worker per height, all sharing one task array
  ph <p> <height>              -> ok          peer p's announced height
  start <w>                    -> ask <p> | nopeer | toomany          first round of downloadBlock
  reply <w> ok <h> | fail      -> delivered <h> | ask <p> | nopeer | toomany     fetch returns; next round
  arr                          -> the shared backing array
  stall                        -> unbounded | bounded
-/

def showOut : Out → String
  | .ask p => s!"ask {p}"
  | .wait => "wait"
  | .delivered h => s!"delivered {h}"
  | .noPeer => "nopeer"
  | .tooMany => "toomany"
  | .retry => "retry"

def showList (l : List Nat) : String := if l.isEmpty then "-" else ",".intercalate (l.map toString)

def stepLine (s : State) (line : String) : State × String :=
  match words line with
  | ["init", n, hs] =>
    match n.toNat?, (if hs == "-" then some [] else (hs.splitOn ",").mapM parseInt?) with
    | some n, some hs => (init n hs, "ok")
    | _, _ => (s, "bad-op")
  | ["ph", p, h] =>
    match p.toNat?, parseInt? h with
    | some p, some h => ({ s with peerHeight := fun x => if x = p then h else s.peerHeight x }, "ok")
    | _, _ => (s, "bad-op")
  | ["start", w] =>
    match w.toNat? with
    | some w =>
      match pickUntil s w 60 with
      | some (s', o) => (s', showOut o)
      | none => (s, "not-enabled")
    | none => (s, "bad-op")
  | ["reply", w, "fail"] =>
    match w.toNat? with
    | some w =>
      match step s (.ret w none) with
      | some (s1, _) =>
        match pickUntil s1 w 60 with
        | some (s2, o) => (s2, showOut o)
        | none => (s1, "not-enabled")
      | none => (s, "not-enabled")
    | none => (s, "bad-op")
  | ["reply", w, "ok", h] =>
    match w.toNat?, parseInt? h with
    | some w, some h =>
      match step s (.ret w (some h)) with
      | some (s1, .retry) =>                      -- a block of another height: treated as a failed fetch
        match pickUntil s1 w 60 with
        | some (s2, o) => (s2, showOut o)
        | none => (s1, "not-enabled")
      | some (s1, o) => (s1, showOut o)
      | none => (s, "not-enabled")
    | _, _ => (s, "bad-op")
  | ["arr"] =>
    let present := (s.arr.eraseDups).mergeSort (· ≤ ·)
    let tn := ",".intercalate (present.map fun p => s!"{p}:{s.taskNum p}")
    (s, if s.arr.isEmpty then "-" else s!"{showList s.arr} tn={tn}")
  | ["fact", "worker-clones-list"] => (s, if workersCloneTaskList then "1" else "0")
  | ["stall"] => (s, if fetchHasDeadline then "bounded" else "unbounded")
  | _ => (s, "bad-op")

def main : IO Unit := do
  loopState (← IO.getStdin) (← IO.getStdout) stepLine (init 0 [])
