import Chain33Model.Base.Wire
import Chain33Model.Model.C36
open Wire C36

/-
ops (ids/gens decimal; tag = <obj>:<gen>):
  reset                      -> ok            (fresh queue, default capacities 64 / 40960)
  new <o>                    -> ok
  send <o> <sync01>          -> ok | closed | blocked
  unblock <o>:<g> <sync01>   -> ok | closed
  recv <high01>              -> <o>:<g>
  reply <o>:<g>              -> ok
  wait <o>                   -> <o>:<g> | closed
  timeout <o>                -> timeout
  free <o> <disciplined01>   -> ok
  closetopic | closequeue    -> ok
a label that is not enabled in the model answers `not-enabled` (and leaves the state unchanged).
-/

def tag? (s : String) : Option Tag :=
  match s.splitOn ":" with
  | [a, b] => do pure ⟨← a.toNat?, ← b.toNat?⟩
  | _ => none

def bool? (s : String) : Option Bool := if s == "1" then some true else if s == "0" then some false else none

def label? (ws : List String) : Option Label :=
  match ws with
  | ["new", o] => do pure (.new (← o.toNat?))
  | ["send", o, b] => do pure (.send (← o.toNat?) (← bool? b))
  | ["unblock", t, b] => do pure (.unblock (← tag? t) (← bool? b))
  | ["recv", b] => do pure (.recv (← bool? b))
  | ["reply", t] => do pure (.reply (← tag? t))
  | ["wait", o] => do pure (.wait (← o.toNat?))
  | ["timeout", o] => do pure (.timeout (← o.toNat?))
  | ["free", o, d] => do pure (.free (← o.toNat?) (← bool? d))
  | ["closetopic"] => some .closeTopic
  | ["closequeue"] => some .closeQueue
  | _ => none

def showOut : Out → String
  | .ok => "ok"
  | .tag t => s!"{t.obj}:{t.gen}"
  | .err e => e
  | .blocked => "blocked"

def stepLine (s : State) (line : String) : State × String :=
  match words line with
  | ["reset"] => ({}, "ok")
  | ws =>
    match label? ws with
    | none => (s, "bad-op")
    | some l =>
      match step s l with
      | none => (s, "not-enabled")
      | some (s', o) => (s', showOut o)

def main : IO Unit := do
  loopState (← IO.getStdin) (← IO.getStdout) stepLine {}
