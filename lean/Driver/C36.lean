import Chain33Model.Base.Wire
import Chain33Model.Model.C36
open Wire C36

/-
ops (ids/gens decimal; tag = <obj>:<gen>):
  reset                      -> ok            (fresh queue, default capacities 64 / 40960)
  new <o>                    -> ok
  send <o> <sync01>          -> ok | closed | blocked
  unblock <o>:<g> <sync01> [<viaDone01>]  -> ok | closed
  recv <high01>              -> <o>:<g>
  reply <o>:<g>              -> ok
  wait <o> [<viaDone01>]     -> <o>:<g> | closed
  timeout <o>                -> timeout
  free <o> <disciplined01>   -> ok
  closetopic | closequeue    -> ok
  subreq                     -> ok            (requester's client subscribes a private topic)
  closeclient                -> ok            (requester's client.Close(), run to completion: closeenter;
                                               closedone; closefinish with nothing in between)
  closeenter | closedone | closefinish -> ok | blocked | panic   (the atomic steps, for overlapping calls)
`wait`/`unblock` without the branch: the branch is the only enabled one; when both cases of the Go `select`
are ready the answer is `racy` (state unchanged) — the harness then reports the branch it observed.
a label that is not enabled in the model answers `not-enabled` (and leaves the state unchanged).
-/

def tag? (s : String) : Option Tag :=
  match s.splitOn ":" with
  | [a, b] => do pure ⟨← a.toNat?, ← b.toNat?⟩
  | _ => none

def bool? (s : String) : Option Bool := if s == "1" then some true else if s == "0" then some false else none

def label? (ws : List String) : Option Label :=
  match ws with
  | ["new", o] => do pure (.new (← o.toNat?))
  | ["send", o, b] => do pure (.send (← o.toNat?) (← bool? b))
  | ["unblock", t, b, v] => do pure (.unblock (← tag? t) (← bool? b) (← bool? v))
  | ["recv", b] => do pure (.recv (← bool? b))
  | ["reply", t] => do pure (.reply (← tag? t))
  | ["wait", o, v] => do pure (.wait (← o.toNat?) (← bool? v))
  | ["timeout", o] => do pure (.timeout (← o.toNat?))
  | ["free", o, d] => do pure (.free (← o.toNat?) (← bool? d))
  | ["closetopic"] => some .closeTopic
  | ["closequeue"] => some .closeQueue
  | ["subreq"] => some .subReq
  | ["closeenter"] => some .closeEnter
  | ["closedone"] => some .closeDone
  | ["closefinish"] => some .closeFinish
  | _ => none

def showOut : Out → String
  | .ok => "ok"
  | .tag t => s!"{t.obj}:{t.gen}"
  | .err e => e
  | .blocked => "blocked"
  | .panic => "panic"

/-- a label given without its `select` branch: exactly one branch must be enabled. -/
def either (s : State) (l : Bool → Label) : State × String :=
  match step s (l false), step s (l true) with
  | some (s', o), none => (s', showOut o)
  | none, some (s', o) => (s', showOut o)
  | some _, some _ => (s, "racy")
  | none, none => (s, "not-enabled")

/-- `client.Close()` of the requester run to completion. -/
def closeClient (s : State) : State × String :=
  match step s .closeEnter with
  | some (s1, .blocked) =>
    match step s1 .closeDone with
    | some (s2, .blocked) =>
      match step s2 .closeFinish with
      | some (s3, o) => (s3, showOut o)
      | none => (s, "not-enabled")
    | some (s2, o) => (s2, showOut o)
    | none => (s, "not-enabled")
  | some (s1, o) => (s1, showOut o)
  | none => (s, "not-enabled")

def stepLine (s : State) (line : String) : State × String :=
  match words line with
  | ["reset"] => ({}, "ok")
  | ["closeclient"] => closeClient s
  | ["wait", o] => match o.toNat? with
    | some o => either s (fun v => .wait o v)
    | none => (s, "bad-op")
  | ["unblock", t, b] => match tag? t, bool? b with
    | some t, some b => either s (fun v => .unblock t b v)
    | _, _ => (s, "bad-op")
  | ws =>
    match label? ws with
    | none => (s, "bad-op")
    | some l =>
      match step s l with
      | none => (s, "not-enabled")
      | some (s', o) => (s', showOut o)

def main : IO Unit := do
  loopState (← IO.getStdin) (← IO.getStdout) stepLine {}
