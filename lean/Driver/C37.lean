import Chain33Model.Base.Wire
import Chain33Model.Model.C37
open Wire
open C37 hiding Bytes

/-
The driver RUNS the definitions of Model/C37.lean with lawful toy instances of the abstract cipher / AEAD
(`toyCipher`, `toyAead`) and reports only what does not depend on the instance: key-derivation bytes, panics,
record lengths, which format branch the decrypter took, whether the result equals the original.

ops (hex lower case, `-` = empty):
  kdf <pw>                                   -> <32-byte key>
  cbc <pw> new|legacy|raw <len>              -> enc=<panic|ok:LEN> dec=<panic|new:OUTLEN:EQ|legacy:OUTLEN:EQ>   (raw: EQ is `-`)
  gcm <pw> new|legacy|wrongpw|wrongpwlegacy|garbage|trunc <len>  -> ok:<new|legacy>:<outlen>:<eq> | err
  keylen <n>                                 -> ok | fail | panic       (does a key of n bytes survive encrypt+decrypt)
  w.init <pw> <seedlen> new|legacy           -> ok
  w.add <keylen> new|legacy                  -> ok | rejected
  w.addbad <keylen>                          -> ok      (a record with an EMPTY Addr written behind the wallet's back)
  w.setpasswd <old> <new> <writeOk01>        -> ok | ErrInvalidPassWord | ErrVerifyOldpasswdFail | ErrSeed | ErrWrite | panic
  w.check                                    -> pw=<hex> seed=<len> keys=<sorted record lengths> dec=<1|0>
-/

def fill (n seed : Nat) : Bytes := (List.range n).map (fun i => UInt8.ofNat ((i * 7 + seed * 13 + 5) % 256))

def b01 (b : Bool) : String := if b then "1" else "0"
def fmtName : Fmt → String
  | .new => "new"
  | .legacy => "legacy"

def showDec (orig : Option Bytes) : Outcome (Bytes × Fmt) → String
  | .panic => "panic"
  | .ok (p, f) =>
    let eq := match orig with
      | some o => b01 (p == o)
      | none => "-"
    s!"{fmtName f}:{p.length}:{eq}"

def cbcOp (pw : Bytes) (kind : String) (len : Nat) : String :=
  let pt := fill len 1
  let iv := fill 16 2
  if kind == "new" then
    match cbcEncrypt toyCipher pw iv pt with
    | .panic => "enc=panic"
    | .ok blob => s!"enc=ok:{blob.length} dec={showDec (some pt) (cbcDecryptF toyCipher pw blob)}"
  else if kind == "legacy" then
    match cbcLegacyEncrypt toyCipher pw pt with
    | .panic => "enc=panic"
    | .ok blob => s!"enc=ok:{blob.length} dec={showDec (some pt) (cbcDecryptF toyCipher pw blob)}"
  else if kind == "raw" then
    s!"enc=ok:{len} dec={showDec none (cbcDecryptF toyCipher pw (fill len 3))}"
  else "bad-op"

def showGcm (orig : Bytes) : Option (Bytes × Fmt) → String
  | none => "err"
  | some (p, f) => s!"ok:{fmtName f}:{p.length}:{b01 (p == orig)}"

def gcmOp (pw : Bytes) (kind : String) (len : Nat) : String :=
  let pt := fill len 4
  let nonce := fill 12 5
  let other := pw ++ [120]
  let other := if kdf other == kdf pw then [119] ++ pw else other
  if kind == "new" then showGcm pt (gcmDecryptF toyAead pw (gcmEncrypt toyAead pw nonce pt))
  else if kind == "legacy" then showGcm pt (gcmDecryptF toyAead pw (gcmLegacyEncrypt toyAead pw pt))
  else if kind == "wrongpw" then showGcm pt (gcmDecryptF toyAead other (gcmEncrypt toyAead pw nonce pt))
  else if kind == "wrongpwlegacy" then showGcm pt (gcmDecryptF toyAead other (gcmLegacyEncrypt toyAead pw pt))
  else if kind == "garbage" then showGcm pt (gcmDecryptF toyAead pw (fill len 6))
  else if kind == "trunc" then showGcm pt (gcmDecryptF toyAead pw (gcmEncrypt toyAead pw nonce pt).dropLast)
  else "bad-op"

def keylenOp (n : Nat) : String :=
  let pt := fill n 7
  match cbcEncrypt toyCipher [112, 119] (fill 16 2) pt with
  | .panic => "panic"
  | .ok blob =>
    match cbcDecrypt toyCipher [112, 119] blob with
    | .panic => "panic"
    | .ok p => if p == pt then "ok" else "fail"

structure W where
  store : Store := { pw := [], seed := [], accts := [] }
  seedPt : Bytes := []
  keys : List Bytes := []     -- plaintext keys in account order
  n : Nat := 0                -- counter for fresh IVs / keys

def showSp : SpOut → String
  | .ok => "ok"
  | .errNewPass => "ErrInvalidPassWord"
  | .errVerify => "ErrVerifyOldpasswdFail"
  | .errSeed => "ErrSeed"
  | .errWrite => "ErrWrite"
  | .panic => "panic"

def insertSorted (x : Nat) : List Nat → List Nat
  | [] => [x]
  | y :: ys => if x ≤ y then x :: y :: ys else y :: insertSorted x ys

def sortNat (l : List Nat) : List Nat := l.foldr insertSorted []

def checkW (w : W) : String :=
  let seedOk := gcmDecrypt toyAead w.store.pw w.store.seed == some w.seedPt
  let keysOk := (w.store.accts.map (fun a => cbcDecrypt toyCipher w.store.pw a.blob)) == w.keys.map Outcome.ok
  let lens := sortNat (w.store.accts.map (fun a => a.blob.length))
  let ls := ",".intercalate (lens.map toString)
  s!"pw={toHexOrDash w.store.pw} seed={w.store.seed.length} keys={if ls == "" then "-" else ls} dec={b01 (seedOk && keysOk)}"

def stepLine (w : W) (line : String) : W × String :=
  match words line with
  | ["kdf", pw] =>
    match fromHex pw with
    | some pw => (w, toHex (kdf pw))
    | none => (w, "bad-op")
  | ["cbc", pw, kind, len] =>
    match fromHex pw, len.toNat? with
    | some pw, some n => (w, cbcOp pw kind n)
    | _, _ => (w, "bad-op")
  | ["gcm", pw, kind, len] =>
    match fromHex pw, len.toNat? with
    | some pw, some n => (w, gcmOp pw kind n)
    | _, _ => (w, "bad-op")
  | ["keylen", n] =>
    match n.toNat? with
    | some n => (w, keylenOp n)
    | none => (w, "bad-op")
  | ["w.init", pw, seedlen, f] =>
    match fromHex pw, seedlen.toNat? with
    | some pw, some n =>
      let sd := fill n 8
      let blob := if f == "legacy" then gcmLegacyEncrypt toyAead pw sd else gcmEncrypt toyAead pw (fill 12 9) sd
      ({ store := { pw := pw, seed := blob, accts := [] }, seedPt := sd, keys := [], n := 0 }, "ok")
    | _, _ => (w, "bad-op")
  | ["w.add", keylen, f] =>
    match keylen.toNat? with
    | some n =>
      if n ≠ 32 ∧ n ≠ 64 then (w, "rejected")     -- bipwallet PrivKeyToPub: len(priv) != 32 && len(priv) != 64
      else
        let k := fill n (20 + w.n)
        let enc := if f == "legacy" then cbcLegacyEncrypt toyCipher w.store.pw k
                   else cbcEncrypt toyCipher w.store.pw (fill 16 (40 + w.n)) k
        match enc with
        | .panic => (w, "panic")
        | .ok blob =>
          ({ w with store := { w.store with accts := w.store.accts ++ [⟨w.n, blob, true⟩] }, keys := w.keys ++ [k], n := w.n + 1 }, "ok")
    | none => (w, "bad-op")
  | ["w.addbad", keylen] =>
    match keylen.toNat? with
    | some n =>
      let k := fill n (20 + w.n)
      match cbcEncrypt toyCipher w.store.pw (fill 16 (40 + w.n)) k with
      | .panic => (w, "panic")
      | .ok blob =>
        ({ w with store := { w.store with accts := w.store.accts ++ [⟨w.n, blob, false⟩] }, keys := w.keys ++ [k], n := w.n + 1 }, "ok")
    | none => (w, "bad-op")
  | ["w.setpasswd", old, new, wok] =>
    match fromHex old, fromHex new with
    | some old, some new =>
      let (s', o) := setPasswd toyCipher toyAead old new (fill 12 (60 + w.n)) (fun i => fill 16 (80 + w.n + i)) (wok == "1") w.store
      ({ w with store := s', n := w.n + 1 }, showSp o)
    | _, _ => (w, "bad-op")
  | ["w.check"] => (w, checkW w)
  | _ => (w, "bad-op")

def main : IO Unit := do
  loopState (← IO.getStdin) (← IO.getStdout) stepLine {}
