import Chain33Model.Base.Wire
import Chain33Model.Model.C38
open Wire C38

/-
ops (booleans 0/1):
  variant code|old|oldverifyfirst       -> ok      (selects the modelled ProcWalletSetPasswd, resets the state;
                                                   `code` = /repo as it is, the default)
  reset <memPw01>                       -> ok      (fresh locked wallet with a seed)
  unlock <pwOk> <ticketOnly> <timeout>  -> ok | ErrInputPassword | ErrVerifyOldpasswdFail
  lock | timer | restart                -> ok
  read                                  -> locked | unlocked
  guarded                               -> secret | ErrWalletIsLocked | ErrOnlyTicketUnLocked
  gticket                               -> secret | ErrWalletIsLocked     (GetAllPrivKeys / SendToAddress to the consensus
                                                                           contract: accept "locked, ticket unlocked")
  reporter <01>                         -> ok      (the registered mineStatusReporter now reports ticket unlocked = 1)
  sign none|wallet|foreign none|valid|garbage
                                        -> signed:stored | signed:supplied | ErrWalletIsLocked | ErrAddrNotExist |
                                           ErrNoPrivKeyOrAddr | ErrPrivkey      (SignRawTx with both key-selecting fields)
  spbegin <oldOk> <newValid> <writeOk>  -> mid | ret:ErrInvalidPassWord
  spstep                                -> mid | ret:<result>
  spto p1|p4|ret                        -> at:<p1|p4> <flag> | ret:<result> <flag>
  spobs <store-access class>            -> <flag>          (a reader at a store access made BY the running password change:
                                                             a `read` while the call holds wallet.mtx; `not-enabled` if none runs)
  spto retp                             -> ret:<result> -      (run to the return; a caller that was waiting for wallet.mtx
                                                                 runs next, so the flag at the return itself is not observed)
a label that is not enabled in the model answers `not-enabled` (state unchanged).
-/

structure DState where
  v : Variant := code
  s : State := {}

def bool? (s : String) : Option Bool := if s == "1" then some true else if s == "0" then some false else none

def showRes : Res → String
  | .ok => "ok"
  | .errVerify => "ErrVerifyOldpasswdFail"
  | .errLocked => "ErrWalletIsLocked"
  | .errWrite => "ErrWrite"
  | .errNewPass => "ErrInvalidPassWord"

def showFlag (b : Bool) : String := if b then "locked" else "unlocked"

def showOut : Out → String
  | .ok => "ok"
  | .err e => e
  | .flag b => showFlag b
  | .secret => "secret"
  | .supplied => "signed:supplied"
  | .mid => "mid"
  | .ret r => "ret:" ++ showRes r

def addrKind? (s : String) : Option AddrKind :=
  if s == "none" then some .none else if s == "wallet" then some .wallet else if s == "foreign" then some .foreign else none

def privKind? (s : String) : Option PrivKind :=
  if s == "none" then some .none else if s == "valid" then some .valid else if s == "garbage" then some .garbage else none

def label? (ws : List String) : Option Label :=
  match ws with
  | ["sign", a, p] => do pure (.sign (← addrKind? a) (← privKind? p))
  | ["unlock", a, b, c] => do pure (.unlock (← bool? a) (← bool? b) (← bool? c))
  | ["lock"] => some .lock
  | ["timer"] => some .timer
  | ["read"] => some .read
  | ["guarded"] => some .guarded
  | ["gticket"] => some .guardedTicket
  | ["reporter", b] => do pure (.reporter (← bool? b))
  | ["spbegin", a, b, c] => do pure (.spBegin (← bool? a) (← bool? b) (← bool? c))
  | ["spstep"] => some .spStep
  | ["restart"] => some .restart
  | _ => none

def stop? (s : String) : Option Stop :=
  if s == "p1" then some .p1 else if s == "p4" then some .p4 else if s == "ret" then some .ret else none

def stepLine (d : DState) (line : String) : DState × String :=
  match words line with
  | ["variant", "code"] => ({ v := code }, "ok")
  | ["variant", "old"] => ({ v := oldCode }, "ok")
  | ["variant", "oldverifyfirst"] => ({ v := oldVerifyFirst }, "ok")
  | ["reset", m] =>
    match bool? m with
    | some m => ({ d with s := { memPw := m } }, "ok")
    | none => (d, "bad-op")
  | ["spobs", _] =>
    match d.s.sp with
    | none => (d, "not-enabled")
    | some _ =>
      match step d.v d.s .read with
      | some (_, o) => (d, showOut o)
      | none => (d, "not-enabled")
  | ["spto", "retp"] =>
    match d.s.sp with
    | none => (d, "not-enabled")
    | some _ =>
      let (s', r) := runTo d.v .ret 8 d.s
      match r with
      | some res => ({ d with s := s' }, s!"ret:{showRes res} -")
      | none => ({ d with s := s' }, "bad-op")
  | ["spto", p] =>
    match stop? p with
    | none => (d, "bad-op")
    | some st =>
      match d.s.sp with
      | none => (d, "not-enabled")
      | some _ =>
        let (s', r) := runTo d.v st 8 d.s
        match r with
        | some res => ({ d with s := s' }, s!"ret:{showRes res} {showFlag s'.locked}")
        | none => ({ d with s := s' }, s!"at:{p} {showFlag s'.locked}")
  | ws =>
    match label? ws with
    | none => (d, "bad-op")
    | some l =>
      match step d.v d.s l with
      | none => (d, "not-enabled")
      | some (s', o) =>
        let txt := match l, o with
          | .sign _ _, .secret => "signed:stored"
          | _, _ => showOut o
        ({ d with s := s' }, txt)

def main : IO Unit := do
  loopState (← IO.getStdin) (← IO.getStdout) stepLine {}
