import Chain33Model.Base.Wire
import Chain33Model.Model.C39
open Wire C39

/-
ops (every string token is hex of its UTF-8 bytes; lists are comma separated; `-` = empty):
  cfg <whitelist> <whitlist> <jWL> <jBL> <gWL> <gBL> <user> <pass>      -> ok
  jrpc <ip> <cred> <method>      -> ip | auth | func | ok        (first gate that stops the request)
  grpc <ip> <fullmethod>         -> ip | func | ok               (unary)
  grpcs <ip> <fullmethod>        -> ip | func | ok               (server streaming; loopback released)
  eth <ip>                       -> 0 | 1
  ipmain <ip>                    -> 0 | 1
  jbody <ip> <cred> <body>       -> ip | auth | parse | func | ok:<probe that ran or ->
                                    (gate decodes the members into clientRequest, the codec into serverRequest)
  grpca <ip> <cred> <fullmethod> -> ip | func | ok               (unary call carrying basic-auth metadata)
  ipadd <whitelist> <whitlist>   -> ok      (a further InitIPWhitelist on the same package map, no reset)
  ipmain2 <ip>                   -> 0 | 1   (checkIPWhitelist against the accumulated map)
ip:   v4:a.b.c.d | m4:a.b.c.d | lo6 | v6:<hex text containing ':'>
cred: - | <hexuser>:<hexpass>
body: null | other | o{;<hexkey>=<val>}    val: s<hex> | n | u<dec> | a | x
-/

def str? (h : String) : Option String := do
  let b ← fromHex h
  String.fromUTF8? (ByteArray.mk b.toArray)

def strList? (s : String) : Option (List String) :=
  if s == "-" then some [] else (s.splitOn ",").mapM str?

def quad? (s : String) : Option (Nat × Nat × Nat × Nat) :=
  match (s.splitOn ".").map String.toNat? with
  | [some a, some b, some c, some d] => some (a, b, c, d)
  | _ => none

def ip? (s : String) : Option IP :=
  if s == "lo6" then some .lo6
  else if s.startsWith "v4:" then (quad? (s.drop 3).toString).map fun (a, b, c, d) => .v4 a b c d
  else if s.startsWith "m4:" then (quad? (s.drop 3).toString).map fun (a, b, c, d) => .mapped a b c d
  else if s.startsWith "v6:" then
    match (str? (s.drop 3).toString).map (·.splitOn ":") with
    | some (pre :: p :: rest) => some (.v6 pre (":".intercalate (p :: rest)))
    | _ => none
  else none

def jv? (s : String) : Option JV :=
  if s == "n" then some .null
  else if s == "a" then some .arr
  else if s == "x" then some .other
  else if s.startsWith "u" then (s.drop 1).toString.toNat?.map JV.uint
  else if s.startsWith "s" then (str? (s.drop 1).toString).map JV.str
  else none

def member? (s : String) : Option (String × JV) :=
  match s.splitOn "=" with
  | [k, v] => do
      let k ← str? k
      let v ← jv? v
      pure (k, v)
  | _ => none

def body? (s : String) : Option Body :=
  if s == "null" then some .null
  else if s == "other" then some .other
  else match s.splitOn ";" with
    | "o" :: ms => (ms.mapM member?).map Body.obj
    | _ => none

/-- receiver methods registered on the harness's JSON-RPC server (`net/rpc` looks names up exactly). -/
def probeOf (m : String) : String :=
  if m == "Probe.Ping" then "Ping" else if m == "Probe.Secret" then "Secret"
  else if m == "Probe.CloseQueue" then "CloseQueue" else if m == "Probe.Version" then "Version" else "-"

structure DS where
  c : Cfg := {}
  ipS : List String := ipSet {}

def cred? (s : String) : Option Cred :=
  if s == "-" then some .none else
  match s.splitOn ":" with
  | [u, p] => do
      let u ← (if u == "" then some "" else str? u)
      let p ← (if p == "" then some "" else str? p)
      pure (.pair u p)
  | _ => none

def stepC (ds : DS) (line : String) : Option String :=
  let c := ds.c
  match words line with
  | ["jbody", ip, cr, b] =>
    match ip? ip, cred? cr, body? b with
    | some ip, some cr, some b =>
      let r := if !mainIPAdmit c ip then "ip" else if !authOk c cr then "auth"
               else match gateMethod b with
                 | none => "parse"
                 | some g => if !(ip.isLoopback || jFuncOk c (lastSeg g '.')) then "func" else "ok"
      let served := jrpcServes c ip cr b
      if (r == "ok") != served.isSome then some "model-inconsistent"
      else match served with
        | some m => some ("ok:" ++ (if dispatchHasParams b then probeOf m else "-"))
        | none => some r
    | _, _, _ => some "bad-op"
  | ["grpca", ip, cr, m] =>
    match ip? ip, cred? cr, str? m with
    | some ip, some cr, some m =>
      let r := if !mainIPAdmit c ip then "ip" else if !gFuncOk c (lastSeg m '/') then "func" else "ok"
      some (if (r == "ok") == grpcUnaryReachesCred c ip cr m then r else "model-inconsistent")
    | _, _, _ => some "bad-op"
  | ["ipmain2", ip] =>
    match ip? ip with
    | some ip => some (if ipAdmitS ds.ipS ip then "1" else "0")
    | none => some "bad-op"
  | _ => none

def step (c : Cfg) (line : String) : Cfg × String :=
  match words line with
  | ["cfg", a, b, jw, jb, gw, gb, u, p] =>
    match strList? a, strList? b, strList? jw, strList? jb, strList? gw, strList? gb, str? u, str? p with
    | some a, some b, some jw, some jb, some gw, some gb, some u, some p =>
      ({ whitelist := a, whitlist := b, jWL := jw, jBL := jb, gWL := gw, gBL := gb, user := u, pass := p }, "ok")
    | _, _, _, _, _, _, _, _ => (c, "bad-op")
  | ["jrpc", ip, cr, m] =>
    match ip? ip, cred? cr, str? m with
    | some ip, some cr, some m =>
      let r := if !mainIPAdmit c ip then "ip" else if !authOk c cr then "auth"
               else if !(ip.isLoopback || jFuncOk c (lastSeg m '.')) then "func" else "ok"
      -- consistency of the enum with the modelled gate (kept in the output so a mismatch is a diff)
      (c, if (r == "ok") == jrpcReaches c ip cr m then r else "model-inconsistent")
    | _, _, _ => (c, "bad-op")
  | ["grpc", ip, m] =>
    match ip? ip, str? m with
    | some ip, some m =>
      let r := if !mainIPAdmit c ip then "ip" else if !gFuncOk c (lastSeg m '/') then "func" else "ok"
      (c, if (r == "ok") == grpcUnaryReaches c ip m then r else "model-inconsistent")
    | _, _ => (c, "bad-op")
  | ["grpcs", ip, m] =>
    match ip? ip, str? m with
    | some ip, some m =>
      let r := if ip.isLoopback then "ok" else if !mainIPAdmit c ip then "ip"
               else if !gFuncOk c (lastSeg m '/') then "func" else "ok"
      (c, if (r == "ok") == grpcStreamReaches c ip m then r else "model-inconsistent")
    | _, _ => (c, "bad-op")
  | ["eth", ip] =>
    match ip? ip with
    | some ip => (c, if ethIPAdmit c ip then "1" else "0")
    | none => (c, "bad-op")
  | ["ipmain", ip] =>
    match ip? ip with
    | some ip => (c, if mainIPAdmit c ip then "1" else "0")
    | none => (c, "bad-op")
  | _ => (c, "bad-op")

def stepDS (ds : DS) (line : String) : DS × String :=
  match words line with
  | ["ipadd", a, b] =>
    match strList? a, strList? b with
    | some a, some b => ({ ds with ipS := ipAdd ds.ipS { whitelist := a, whitlist := b } }, "ok")
    | _, _ => (ds, "bad-op")
  | _ =>
    match stepC ds line with
    | some o => (ds, o)
    | none =>
      let (c', o) := step ds.c line
      let isCfg := (words line).head? == some "cfg" && o == "ok"
      ({ c := c', ipS := if isCfg then ipSet c' else ds.ipS }, o)

def main : IO Unit := do
  loopState (← IO.getStdin) (← IO.getStdout) stepDS {}
