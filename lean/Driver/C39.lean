import Chain33Model.Base.Wire
import Chain33Model.Model.C39
open Wire C39

/-
ops (every string token is hex of its UTF-8 bytes; lists are comma separated; `-` = empty):
  cfg <whitelist> <whitlist> <jWL> <jBL> <gWL> <gBL> <user> <pass>      -> ok
  jrpc <ip> <cred> <method>      -> ip | auth | func | ok        (first gate that stops the request)
  grpc <ip> <fullmethod>         -> ip | func | ok               (unary)
  grpcs <ip> <fullmethod>        -> ip | func | ok               (server streaming; loopback released)
  eth <ip>                       -> 0 | 1
  ipmain <ip>                    -> 0 | 1
ip:   v4:a.b.c.d | m4:a.b.c.d | lo6 | v6:<hex text>
cred: - | <hexuser>:<hexpass>
-/

def str? (h : String) : Option String := do
  let b ← fromHex h
  String.fromUTF8? (ByteArray.mk b.toArray)

def strList? (s : String) : Option (List String) :=
  if s == "-" then some [] else (s.splitOn ",").mapM str?

def quad? (s : String) : Option (Nat × Nat × Nat × Nat) :=
  match (s.splitOn ".").map String.toNat? with
  | [some a, some b, some c, some d] => some (a, b, c, d)
  | _ => none

def ip? (s : String) : Option IP :=
  if s == "lo6" then some .lo6
  else if s.startsWith "v4:" then (quad? (s.drop 3).toString).map fun (a, b, c, d) => .v4 a b c d
  else if s.startsWith "m4:" then (quad? (s.drop 3).toString).map fun (a, b, c, d) => .mapped a b c d
  else if s.startsWith "v6:" then (str? (s.drop 3).toString).map IP.v6
  else none

def cred? (s : String) : Option Cred :=
  if s == "-" then some .none else
  match s.splitOn ":" with
  | [u, p] => do
      let u ← (if u == "" then some "" else str? u)
      let p ← (if p == "" then some "" else str? p)
      pure (.pair u p)
  | _ => none

def step (c : Cfg) (line : String) : Cfg × String :=
  match words line with
  | ["cfg", a, b, jw, jb, gw, gb, u, p] =>
    match strList? a, strList? b, strList? jw, strList? jb, strList? gw, strList? gb, str? u, str? p with
    | some a, some b, some jw, some jb, some gw, some gb, some u, some p =>
      ({ whitelist := a, whitlist := b, jWL := jw, jBL := jb, gWL := gw, gBL := gb, user := u, pass := p }, "ok")
    | _, _, _, _, _, _, _, _ => (c, "bad-op")
  | ["jrpc", ip, cr, m] =>
    match ip? ip, cred? cr, str? m with
    | some ip, some cr, some m =>
      let r := if !mainIPAdmit c ip then "ip" else if !authOk c cr then "auth"
               else if !(ip.isLoopback || jFuncOk c (lastSeg m '.')) then "func" else "ok"
      -- consistency of the enum with the modelled gate (kept in the output so a mismatch is a diff)
      (c, if (r == "ok") == jrpcReaches c ip cr m then r else "model-inconsistent")
    | _, _, _ => (c, "bad-op")
  | ["grpc", ip, m] =>
    match ip? ip, str? m with
    | some ip, some m =>
      let r := if !mainIPAdmit c ip then "ip" else if !gFuncOk c (lastSeg m '/') then "func" else "ok"
      (c, if (r == "ok") == grpcUnaryReaches c ip m then r else "model-inconsistent")
    | _, _ => (c, "bad-op")
  | ["grpcs", ip, m] =>
    match ip? ip, str? m with
    | some ip, some m =>
      let r := if ip.isLoopback then "ok" else if !mainIPAdmit c ip then "ip"
               else if !gFuncOk c (lastSeg m '/') then "func" else "ok"
      (c, if (r == "ok") == grpcStreamReaches c ip m then r else "model-inconsistent")
    | _, _ => (c, "bad-op")
  | ["eth", ip] =>
    match ip? ip with
    | some ip => (c, if ethIPAdmit c ip then "1" else "0")
    | none => (c, "bad-op")
  | ["ipmain", ip] =>
    match ip? ip with
    | some ip => (c, if mainIPAdmit c ip then "1" else "0")
    | none => (c, "bad-op")
  | _ => (c, "bad-op")

def main : IO Unit := do
  loopState (← IO.getStdin) (← IO.getStdout) step {}
