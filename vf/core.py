"""Orchestrator library for /verif checks (python3 stdlib only).

One check = (1) regenerate facts from /repo, (2) build + audit the Lean obligations,
(3) build the Go harness against /repo's working tree with -tags verif, (4) run harness
and the compiled Lean driver on the same op lines and diff, (5) verdict + evidence.
See DESIGN.md sections 1.5 / 1.6.
"""
import fcntl
import hashlib
import json
import os
import re
import shutil
import subprocess
import sys
import time

ROOT = os.path.dirname(os.path.dirname(os.path.abspath(__file__)))
REPO = os.environ.get("VERIF_REPO", "/repo")
LEAN = os.path.join(ROOT, "lean")
HARNESS = os.path.join(ROOT, "harness")
BUILD = os.path.join(ROOT, ".build")
BIN = os.path.join(BUILD, "bin")
EVID = os.path.join(ROOT, "evidence")
REPLAYS = os.path.join(ROOT, "replays")
CORPUS = os.path.join(ROOT, "corpus")
KNOWN = os.path.join(ROOT, "known_findings.json")
ALLOWED_AXIOMS = {"propext", "Classical.choice", "Quot.sound"}
TRUSTED_BASE = [
    "Lean 4.33.0 kernel",
    "axioms allowed: propext, Classical.choice, Quot.sound (audited per theorem on every run)",
    "hand-written Lean model tied to /repo by the differential correspondence run of this check",
    "Go harness generators / line protocol / python diff (vf/core.py)",
]


def goenv():
    e = dict(os.environ)
    e.update({
        "GOFLAGS": "-mod=mod", "GOPROXY": "off", "GOSUMDB": "off", "GOTOOLCHAIN": "local",
        "CGO_ENABLED": e.get("VERIF_CGO", "0"),
        "GOCACHE": e.get("VERIF_GOCACHE", os.path.join(ROOT, ".cache", "go-build")),
    })
    return e


def tmpdir(tag):
    base = os.environ.get("VERIF_TMP")
    if not base:
        base = "/dev/shm" if os.path.isdir("/dev/shm") else "/var/tmp"
    d = os.path.join(base, "verif.%s.%d" % (tag, os.getpid()))
    shutil.rmtree(d, ignore_errors=True)
    os.makedirs(d)
    return d


class Lock:
    def __init__(self, name):
        os.makedirs(BUILD, exist_ok=True)
        self.path = os.path.join(BUILD, name + ".lock")

    def __enter__(self):
        self.f = open(self.path, "w")
        fcntl.flock(self.f, fcntl.LOCK_EX)
        return self

    def __exit__(self, *a):
        fcntl.flock(self.f, fcntl.LOCK_UN)
        self.f.close()


def sh(cmd, cwd=None, env=None, timeout=None, input_bytes=None):
    p = subprocess.run(cmd, cwd=cwd, env=env, timeout=timeout, input=input_bytes,
                       stdout=subprocess.PIPE, stderr=subprocess.STDOUT)
    return p.returncode, p.stdout.decode("utf-8", "replace")


# ----------------------------------------------------------------------------- Go side

def ensure_gomod():
    """harness/go.mod is derived from /repo/go.mod on every run (same require/replace graph)."""
    src = open(os.path.join(REPO, "go.mod")).read()
    src = re.sub(r"^module .*$", "module verifharness", src, count=1, flags=re.M)
    src += "\nrequire github.com/33cn/chain33 v0.0.0\n\nreplace github.com/33cn/chain33 => %s\n" % REPO
    _write_if_changed(os.path.join(HARNESS, "go.mod"), src.encode())
    # go.sum: rewritten only when it differs, and atomically — parallel `go build`s of other harnesses read it
    _write_if_changed(os.path.join(HARNESS, "go.sum"), open(os.path.join(REPO, "go.sum"), "rb").read())


def _write_if_changed(dst, data):
    try:
        if open(dst, "rb").read() == data:
            return
    except OSError:
        pass
    tmp = "%s.tmp.%d" % (dst, os.getpid())
    with open(tmp, "wb") as f:
        f.write(data)
    os.replace(tmp, dst)


def go_build(cmd, race=False, tags="verif"):
    """Build harness/cmd/<cmd> against /repo's working tree. Returns (binary path | None, log)."""
    os.makedirs(BIN, exist_ok=True)
    with Lock("gomod"):
        ensure_gomod()
    out = os.path.join(BIN, cmd + ("_race" if race else ""))
    if os.path.exists(out):
        os.remove(out)   # never run a stale binary
    args = ["go", "build", "-tags", tags, "-o", out]
    env = goenv()
    if race:
        args.insert(2, "-race")
        env["CGO_ENABLED"] = "1"
    args.append("./cmd/" + cmd)
    rc, log = sh(args, cwd=HARNESS, env=env, timeout=1800)
    if rc != 0 or not os.path.exists(out):
        return None, log
    return out, log


def run_harness(binary, env_extra=None, args=(), timeout=3600, mem="6GiB", cwd=None, prefix=()):
    env = goenv()
    env.setdefault("GOMEMLIMIT", mem)
    if env_extra:
        env.update({k: str(v) for k, v in env_extra.items()})
    p = subprocess.run(list(prefix) + [binary] + list(args), env=env, cwd=cwd, timeout=timeout,
                       stdout=subprocess.PIPE, stderr=subprocess.PIPE)
    return p.returncode, p.stdout.decode("utf-8", "replace"), p.stderr.decode("utf-8", "replace")


class Trace:
    """Parsed harness output."""

    def __init__(self):
        self.ops = []       # op lines
        self.impl = []      # implementation outputs
        self.stats = {}
        self.samples = []
        self.preds = []     # (signature, detail)
        self.notes = []

    def feed(self, text):
        for line in text.split("\n"):
            if not line:
                continue
            if line[0] == "#":
                if line.startswith("#STAT "):
                    _, k, v = line.split(" ", 2)
                    try:
                        self.stats[k] = self.stats.get(k, 0) + int(v)
                    except ValueError:
                        pass
                elif line.startswith("#SAMPLE "):
                    if len(self.samples) < 12:
                        self.samples.append(line[8:][:600])
                elif line.startswith("#PRED "):
                    body = line[6:]
                    sig, _, detail = body.partition(" | ")
                    self.preds.append((sig.strip(), detail.strip()))
                elif line.startswith("#NOTE "):
                    self.notes.append(line[6:])
                continue
            op, tab, impl = line.partition("\t")
            if not tab:
                self.notes.append("unparsed: " + line[:200])
                continue
            self.ops.append(op)
            self.impl.append(impl)


# ----------------------------------------------------------------------------- Lean side

def lean_build(targets):
    with Lock("lake"):
        rc, log = sh(["lake", "build"] + list(targets), cwd=LEAN, timeout=7200)
    return rc == 0, log


_COMMENT_BLOCK = re.compile(r"/-.*?-/", re.S)
_BANNED = re.compile(r"\bsorry\b|\badmit\b|^\s*axiom\s|native_decide|bv_decide|implemented_by|\bunsafe\s|maxHeartbeats\s+0\b", re.M)


def hygiene(props=None):
    """grep the Lean files of the given properties (+ Base/, Facts/, Driver/) for banned constructs
    (comments stripped). props=None scans the whole tree. Returns list of hits."""
    hits = []
    pats = None
    if props:
        pats = [re.compile(r"(^|[^A-Za-z0-9])%s([^0-9]|$)" % re.escape(p)) for p in props]
    for d, _, fs in os.walk(LEAN):
        if ".lake" in d:
            continue
        for f in fs:
            if not f.endswith(".lean"):
                continue
            if pats is not None and not (os.path.basename(d) in ("Base", "Facts") or any(q.search(f) for q in pats)):
                continue
            p = os.path.join(d, f)
            s = open(p).read()
            s = _COMMENT_BLOCK.sub(lambda m: "\n" * m.group(0).count("\n"), s)
            s = "\n".join(l.split("--")[0] for l in s.split("\n"))
            for m in _BANNED.finditer(s):
                ln = s.count("\n", 0, m.start()) + 1
                hits.append("%s:%d: %s" % (os.path.relpath(p, ROOT), ln, m.group(0).strip()))
    return hits


AUDIT_TMPL = """import Lean
import Chain33Model.Props.%(prop)s
open Lean Elab Command in
run_cmd do
  let env ← getEnv
  let some idx := env.getModuleIdx? `Chain33Model.Props.%(prop)s | throwError "no module"
  for (n, ci) in env.constants.map₁.toList do
    if env.getModuleIdxFor? n == some idx then
      if (ci matches .thmInfo _) && !n.isInternalDetail then
        let axs ← liftCoreM (Lean.collectAxioms n)
        logInfo m!"OBLIGATION {n} AXIOMS {axs.toList}"
"""


def lean_audit(prop):
    """Return list of dicts {name, axioms, ok} for every theorem declared in Props/<prop>.lean."""
    d = os.path.join(BUILD, "audit")
    os.makedirs(d, exist_ok=True)
    f = os.path.join(d, prop + ".lean")
    open(f, "w").write(AUDIT_TMPL % {"prop": prop})
    rc, log = sh(["lake", "env", "lean", f], cwd=LEAN, timeout=1800)
    obs = []
    for m in re.finditer(r"OBLIGATION (\S+) AXIOMS \[(.*?)\]", log, re.S):
        axs = [a.strip() for a in m.group(2).replace("\n", " ").split(",") if a.strip()]
        obs.append({"name": m.group(1), "axioms": axs,
                    "ok": all(a in ALLOWED_AXIOMS for a in axs)})
    obs.sort(key=lambda o: o["name"])
    return rc == 0, obs, log


def run_drv(exe, ops, timeout=3600):
    path = os.path.join(LEAN, ".lake", "build", "bin", exe)
    data = ("\n".join(ops) + "\n").encode() if ops else b""
    p = subprocess.run([path], input=data, stdout=subprocess.PIPE, stderr=subprocess.PIPE, timeout=timeout)
    out = p.stdout.decode("utf-8", "replace").split("\n")
    if out and out[-1] == "":
        out.pop()
    return p.returncode, out, p.stderr.decode("utf-8", "replace")


def diff_streams(ops, impl, model, limit=20):
    diffs = []
    n = min(len(impl), len(model))
    for i in range(n):
        if impl[i] != model[i]:
            diffs.append({"line": i + 1, "op": ops[i][:2000], "impl": impl[i][:2000], "model": model[i][:2000]})
            if len(diffs) >= limit:
                break
    if len(impl) != len(model):
        diffs.append({"line": n + 1, "op": "<length>", "impl": str(len(impl)), "model": str(len(model))})
    return diffs


# ----------------------------------------------------------------------------- findings / evidence

def load_known():
    k = {"findings": [], "fixed": []}
    if os.path.exists(KNOWN):
        k = json.load(open(KNOWN))
    # development aid: VERIF_KNOWN=<file>[:<file>] merges proposed findings (lists of entries)
    for f in filter(None, os.environ.get("VERIF_KNOWN", "").split(":")):
        k.setdefault("findings", []).extend(json.load(open(f)))
    return k


def known_signatures(prop):
    return {f["signature"]: f for f in load_known().get("findings", []) if f.get("property") == prop}


def write_replay(prop, seed, payload):
    os.makedirs(REPLAYS, exist_ok=True)
    p = os.path.join(REPLAYS, "%s-%s.json" % (prop, seed))
    json.dump(payload, open(p, "w"), indent=1)
    return p


def write_evidence(prop, tier, seed, coverage, assumptions, wall, violations, extra=None):
    os.makedirs(EVID, exist_ok=True)
    ev = {"property_id": prop, "tier": tier, "seed": int(seed), "level": "proof",
          "coverage": coverage, "assumptions": assumptions, "wall_s": round(wall, 2),
          "violations": int(violations)}
    if extra:
        ev.update(extra)
    tmp = os.path.join(EVID, prop + ".json.tmp")
    json.dump(ev, open(tmp, "w"), indent=1, sort_keys=False)
    os.replace(tmp, os.path.join(EVID, prop + ".json"))


def repo_fingerprint():
    """short digest of /repo's working tree state (HEAD + diff) recorded in the evidence."""
    rc, head = sh(["git", "-C", REPO, "rev-parse", "HEAD"])
    rc, diff = sh(["git", "-C", REPO, "diff", "HEAD"])
    return head.strip()[:12] + ("+dirty:" + hashlib.sha1(diff.encode()).hexdigest()[:10] if diff.strip() else "")
