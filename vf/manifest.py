"""Regenerates /verif/MANIFEST.json from the table below (python3 -m vf.manifest)."""
import json
import os

ROOT = os.path.dirname(os.path.dirname(os.path.abspath(__file__)))

TECH = "Lean 4 model + machine-checked theorems; differential correspondence (Go harness vs compiled Lean driver); property predicate on the implementation"

import importlib
import sys
sys.path.insert(0, ROOT)


def claimed():
    """property id -> SPEC for every vf/props/cXX.py whose SPEC.claimed is true."""
    out = {}
    d = os.path.join(ROOT, "vf", "props")
    for f in sorted(os.listdir(d)):
        if f.startswith("c") and f.endswith(".py"):
            m = importlib.import_module("vf.props." + f[:-3])
            sp = m.SPEC
            if getattr(sp, "claimed", True):
                out[sp.prop] = sp
    return out


PENDING_REASON = "not claimed yet: model/theorems/tie for this property are not built in the current state of /verif (planned in DESIGN.md section 4)"


def main():
    CLAIMED = claimed()
    props = [json.loads(l) for l in open(os.path.join(ROOT, "properties.jsonl"))]
    hooks_file = os.path.join(ROOT, "hooks.json")
    hook_commits = json.load(open(hooks_file)) if os.path.exists(hooks_file) else []
    checks, na = [], []
    overrides = {}
    of = os.path.join(ROOT, "not_applicable.json")
    if os.path.exists(of):
        overrides = json.load(open(of))
    for p in props:
        i = p["id"]
        if i in CLAIMED:
            sp = CLAIMED[i]
            eng = "%s + %s" % (sp.harness, sp.drv) if sp.drv else str(sp.harness)
            text, note, ref, tech = sp.level_text, sp.level_note, sp.design_ref or ("DESIGN.md section 4 " + i), sp.technique
            checks.append({
                "property_id": i,
                "quick_cmd": "./check %s --tier quick" % i,
                "thorough_cmd": "./check %s --tier thorough" % i,
                "evidence_file": "/verif/evidence/%s.json" % i,
                "replay_cmd_template": "./check %s --replay {path}" % i,
                "engine": eng,
                "level_claimed": {"category": "proof", "text": text, "design_ref": ref},
                "level_note": note,
                "technique": tech or TECH,
            })
        else:
            na.append({"property_id": i, "reason": overrides.get(i, PENDING_REASON)})
    m = {
        "version": 1,
        "setup_cmd": "./check --setup",
        "hooks": {
            "guard": "verif",
            "enable": "go build -tags verif (harness module /verif/harness, replace github.com/33cn/chain33 => /repo)",
            "baseline_off_cmd": "cd /repo && GOFLAGS=-mod=mod go test -vet=off -count=1 -timeout 25m ./...",
            "source_commits": hook_commits,
            "add_only": True,
        },
        "engines": [
            {"name": "lean", "path": "/verif/lean", "kind_free_text": "Lean 4 lake project: models (core-only), proofs, property theorems, compiled drivers drv_*",
             "serves_properties": sorted(CLAIMED)},
            {"name": "harness", "path": "/verif/harness", "kind_free_text": "Go module calling /repo in-process with -tags verif; one binary per property",
             "serves_properties": sorted(CLAIMED)},
            {"name": "vf", "path": "/verif/vf", "kind_free_text": "python3 orchestrator: build, audit (#print axioms equivalent), diff, verdict, evidence",
             "serves_properties": sorted(CLAIMED)},
        ],
        "checks": checks,
        "not_applicable": na,
        "notes": "Technique family: machine-checked proof in Lean 4. Every check builds the Lean obligations, audits axioms, "
                 "rebuilds the Go harness against /repo's working tree and runs the model/implementation correspondence. See DESIGN.md.",
    }
    json.dump(m, open(os.path.join(ROOT, "MANIFEST.json"), "w"), indent=1)
    print("claimed", len(checks), "not claimed", len(na))


if __name__ == "__main__":
    main()
