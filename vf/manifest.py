"""Regenerates /verif/MANIFEST.json from the table below (python3 -m vf.manifest)."""
import json
import os

ROOT = os.path.dirname(os.path.dirname(os.path.abspath(__file__)))

TECH = "Lean 4 model + machine-checked theorems; differential correspondence (Go harness vs compiled Lean driver); property predicate on the implementation"

# property id -> (engine, level text, level note, design ref, technique override)
CLAIMED = {
    "C20": ("h_c20 + drv_c20",
            "Lean theorems about the model of CompactToBig/BigToCompact/CalcWork (work antitone in the target; "
            "re-compaction canonical; round trip keeps the mantissa precision) for all inputs; the model is tied to "
            "common/difficulty by a byte-exact differential run over every exponent x sign x mantissa edges, random "
            "compacts and integers of byte length 0..300.",
            "math/big behaves as Lean Int; bit operations modelled as div/mod; integers of >= 255 bytes are outside the "
            "8-bit exponent field (documented limit, targets are <= 2^256).",
            "DESIGN.md 4 C20", None),
}

PENDING_REASON = "not claimed yet: model/theorems/tie for this property are not built in the current state of /verif (planned in DESIGN.md section 4)"


def main():
    props = [json.loads(l) for l in open(os.path.join(ROOT, "properties.jsonl"))]
    hooks_file = os.path.join(ROOT, "hooks.json")
    hook_commits = json.load(open(hooks_file)) if os.path.exists(hooks_file) else []
    checks, na = [], []
    overrides = {}
    of = os.path.join(ROOT, "not_applicable.json")
    if os.path.exists(of):
        overrides = json.load(open(of))
    for p in props:
        i = p["id"]
        if i in CLAIMED:
            eng, text, note, ref, tech = CLAIMED[i]
            checks.append({
                "property_id": i,
                "quick_cmd": "./check %s --tier quick" % i,
                "thorough_cmd": "./check %s --tier thorough" % i,
                "evidence_file": "/verif/evidence/%s.json" % i,
                "replay_cmd_template": "./check %s --replay {path}" % i,
                "engine": eng,
                "level_claimed": {"category": "proof", "text": text, "design_ref": ref},
                "level_note": note,
                "technique": tech or TECH,
            })
        else:
            na.append({"property_id": i, "reason": overrides.get(i, PENDING_REASON)})
    m = {
        "version": 1,
        "setup_cmd": "./check --setup",
        "hooks": {
            "guard": "verif",
            "enable": "go build -tags verif (harness module /verif/harness, replace github.com/33cn/chain33 => /repo)",
            "baseline_off_cmd": "cd /repo && GOFLAGS=-mod=mod go test -vet=off -count=1 -timeout 25m ./...",
            "source_commits": hook_commits,
            "add_only": True,
        },
        "engines": [
            {"name": "lean", "path": "/verif/lean", "kind_free_text": "Lean 4 lake project: models (core-only), proofs, property theorems, compiled drivers drv_*",
             "serves_properties": sorted(CLAIMED)},
            {"name": "harness", "path": "/verif/harness", "kind_free_text": "Go module calling /repo in-process with -tags verif; one binary per property",
             "serves_properties": sorted(CLAIMED)},
            {"name": "vf", "path": "/verif/vf", "kind_free_text": "python3 orchestrator: build, audit (#print axioms equivalent), diff, verdict, evidence",
             "serves_properties": sorted(CLAIMED)},
        ],
        "checks": checks,
        "not_applicable": na,
        "notes": "Technique family: machine-checked proof in Lean 4. Every check builds the Lean obligations, audits axioms, "
                 "rebuilds the Go harness against /repo's working tree and runs the model/implementation correspondence. See DESIGN.md.",
    }
    json.dump(m, open(os.path.join(ROOT, "MANIFEST.json"), "w"), indent=1)
    print("claimed", len(checks), "not claimed", len(na))


if __name__ == "__main__":
    main()
