"""python3 -m vf.mergefindings : rebuild known_findings.json 'findings' from findings.d/*.json (reviewed, committed by hand)."""
import glob
import json
import os

ROOT = os.path.dirname(os.path.dirname(os.path.abspath(__file__)))


def main():
    kf = os.path.join(ROOT, "known_findings.json")
    k = json.load(open(kf))
    fs = []
    seen = set()
    for f in sorted(glob.glob(os.path.join(ROOT, "findings.d", "*.json"))):
        for e in json.load(open(f)):
            if e["signature"] in seen:
                continue
            seen.add(e["signature"])
            fs.append(e)
    k["findings"] = fs
    json.dump(k, open(kf, "w"), indent=1, ensure_ascii=False)
    print(len(fs), "findings")


if __name__ == "__main__":
    main()
