from ..runner import Spec


class C01(Spec):
    prop = "C01"
    drv = "drv_c01"
    harness = "h_c01"
    lean_deps = ("C02", "C03")
    required_theorems = ("C01.set_inv", "C01.set_total", "C01.get_set", "C01.toList_set", "C01.toList_foldl_set",
                         "C01.read_latest", "C01.read_latest_from", "C01.iterRange_spec", "C01.iterate_all",
                         "C01.toList_strictly_sorted", "C01.size_is_count", "C01.load_stored", "C01.old_roots_stable",
                         "C01.load_save_partial", "C01.load_save_or_collision", "C01.merkle_binding", "C01.set_keeps_keyMin",
                         "C01.hashNode_keys_content", "C01.remove_inv", "C01.get_remove", "C01.depth_lt_loadFuel", "C01.save_total",
                         "C01.loaded_tree_inv", "C01.get_at_stored_root", "C01.store_reads_latest")
    partial = ("C01.load_save_partial",)
    level_text = ("Lean 4 theorems, for all trees/keys/values/histories, about an executable model of node.go/tree.go: "
                  "set never panics and preserves search-tree order + stored height/size + AVL balance (set_inv, set_total); "
                  "get after set (get_set); the leaf list after any history of batches is the sorted map of all writes, hence "
                  "a read at the root of batch i returns the most recent write to the key or nothing (toList_foldl_set, "
                  "read_latest, read_latest_from for forks); traverseInRange with any stopping callback = the callback run over "
                  "the in-range leaves in ascending/descending order, each key once (iterRange_spec, toList_strictly_sorted); "
                  "persistence: a tree whose records are in the node database loads back exactly (load_stored, with a proved "
                  "proto3 record round trip), keeps loading to the same tree in every later database that still holds the earlier "
                  "records — later commits, close and reopen (old_roots_stable) — and save makes the new tree loadable while "
                  "keeping all earlier records when no key receives two different records (load_save_partial). "
                  "Tie: Go harness drives mavl.Store/mavl.Tree on goleveldb over generated histories with forks, reads at every "
                  "root again after later commits and after close+reopen; the Lean driver replays every op and matches every "
                  "output byte for byte, including the SHA-256 root hash of every commit (pins rotations/split keys), height, "
                  "size, Get, index, GetByIndex, Has and every range iteration; property predicate evaluated on the "
                  "implementation against an abstract map per root.")
    level_note = ("Review follow-up: the collision disjuncts are LOCATED (CollisionIn H over the strings hashed in the tree and in the explicit list W of nodes saved before; the unlocated disjunct is trivially true for 32-byte outputs). Store-level composition: store_reads_latest - for stores without EnableMavlPrefix and without enableMVCC, any linear history of Store.Set from a new store (hist): every Set answers a root, and Store.Get at the root of batch i in the FINAL store and in the final store after reopen returns the most recent write of batches 1..i for every key, or two of the node encodings hashed on the way (explicit ghost list returned by hist) collide; hypotheses: 32-byte outputs, no all-zero hash (loadTree reads it as the empty state), lengths < 2^64, fewer than 2^31 keys. The invariant SInv (setKV_sinv) discharges PersistedStored / FitsRec / PH / Shape / KeyMin / DBInv / depth < loadFuel (depth_lt_loadFuel) / save total (save_total) for every tree the store builds, so the hypotheses of load_save_or_collision are reachable. NOT covered by a theorem: forks (a Set on an older root; the step lemma setKV_sinv allows any known root, only the fold is linear), stores with the height prefix (load_save_partial keeps Consistent there: the root record can carry other child keys) and MVCC (loaded leaves carry no values: loaded_tree_inv), histories with MemSet/Commit (pending entries are not in SInv), removal. get_at_stored_root: the one-root version with Stored as hypothesis, any later store state. "
                  "load_save_or_collision is the full statement '... or CollisionIn H (strings hashed in the tree and in the nodes saved before)' — a located collision, the unlocated one being trivially true for 32-byte outputs — for stores without the height prefix (node key = "
                  "hash of content; `Consistent` derived from merkle_binding + KeyMin, which set keeps); with the prefix the same root "
                  "hash can carry other child keys, so there load_save_partial keeps its explicit `Consistent`; the end-to-end chain Store.Set histories -> "
                  "reads at every old root is carried by the differential run and the predicate. Node.remove (Tree.Remove / "
                  "DelKVPair; Store.Del is 'not support') is modelled with the newKey propagation and rebalancing and tied "
                  "differentially (roots, removed values, reads, iteration, old roots) in a quarter of the batches; remove_inv "
                  "(never panics; order, height/size, AVL balance and KeyMin kept) and get_remove (refinement to deleting the key "
                  "from the sorted map) are proved (Store.Del is 'not support'). "
                  "int32 height/size modelled as Nat; loading is eager in the model, lazy in Go (same on closed databases).")
    assumptions = (
        "goleveldb behaves as a key/value map with atomic batches (C06's claim)",
        "SHA-256 of Base/Sha256.lean equals crypto/sha256 (compared on every root hash of every run)",
        "eager whole-tree load in the model vs lazy load in Go agree when all reachable records exist",
    )


SPEC = C01()
