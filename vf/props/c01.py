from ..runner import Spec


class C01(Spec):
    prop = "C01"
    drv = "drv_c01"
    harness = "h_c01"
    required_theorems = ()
    level_text = "wip"
    assumptions = ()


SPEC = C01()
