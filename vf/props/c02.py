from ..runner import Spec


class C02(Spec):
    prop = "C02"
    drv = "drv_c02"
    harness = "h_c02"
    lean_deps = ("C01", "C03")
    required_theorems = ("C02.root_cfg_independent", "C02.root_cfg_independent_from", "C02.roots_total",
                         "C02.hashNode_Hashed", "C02.memset_commit_eq_set", "C02.cache_transparent_full_false",
                         "C02.cache_transparent_partial", "C02.memOK_quiescent",
                         "C02.memset_commit_eq_set_total")
    partial = ("C02.cache_transparent_partial", "C02.memset_commit_eq_set", "C02.memset_commit_eq_set_total", "C02.root_cfg_independent_from")
    refuted = ("C02.cache_transparent_full_false",)
    level_text = ("Lean 4 theorems over the executable model of Node.Hash / SetKVPair / MemSet / Commit: for every pair of "
                  "configurations (prefix, prune, memTree, memVal, MVCC), every list of blocks of ordered writes and even "
                  "different block heights, the two stores compute the same root after every block (root_cfg_independent, from "
                  "the empty state or from any pair of related states); Node.Hash yields the pure hash of the abstract tree under "
                  "every configuration (hashNode_Hashed); MemSet returns the root Set returns, Commit returns it again and leaves "
                  "the same database (memset_commit_eq_set). The hash function is a parameter with 32-byte outputs. "
                  "Tie: each generated script runs under all 32 option sets x {Set, MemSet->Commit, mixed}, interleaved with "
                  "unrelated pending updates/commits/rollbacks/sets; the scripts include the small states (blocks on the empty state "
                  "that write nothing, or one key once or several times; one-key states re-written at other heights: the root is "
                  "then a leaf, hashed by the leaf branch of Node.Hash); the root after EVERY step, whatever its length, must "
                  "equal the reference configuration's (predicate root-depends-on-configuration) and the "
                  "byte-exact roots of the Lean model (diff). "
                  "Refuted part: 'the memTree cache is transparent' is false of the code (cache_transparent_full_false on the "
                  "abstract cache protocol, and reproduced byte for byte by the literal lazy model C02L: the hunt run and "
                  "corpus/C02/stale-memtree-witness.ops replay the documented witnesses through the driver, panics included: KNOWN-FINDING "
                  "C02|{Store.MemSet,Store.Set,read-after-restart}|panic-after-{rolled-back,left-pending}-"
                  "{update-of-same-content,no-op-update} — the last victim means a committed root is unreadable after a process "
                  "restart: dangling child keys were persisted); "
                  "cache_transparent_partial holds when memTree only holds committed records.")
    level_note = ("Review follow-up: `roots` reads ONE configuration flag (pfx; prune forces it): root_cfg_independent is the statement that prefix and block height never reach a root hash; independence from prune/memTree/memVal/mvcc holds by construction of the model and is established for the code by the differential run only (and fails for memTree: the finding). root_cfg_independent_from does not cover trees loaded under MVCC (values elided, not Hashed); memset_commit_eq_set assumes a non-empty batch and a Commit right after the MemSet, memset_commit_eq_set_total removes the panic disjunct (C01.save_total) under the named hypothesis that the tree loaded for the parent is hashed-or-fresh (HoFT; true of every loaded tree, not derived from a reachability invariant). memOK_quiescent: MemOK holds at the quiescent points of the MemSet->Commit discipline under content addressing (toggle accounted for), on the abstract protocol C02.Mem, which is tied to the code by the hunt run / the lazy model only. The frame clause (root independent of earlier unrelated updates) is C04.pending_root_frame. "
                  "Two executable models: the eager one (C02: whole trees, memTree/tkCloseCache transparent) carries the "
                  "theorems and is the driver's model for the stores without memTree; the literal lazy one (C02L, driver line "
                  "'lazy': nodes fetched one at a time through node cache -> memTree -> database, memTree with its toggle Add, "
                  "Hash moving obsolete/updated nodes into memTree, state kept after a panic) is the driver's model for every "
                  "memTree store of the differential run, for the hunt without pruning and for the witness corpus; no theorems "
                  "are stated about C02L (its agreement with C02 away from the trigger shape is observed, not proved); the "
                  "memTree protocol is modelled separately on abstract keys (C02.Mem) for the refutation theorem. Not in C02L: "
                  "tkCloseCache, the pruning bookkeeping (the hunt with EnableMavlPrune is predicate-only: control store vs "
                  "test store, then a cold restart and full reads), ARC eviction (the node cache never fills in a run). "
                  "The cross-configuration theorem is about the in-memory evolution (sets + Hash); save/load between blocks is "
                  "executed by the driver and compared with Go, not proved. memTree is a process global keyed by node hash: "
                  "the harness resets it for every new database (a new database stands for a new process); within a store it "
                  "carries all history. The differential run uses fresh keys in every noise batch so that it stays clear of "
                  "the trigger shape. Values are not read under MVCC (they depend on what memTree holds). farm64 collisions "
                  "ignored.")
    assumptions = (
        "hash function with 32-byte outputs (SHA-256); no injectivity assumed",
        "farm.Hash64 collision-free on the node keys of a run (memTree keys)",
        "goleveldb behaves as a key/value map",
    )

    def runs(self, tier, seed):
        # run 0: differential (all roots recomputed by the Lean model) + cross-configuration predicate
        # run 1: stale-memTree hunt without pruning, replayed by the literal lazy model (driver line "lazy")
        # run 2: the same hunt with EnableMavlPrune, predicate only
        return [dict(env={}), dict(env={"VERIF_C02_MODE": "hunt"}),
                dict(env={"VERIF_C02_MODE": "hunt-prune"}, nodrv=True)]

    def drv_for(self, run):
        return None if run.get("nodrv") else self.drv


SPEC = C02()
