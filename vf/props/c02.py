from ..runner import Spec


class C02(Spec):
    prop = "C02"
    drv = "drv_c02"
    harness = "h_c02"
    lean_deps = ("C01",)
    required_theorems = ()
    level_text = "wip"
    assumptions = ()

    def runs(self, tier, seed):
        # run 0: differential (all roots recomputed by the Lean model) + cross-configuration predicate
        # run 1: stale-memTree hunt, predicate only (control store vs test store on the real code)
        return [dict(env={}), dict(env={"VERIF_C02_MODE": "hunt"}, nodrv=True)]

    def drv_for(self, run):
        return None if run.get("nodrv") else self.drv


SPEC = C02()
