from ..runner import Spec


class C02(Spec):
    prop = "C02"
    drv = "drv_c02"
    harness = "h_c02"
    lean_deps = ("C01", "C03")
    required_theorems = ("C02.root_cfg_independent", "C02.root_cfg_independent_from", "C02.roots_total",
                         "C02.hashNode_Hashed", "C02.memset_commit_eq_set", "C02.cache_transparent_full_false",
                         "C02.cache_transparent_partial")
    partial = ("C02.cache_transparent_partial",)
    refuted = ("C02.cache_transparent_full_false",)
    level_text = ("Lean 4 theorems over the executable model of Node.Hash / SetKVPair / MemSet / Commit: for every pair of "
                  "configurations (prefix, prune, memTree, memVal, MVCC), every list of blocks of ordered writes and even "
                  "different block heights, the two stores compute the same root after every block (root_cfg_independent, from "
                  "the empty state or from any pair of related states); Node.Hash yields the pure hash of the abstract tree under "
                  "every configuration (hashNode_Hashed); MemSet returns the root Set returns, Commit returns it again and leaves "
                  "the same database (memset_commit_eq_set). The hash function is a parameter with 32-byte outputs. "
                  "Tie: each generated script runs under all 32 option sets x {Set, MemSet->Commit, mixed}, interleaved with "
                  "unrelated pending updates/commits/rollbacks/sets; all roots must equal the reference (predicate) and the "
                  "byte-exact roots of the Lean model (diff). "
                  "Refuted part: 'the memTree cache is transparent' is false of the code (cache_transparent_full_false on the "
                  "abstract cache protocol; replayed on the real code by the hunt run, documented witnesses first: KNOWN-FINDING "
                  "C02|{Store.MemSet,Store.Set,read-after-restart}|panic-after-{rolled-back,left-pending}-"
                  "{update-of-same-content,no-op-update} — the last victim means a committed root is unreadable after a process "
                  "restart: dangling child keys were persisted); "
                  "cache_transparent_partial holds when memTree only holds committed records.")
    level_note = ("The byte-level model treats memTree/tkCloseCache as a transparent cache (no memTree state); the memTree "
                  "protocol is modelled separately on abstract keys (C02.Mem). The cross-configuration theorem is about the "
                  "in-memory evolution (sets + Hash); save/load between blocks is executed by the driver and compared with Go, "
                  "not proved. memTree is a process global keyed by node hash: the harness resets it for every new database "
                  "(a new database stands for a new process); within a store it carries all history. In the differential run a noise "
                  "MemSet whose root is already committed (the trigger shape) is committed at once instead of being left pending, so "
                  "that stream stays inside the modelled behaviour; the hunt run exercises exactly that shape, predicate only "
                  "(control store vs test store, then a cold restart and full reads). Values are not read under MVCC (they depend "
                  "on what memTree holds). farm64 collisions ignored.")
    assumptions = (
        "hash function with 32-byte outputs (SHA-256); no injectivity assumed",
        "farm.Hash64 collision-free on the node keys of a run (memTree keys)",
        "goleveldb behaves as a key/value map",
    )

    def runs(self, tier, seed):
        # run 0: differential (all roots recomputed by the Lean model) + cross-configuration predicate
        # run 1: stale-memTree hunt, predicate only (control store vs test store on the real code)
        return [dict(env={}), dict(env={"VERIF_C02_MODE": "hunt"}, nodrv=True)]

    def drv_for(self, run):
        return None if run.get("nodrv") else self.drv


SPEC = C02()
