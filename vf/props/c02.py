from ..runner import Spec


class C02(Spec):
    prop = "C02"
    drv = "drv_c02"
    harness = "h_c02"
    lean_deps = ("C01",)
    required_theorems = ()
    level_text = "wip"
    assumptions = ()


SPEC = C02()
