from ..runner import Spec


class C03(Spec):
    prop = "C03"
    drv = "drv_c03"
    harness = "h_c03"
    lean_deps = ("C01", "C02")
    required_theorems = ()
    level_text = "wip"
    assumptions = ()


SPEC = C03()
