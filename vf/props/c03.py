from ..runner import Spec


class C03(Spec):
    prop = "C03"
    drv = "drv_c03"
    harness = "h_c03"
    lean_deps = ("C01", "C02")
    required_theorems = ("C03.proof_complete", "C03.proof_complete_bytes_partial", "C03.proof_sound",
                         "C03.verify_other_root", "C03.verify_total")
    partial = ("C03.proof_complete_bytes_partial",)
    level_text = ("Lean 4 theorems over the executable model of proof.go / VerifyKVPairProof, hash function a parameter with "
                  "32-byte outputs: completeness — for every key found in a hashed search tree (hashed under any configuration, "
                  "C02.hashNode_Hashed) constructProof succeeds and Proof.Verify accepts it with the stored value against the "
                  "tree's root (proof_complete); soundness — the same proof bytes are never accepted for two different "
                  "(key,value) pairs against one root unless an explicit hash collision exists (proof_sound, using a proved "
                  "injectivity of the LeafNode/InnerNode encodings), and never against another root (verify_other_root); "
                  "undecodable bytes are rejected and the verifier has no panic outcome (verify_total). "
                  "Tie: for every key of generated trees under prefix/prune (and sampled other) configurations the Go proof "
                  "bytes equal the Lean proof bytes; honest proofs, every single-field change of key/value/root, structural and "
                  "byte mutations of the proof and arbitrary wire-shaped byte strings go to VerifyKVPairProof under recover; "
                  "accept/reject equals the model's (its proto3 decoder mirrors protobuf-go's field loop) and the predicate "
                  "(accept honest, reject other value/key/root, never panic) is evaluated on the implementation.")
    level_note = ("Byte-level completeness is partial: it assumes decodeProof (encProof ins) = some ins (the proto3 round trip), "
                  "which the differential run checks on every generated proof but Lean does not prove. A proof whose sibling "
                  "hash is prefixed with junk still verifies (last 32 bytes used) — documented, not a violation.")
    assumptions = (
        "hash function with 32-byte outputs (SHA-256); soundness concludes '... or Collision H'",
        "protobuf-go Unmarshal behaves as the modelled field loop (compared on ~10^4 arbitrary byte strings per run)",
    )


SPEC = C03()
