from ..runner import Spec


class C03(Spec):
    prop = "C03"
    drv = "drv_c03"
    harness = "h_c03"
    lean_deps = ("C01", "C02")
    required_theorems = ("C03.proof_complete", "C03.proof_complete_bytes", "C03.proof_sound",
                         "C03.verify_other_root", "C03.verify_total", "C03.verify_membership", "C03.forgery_rejected",
                         "C03.membership_forgery_old", "C03.membership_forgery_value_old", "C03.branch_binds_child",
                         "C03.own_record_is_no_proof", "C03.fill_only_empty_side_forgery")
    level_text = ("Lean 4 theorems over the executable model of proof.go / VerifyKVPairProof, hash function a parameter with "
                  "32-byte outputs: completeness — for every key found in a hashed search tree (hashed under any configuration, "
                  "C02.hashNode_Hashed) constructProof succeeds and Proof.Verify accepts it with the stored value against the "
                  "tree's root (proof_complete), and at byte level the bytes Tree.Proof emits are accepted by VerifyKVPairProof including the proto3 Unmarshal (proof_complete_bytes, with a proved encode/decode round trip); soundness — the same proof bytes are never accepted for two different "
                  "(key,value) pairs against one root unless two of the strings hashed by the two verification runs collide (proof_sound, located: CollisionIn H (verifyTrace ++ verifyTrace), using a proved "
                  "injectivity of the LeafNode/InnerNode encodings), and never against another root (verify_other_root); "
                  "undecodable bytes are rejected and the verifier has no panic outcome (verify_total). "
                  "Membership soundness (verify_membership): ANY bytes accepted for (k,v) against the root of a hashed search tree "
                  "imply that (k,v) is in that state, or exhibit a collision between a string hashed by the verifier and one "
                  "hashed in the tree — this holds for the code after /repo 5751cd9 (branch nodes need height >= 1, size >= 2; "
                  "mirrored in the model as verifyLoop/goodBranch), forgery_rejected shows the old forged proofs now fail, and "
                  "membership_forgery_old / membership_forgery_value_old keep the witnesses as facts about the OLD verify "
                  "(finding C03|VerifyKVPairProof|accepts-forged-proof-leaf-reread-as-inner-node, fixed; the harness still replays "
                  "both forgery variants on every tree and would report a regression). "
                  "Every branch record binds the child hash, whatever sides it carries (branch_binds_child: left empty => child on "
                  "the left, otherwise the child REPLACES the right side; the soundness theorems are stated for arbitrary proof "
                  "bytes and rest on it); a node's own record with both child hashes proves nothing but the leaf on its right "
                  "(own_record_is_no_proof); a step that fills only an EMPTY side would accept every pair "
                  "(fill_only_empty_side_forgery, regression witness). "
                  "Tie: for every key of generated trees under prefix/prune (and sampled other) configurations the Go proof "
                  "bytes equal the Lean proof bytes; honest proofs, every single-field change of key/value/root, structural and "
                  "byte mutations of the proof, forged proofs whose branch records carry BOTH child hashes (the honest proof folded up "
                  "to each level by the harness itself: the node's own record, as a suffix or in place, with wrong fills, swapped "
                  "sides, key prefixes) or NONE, offered for the honest pair, for other present pairs and for pairs that are not "
                  "in the state (must be rejected: accepts-forged-proof-branch-with-both-child-hashes / -no-child-hash), and "
                  "arbitrary wire-shaped byte strings go to VerifyKVPairProof under recover; "
                  "accept/reject equals the model's (its proto3 decoder mirrors protobuf-go's field loop) and the predicate "
                  "(accept honest, reject other value/key/root, never panic) is evaluated on the implementation.")
    level_note = ("Review follow-up: all collision disjuncts are located (CollisionIn over verifyTrace / stepPre / the two encodings); verify_total is now about verifyKVPairProofP, the verifier with the Go slice expressions h[len-32:] given an explicit panic outcome (run by the driver): it always returns .ok of the Bool-valued verifier; proto.Unmarshal not panicking / allocating every element is covered by the differential run on arbitrary bytes only. Completeness needs Hashed, which a tree loaded under enableMVCC does not satisfy (values elided): the completeness theorems cover prefix/pruning configurations, as the property quantifies; load-then-prove is tied differentially. "
                  "Byte-level completeness assumes the tree fits the Go types (int32 height/size, node keys < 2^32 bytes: `Fits`). "
                  "The Collision disjunct is an explicit pair of distinct pre-images located among the strings actually hashed "
                  "(reduction), not an injectivity assumption. A proof whose sibling hash is prefixed with "
                  "junk still verifies (last 32 bytes used) — documented, not a violation.")
    assumptions = (
        "hash function with 32-byte outputs (SHA-256); soundness concludes '... or CollisionIn H <explicit finite list of the strings hashed>'",
        "protobuf-go Unmarshal behaves as the modelled field loop (compared on ~10^4 arbitrary byte strings per run)",
    )


SPEC = C03()
