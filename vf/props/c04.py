from ..runner import Spec


class C04(Spec):
    prop = "C04"
    drv = "drv_c04"
    harness = "h_c04"
    race = True
    lean_deps = ("C01", "C02", "C03")
    required_theorems = ()
    level_text = "wip"


SPEC = C04()
