from ..runner import Spec


class C04(Spec):
    prop = "C04"
    drv = "drv_c04"
    harness = "h_c04"
    race = True
    lean_deps = ("C01", "C02", "C03")
    required_theorems = ("C04.uncommitted_noop", "C04.rollback_noop", "C04.never_committed_noop", "C04.commit_exact",
                         "C04.commit_exact_content", "C04.memSet_empty_keeps_pending", "C04.commit_exact_old_false",
                         "C04.commit_marker_writes_nothing", "C04.second_commit_notfound", "C04.forks_independent",
                         "C04.ops_commute", "C04.commit_exact_content_full", "C04.forks_independent_full", "C04.pending_root_frame",
                         "C04.pending_entry_reachable")
    partial = ("C04.commit_exact_content", "C04.forks_independent")
    level_text = ("Lean 4 theorems over the store LTS (state = configuration, record map, pending-tree map, node cache; labels "
                  "Set/MemSet/Commit/Rollback/Get/restart; transition functions = the executable model of mavl.go used by "
                  "C01/C02): MemSet and Rollback, and any interleaving of MemSet/Rollback/Get/restart requests, leave the record "
                  "map untouched and the restarted store identical (uncommitted_noop, rollback_noop, never_committed_noop); "
                  "a pending update stays pending under any sequence of MemSet requests — empty ones on top of it included, the "
                  "LoadOrStore of /repo e6adcc5 is mirrored — and Commit, when it answers ok, has written the record of its root "
                  "(commit_exact, full); the committed tree is loadable exactly as it was pending and every earlier record is kept "
                  "(commit_exact_content, with C01's `Consistent`), hence another branch's committed root "
                  "loads to the same tree (forks_independent); MemSet replies depend only on configuration and records, so any "
                  "two interleavings of non-writing requests give the same replies (ops_commute). commit_exact_old_false keeps the "
                  "S-C04 witness as a fact about the store before e6adcc5 (memSetOld); the harness still issues empty MemSets on "
                  "pending parents and would report C04|Store.Commit|committed-value-unreadable-after-empty-MemSet-on-pending-parent. "
                  "second_commit_notfound: the second Commit of one root (empty block on a block whose state was pending) answers "
                  "ErrHashNotFound and changes nothing — modelled and compared, not a predicate (the content stays readable). "
                  "Tie: generated interleavings (forks at the same height, empty updates, updates on pending parents, double "
                  "commits, unknown roots, restarts) against mavl.Store, every reply and every read replayed byte-exactly by the "
                  "Lean driver; bursts of concurrent requests through queue + BaseStore.processMessage (built with -race), replies "
                  "printed in canonical order and replayed sequentially; predicate: every committed root returns exactly its "
                  "committed content after every step and after restart.")
    level_note = ("Review follow-up: commit_exact now allows every request except Commit r / Rollback r / restart in between (Set, MemSet, Commit and Rollback of other roots, Get) and hands out the entry n' that commit_exact_content(_full) speaks about; the noop theorems conclude about Store.get at every root without a pending tree (dbRead), not only about .db; pending_root_frame: the MemSet root is independent of pending entries, caches and unrelated commits. pending_entry_reachable: in a store satisfying the invariant C01.SInv (new store; kept by every Store.Set on a known root, C01.setKV_sinv) a non-empty MemSet on a known root leaves a pending tree with exactly the hypotheses of commit_exact_content_full (PH/Shape/KeyMin/DBInv .. W/PersistedStored/FitsRec/depth) and the updated key/value list, so those hypotheses are reachable (stores without prefix and MVCC). Listed as partial: the Consistent versions (stores with the height prefix). NOT done: one invariant for arbitrary interleavings (pending entries carried across later Sets/Commits: SInv has no pending part; PersistedStored.mono is the lemma that needs); collision disjuncts are located. Commit/Commit and Commit/MemSet commutation at record level and the atomicity of labels remain assumptions tied by the race-enabled concurrent run. "
                  "Configurations without memTree/MVCC (default, prefix, prune with a huge interval): with memTree+memVal a rolled-back "
                  "pending state stays readable by its own root hash through the global cache — not a violation (the property speaks "
                  "of reads at committed roots) — and the memTree defects at committed roots are C02's findings. Concurrent bursts "
                  "only contain requests on distinct roots (those are the ones ops_commute covers); Commit/Commit commutation at the "
                  "record level is not proved. commit_exact_content_full / forks_independent_full drop `Consistent` for stores without the height prefix "
                  "('... or CollisionIn H (strings hashed in the pending tree and in the nodes saved before)', located); with the prefix the `Consistent` versions remain.")
    assumptions = (
        "sync.Map operations and one batch write are atomic (labels are atomic steps)",
        "goleveldb behaves as a key/value map with atomic batches",
    )


SPEC = C04()
