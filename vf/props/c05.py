from ..runner import Spec


class C05(Spec):
    prop = "C05"
    drv = "drv_c05"
    harness = "h_c05"
    lean_deps = ("C01", "C02", "C03")
    required_theorems = ()
    level_text = "wip"

    def runs(self, tier, seed):
        # run 0: differential (one process per block), run 1: long sessions, predicate only
        return [dict(env={}), dict(env={"VERIF_C05_MODE": "session"}, nodrv=True)]

    def drv_for(self, run):
        return None if run.get("nodrv") else self.drv


SPEC = C05()
