from ..runner import Spec


class C05(Spec):
    prop = "C05"
    drv = "drv_c05"
    harness = "h_c05"
    lean_deps = ("C01", "C02", "C03")
    required_theorems = ("C05.leafCountKey_roundtrip", "C05.prune_deletes_only_dead", "C05.pruned_parents_dead",
                         "C05.prune_with_stale_entry_deletes_live", "C05.IdxInv_preserved", "C05.IdxInv_preserved_partial",
                         "C05.IdxInv_preserved_full_false", "C05.retained_state_survives_pruning_partial",
                         "C05.split_groups_keep_more")
    partial = ("C05.IdxInv_preserved_partial", "C05.retained_state_survives_pruning_partial")
    refuted = ("C05.IdxInv_preserved_full_false",)
    level_text = ("Executable Lean model of the pruning machinery (leaf-count index written by SaveNode with the parent chain, "
                  "root-per-height and max-height records, isRemoveLeafCountKey/DelLeafCountKV/RemoveLeafCountKey on re-commit, "
                  "pruningFirstLevelNode with its batching thresholds, deleteNode, second and third level, the store trigger) tied "
                  "byte-exactly to mavl.Store with EnableMavlPrune: every reply, every read (lazy record walk like Node.get) and a "
                  "SHA-256 digest of the WHOLE database after every pruning run are equal (pins which records are deleted). "
                  "Theorems: the index key format parses back for all binary keys/hashes and heights < 10^10 "
                  "(leafCountKey_roundtrip); the deletion rule the model applies (delRule = deleteNode's 'keep vals[0] unless the two "
                  "newest share a height') never deletes the version a state above cur-PruneHeight uses when the index holds the "
                  "chain's versions (prune_deletes_only_dead), and a recorded parent of a deleted version occurs in no search tree "
                  "holding another version (pruned_parents_dead); on an abstract index transition system, blocks that go through "
                  "Save re-establish 'index = current chain's versions' (IdxInv_preserved) but a block without state change does "
                  "not (IdxInv_preserved_full_false, witness S-C05; IdxInv_preserved_partial with the hypothesis that every "
                  "abandoned height was re-committed through Save); prune_with_stale_entry_deletes_live shows the rule then deletes "
                  "the live version. Both defects are replayed on the real code (KNOWN-FINDINGs "
                  "C05|PruningTree|live-key-unreadable-after-reorg-with-height-not-recommitted-through-Save and "
                  "C05|Tree.Save|panic-in-DelLeafCountKV-walking-abandoned-partially-pruned-root-recorded-at-that-height). "
                  "Predicate: after every pruning run (store trigger joined through the verif hook, or PruningTree at any height up "
                  "to the tip) and a process restart, every key of the tip and of every current-chain state within the interval is "
                  "readable with its value.")
    level_note = ("Review follow-up: split_groups_keep_more (the deletion rule applied to a contiguous piece of the eligible versions of one key deletes only what it deletes on the whole list: group flushes keep more) is the abstract half of the pruneFirst link; NOT done: no lemma connects pruneFirst (scan order, group flush at 999/10000, first level only) to delRule on a key's full version list (pruneFirst deletes a subset of the union of deletedFor); moveToSecond / pruneSecondNodes / deleteOld have no theorem; IState.saveBlock is an idealised index (drops every entry of height h unconditionally) - IdxInv_preserved is about that LTS, the byte-level functions are tied by the differential run (whole-database digest after every pruning run). PruneSafeFull is a marker, its collision disjunct would have to be located. "
                  "The rule-level and index-level theorems are about abstractions (version lists per key; an index LTS over abstract "
                  "ids), linked to the byte-level model by sharing `delRule`/`parseLeafCountKey` and by the differential run — the end-to-end "
                  "statement on the byte-level model is kept visible as C05.PruneSafeFull (linear histories, store trigger) and is "
                  "NOT proved; retained_state_survives_pruning_partial composes the ingredients for one pruning run and one retained "
                  "state ('no node of the state is among the deleted records') under named hypotheses: the state's leaf per key is "
                  "the newest indexed version (byte-level IdxInv), PruneData lists ancestors of the leaf version, node keys "
                  "identify nodes among the store's nodes (content addressing with height prefix, not derived from "
                  "collision-freeness — under the prefix even C01's `Consistent` is not derivable). Differential mode runs one "
                  "process per block: within a longer session nodeDB.cache returns Node objects still carrying parentNode pointers "
                  "of the tree they were saved in, `_copy` copies them and the new root keeps them, so PruneData lists additional "
                  "stale ancestors (older roots) — observed, not modelled, exercised by the predicate-only 'session' run. A state at "
                  "or below (highest pruning height - interval) is not expected to survive a later deeper reorganisation. Needs the "
                  "hook system/store/mavl/db/hooks_verif.go (VerifWaitPrune, VerifResetGlobals): ClosePrune sets quit=true for good.")
    assumptions = (
        "goleveldb iterators are snapshots in key order; batches are atomic",
        "heights < 10^10; leaf hashes of 32..999 bytes",
    )

    def runs(self, tier, seed):
        # run 0: differential (one process per block), run 1: long sessions, predicate only
        return [dict(env={}), dict(env={"VERIF_C05_MODE": "session"}, nodrv=True)]

    def drv_for(self, run):
        return None if run.get("nodrv") else self.drv


SPEC = C05()
