from ..runner import Spec


class C06(Spec):
    prop = "C06"
    drv = "drv_c06"
    harness = "h_c06"
    required_theorems = ("C06.prefixUpper_spec", "C06.read_your_write", "C06.batch_in_order", "C06.iter_forward",
                         "C06.iter_reverse", "C06.seek_lands_forward", "C06.seek_lands_reverse", "C06.badger_iter_forward", "C06.badger_iter_reverse",
                         "C06.badger_iter_eq_leveldb", "C06.badger_session_eq_leveldb", "C06.batch_impl_refines",
                         "C06.batch_write_error", "C06.iter_session_spec", "C06.seek_then_drain", "C06.badger_session_spec")
    level_text = ("Lean theorems about the ordered-map + iterator model (prefix upper bound, read-your-write, batch order, "
                  "iterator visits exactly the in-range keys in order, seek landing) for all inputs; the model is tied to "
                  "GoMemDB / GoLevelDB / GoBadgerDB by a line-by-line differential run (every Get, every iterator call: "
                  "return value, Valid, Key, Value) over generated sequences, and the property predicate is evaluated on "
                  "the implementation against an independent in-harness sorted map.")
    level_note = ("goleveldb/memdb/badger internals are not modelled: the model is the ordered map the property names; the batch "
                  "wrappers (writes list, nil-vs-empty values, Reset, ValueSize/ValueLen, last-error) are modelled (C06.Batch), refined to "
                  "applyBatch and tied on all three backends; "
                  "Badger is driven without 0xff bytes and without empty stored keys; iterators are not interleaved with writes.")
    assumptions = (
        "goleveldb / memdb / badger storage engines behave as the ordered map of the model (this is what the differential run checks)",
        "an open iterator is never interleaved with writes (snapshot vs. live iteration is not distinguished)",
    )


SPEC = C06()
