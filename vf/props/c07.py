from ..runner import Spec


class C07(Spec):
    prop = "C07"
    drv = "drv_c07"
    harness = "h_c07"
    lean_deps = ("C06",)
    required_theorems = ("C07.pages_concat", "C07.no_foreign", "C07.prefixCount_eq", "C07.merged_eq_union",
                         "C07.pages_concat_merged", "C07.no_foreign_merged", "C07.prefixCount_eq_merged", "C07.list_page",
                         "C07.list_seek", "C07.list_count_zero")
    level_text = ("Lean theorems about the model of ListHelper (List dispatch, IteratorScan, nextKeyValue, PrefixCount, "
                  "collector encodings) and of the merged iterator; tied to common/db by a line-by-line differential run "
                  "(every page, every count, every merged-iterator call) on single databases and 1..3-layer merged views; "
                  "the paging predicate is evaluated on the implementation for every page size, both directions, all encodings.")
    level_note = ("keys under the listed prefix are non-empty (a page ending in the empty key cannot be continued: List treats an empty key as \"from the start\"); "
                  "values written by the generator embed the key so that value-only listings can be continued.")
    assumptions = (
        "the single-database iterator behaves as the C06 model (checked by C06's differential run)",
        "listing is not interleaved with writes",
    )


SPEC = C07()
