from ..runner import Spec


class C08(Spec):
    prop = "C08"
    drv = "drv_c08"
    harness = "h_c08"
    lean_deps = ("C06", "C07")
    required_theorems = ("C08.localdb_refines_spec", "C08.reachable_refines", "C08.rollback_discards_exactly_tx",
                         "C08.commit_keeps", "C08.list_agrees_get")
    level_text = ("Lean theorems about the model of common/db.LocalDB (txcache/cache/maindb, read-through fill, Begin/Commit/"
                  "Rollback, List/PrefixCount through the merged iterator) against the (base, overlay, optional tx) "
                  "specification; tied to the code by a line-by-line differential run over generated histories on a "
                  "pre-populated GoLevelDB base; Get/List/PrefixCount are checked against the specification on the implementation.")
    level_note = ("Begin inside an open transaction discards the open writes (the code's behaviour, taken as specified); "
                  "blockchain/localdb.go only forwards queue messages to LocalDB and is not driven separately.")
    assumptions = (
        "GoMemDB / GoLevelDB behave as the C06 ordered-map model (C06's differential run)",
        "one goroutine uses a LocalDB at a time (the read-through cache fill under RLock is not modelled as a race)",
    )


SPEC = C08()
