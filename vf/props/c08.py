import os

from ..runner import Spec


class C08(Spec):
    prop = "C08"
    drv = "drv_c08"
    harness = "h_c08"
    lean_deps = ("C06", "C07")
    required_theorems = ("C08.localdb_refines_spec", "C08.reachable_refines", "C08.rollback_discards_exactly_tx",
                         "C08.commit_keeps", "C08.list_agrees_get", "C08.readonly_answers_from_base")
    level_text = ("Lean theorems about the model of common/db.LocalDB (txcache/cache/maindb, read-through fill, Begin/Commit/"
                  "Rollback, List/PrefixCount through the merged iterator) against the (base, overlay, optional tx) "
                  "specification; tied to the code by a line-by-line differential run over generated histories on a "
                  "pre-populated GoLevelDB base; Get/List/PrefixCount are checked against the specification on the implementation.")
    level_note = ("Begin inside an open transaction discards the open writes (the code's behaviour, taken as specified); "
                  "the read-only mode (cache == nil) is modelled with Set as an explicit panic outcome and tied; "
                  "blockchain/localdb.go (queue handlers that forward to LocalDB, and the handle-less Get/List/PrefixCount "
                  "requests that read the committed database) is driven on a testnode by a second harness (h_c08q) in both tiers.")
    assumptions = (
        "GoMemDB / GoLevelDB behave as the C06 ordered-map model (C06's differential run)",
        "one goroutine uses a LocalDB at a time (the read-through cache fill under RLock is not modelled as a race)",
    )

    def runs(self, tier, seed):
        # second run: the same op language through blockchain/localdb.go's queue handlers on a real
        # testnode (incl. the handle-less Get/List/PrefixCount requests); small dose in the quick tier
        from .. import core
        binary, log = core.go_build("h_c08q")
        if binary is None:
            raise RuntimeError("h_c08q build failed against the repo working tree: " + log[-800:])
        return [dict(env={}), dict(env={}, binary=binary)]


SPEC = C08()
