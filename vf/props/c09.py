from ..runner import Spec


class C09(Spec):
    prop = "C09"
    drv = "drv_c09"
    harness = "h_c09"
    lean_deps = ("C06", "C07")
    required_theorems = (
        "C09.pad_order",
        "C09.getV_correct_partial", "C09.getV_correct_full_false", "C09.getV_correct_sepfree_false",
        "C09.delTop_restores", "C09.delTop_restores_state", "C09.applyAdd_wf", "C09.fresh_of_below", "C09.history_wf",
        "C09.trash_keeps_newest", "C09.trash_removes_iff", "C09.old_trash_removes_newest",
        "C09.iadd_keeps_last", "C09.idel_restores_last_partial",
        "C09.getV_seek_is_list_seek", "C09.add_records_version", "C09.stateGet_correct_partial", "C09.stateGet_correct_full_false",
        "C09.specResult_stable_under_add",
        "C09.idel_restores_last_full_false_version0", "C09.idel_restores_last_full_false_foreign",
    )
    partial = ("C09.getV_correct_partial", "C09.idel_restores_last_partial", "C09.stateGet_correct_partial")
    refuted = ("C09.getV_correct_full_false", "C09.getV_correct_sepfree_false", "C09.stateGet_correct_full_false",
               "C09.idel_restores_last_full_false_version0", "C09.idel_restores_last_full_false_foreign")
    level_text = ("Lean theorems about a byte-exact model of the MVCC data region (GetKey/pad, reverse prefix seek of GetV, "
                  "AddMVCC/DelMVCC, Trash/cutVersion/getVersion): 20-digit padding is an order isomorphism; removing the top "
                  "version restores the data region and hence every read for ALL key shapes; GetV returns the most recent write "
                  "<= v for separator-free key sets without empty values (partial), Trash keeps the newest version and every "
                  "version above the cut for EVERY well-formed store, with the exact set of removed records (after repo fix 3f54487; the former HasPrefix loop is kept as a regression witness); the remaining full statements are refuted on concrete "
                  "witnesses that are replayed on the real code (corpus/C09). The model is tied to common/db (MVCCHelper over "
                  "goleveldb and memdb, MVCCIter with its 'last' records) and executor.StateDB by an exact differential run over generated version chains with "
                  "adversarial key shapes, reads at every version, removals from the top and collections at every cut; the "
                  "property predicates are evaluated on the implementation against an in-harness reference.")
    level_note = ("Meta records (hash<->version, key lists) are modelled as maps (32-byte hashes); goleveldb/memdb behave as an "
                  "ordered map with range iterators (C06's claim); versions are non-negative int64.")
    assumptions = (
        "goleveldb/memdb iterators over [prefix, bytesPrefix(prefix)) behave as an ordered map (C06)",
        "state hashes are >= 16 bytes so that the three meta key families do not collide",
        "versions are non-negative and below 2^63",
        "Trash deletes while its reverse iterator is open; the model scans a snapshot and deletes afterwards - exact for "
        "goleveldb (snapshot iterators) and observed identical on GoMemDB (live skiplist: a deleted node is re-sought by key) "
        "in every differential run (stat trash_on_memdb), not proved",
        "StateDB.enableMVCC is reached by a pull-only go:linkname from the harness (no hook file in /repo)",
    )


SPEC = C09()
