from ..runner import Spec


class C09(Spec):
    prop = "C09"
    drv = "drv_c09"
    harness = "h_c09"
    required_theorems = ()
    level_text = "work in progress"
    level_note = ""
    assumptions = ()


SPEC = C09()
