from ..runner import Spec


class C10(Spec):
    prop = "C10"
    drv = "drv_c10"
    harness = "h_c10"
    lean_deps = ("C09",)
    required_theorems = (
        "C10.single_op_per_key_refines", "C10.single_op_per_key_keeps_shape", "C10.listIndex_exact",
        "C10.multi_op_refines_partial", "C10.multi_op_keeps_shape", "C10.multi_save_refines",
        "C10J.join_single_op_refines_partial", "C10J.join_single_op_refines_full_false",
        "C10J.join_batch_refines_full_false",
        "C10.multi_op_refines_full_false_a", "C10.multi_op_refines_full_false_b", "C10.old_del_leaves_stale_index",
    )
    partial = ("C10.multi_op_refines_partial", "C10J.join_single_op_refines_partial")
    refuted = ("C10.multi_op_refines_full_false_a", "C10.multi_op_refines_full_false_b",
               "C10J.join_single_op_refines_full_false", "C10J.join_batch_refines_full_false")
    level_text = ("Lean theorems about a model of the table row cache (rows / rowmap with the in-place mutations of the Go code), "
                  "Save (saveRow, addRow, delRow, updateRow, getModify, DelDupKey) and Query.ListIndex over the ordered store: if "
                  "each primary key is touched at most once between saves the table answers exactly like a map (Add fails iff "
                  "present, Update/Del iff absent) and Save brings the db to the encoding of the map - data records and every "
                  "index, no stale and no missing entry - and keeps it well shaped; the same holds for several operations per key before "
                  "one save as long as, for a key stored at the last save, nothing follows a buffered Del (Update/Replace then Del is covered since repo fix "
                  "24b2bb6; GoodRun, a condition on the sequence only; simulation invariant over the row cache); on such a db ListIndex(index, value) returns "
                  "exactly the present rows with that value. The full statement (several operations per key before one save) is "
                  "refuted on two concrete witnesses (Del;Add / Del;Replace; the former Update;Del defect is a regression witness about the old Del) that are replayed on the real code "
                  "(corpus/C10). The model is tied to common/db/table over goleveldb and memdb by an exact differential run "
                  "(return values, the kv list returned by Save in order, GetData, ListIndex with paging/direction, raw scan) over "
                  "generated sequences with 1..many operations per key between saves; the property predicates are evaluated on "
                  "the implementation against a map reference.")
    level_note = ("Row.Encode/DecodeRow/protobuf round trip is treated as the identity on rows (checked by reading rows back); "
                  "primary keys without the '-' separator; index values of fixed width for lookup exactness; join tables: model of "
                  "join.go tied differentially; theorem for one buffered left-table operation per save (foreign key kept), "
                  "right-table batches only refuted/ tied, not proved. "
                  "ListIndex theorem covers the equality lookup (pfx = value, no start key, count 0, both directions); paging "
                        "(count, continuation by primary key), pfx = nil and listPrimary are modelled and covered by the differential run "
                        "and the in-harness predicate only (no theorem).")
    def runs(self, tier, seed):
        # second run: join tables (Model/C10Join.lean)
        return [dict(env={}), dict(env={"VERIF_C10_MODE": "join"})]

    assumptions = (
        "goleveldb/memdb behave as an ordered map with range iterators (C06)",
        "Row.Encode / DecodeRow / proto round trip is the identity on rows",
        "primary keys are non-empty and contain no '-'; index values have a fixed width in the lookup-exactness theorem",
        "Query.ListIndex with count/continuation key, nil prefix, and listPrimary: tie + predicate only, no theorem",
        "primary keys are non-empty (besides separator-free) in the multi-operation and history theorems",
        "join tables: Go iterates left.rowmap (a map) in mergeCache; kv lists of join saves are compared sorted by key",
        "join theorem covers one buffered left-table operation per save with the foreign key kept (S-C10d) on a db that "
        "encodes the maps (JRep); saveRight's loop is covered by the tie and by the refuting witness only",
    )


SPEC = C10()
