from ..runner import Spec


class C10(Spec):
    prop = "C10"
    drv = "drv_c10"
    harness = "h_c10"
    lean_deps = ("C09",)
    required_theorems = ()
    level_text = "work in progress"
    level_note = ""
    assumptions = ()


SPEC = C10()
