from ..runner import Spec


class C11(Spec):
    prop = "C11"
    drv = "drv_c11"
    harness = "h_c11"
    lean_deps = ("C12",)
    required_theorems = (
        "C11.state_rollback_exact",
        "C11.group_all_or_fee",
        "C11.local_rollback_exact",
        "C11.rollback_exact",
        "C11.group_local_rollback_exact",
        "C11.rollback_exact_block",
        "C11.group_rollback_exact_block",
    )
    partial = ()
    refuted = ()
    level_text = (
        "Lean theorems about a model of executor.StateDB / executor.LocalDB (over the remote layered store) and the "
        "control flow of execTx / execTxGroup / execTxOne / execFee / begin / commit / rollback with contracts as "
        "programs: a failed transaction's (group's) receipt keeps exactly the fee KV and every later StateDB read, "
        "under any later operation sequence, equals the fee-only run (state_rollback_exact, group_all_or_fee; proved by "
        "a bisimulation). For local data (repaired LocalDB.Rollback, /repo c51e8d4) local_rollback_exact shows the same "
        "for every later sequence of local transactions (Get/Set/List), via a coherence invariant of LocalDB over the "
        "remote store that block execution maintains; the pre-repair Rollback is kept as rollbackOld with a "
        "regression witness (S-C11). rollback_exact_block / group_rollback_exact_block state the property through "
        "execBlock itself: after a failed transaction (group) every continuation of the block yields the same receipts "
        "and observations as after the fee-only transaction (as from the post-fee state); the LocalDB hypotheses are "
        "discharged from the initial state by initSt_lclean / execUnit_lclean. The model is "
        "tied to /repo by executing generated blocks (<= 12 programs incl. groups, write-then-fail, poor senders, "
        "panics) through the real executor module on a testnode and comparing receipts and every read of every "
        "transaction; the property predicate (later receipts/reads equal the run where the failed unit only paid its "
        "fee) is evaluated on the real code by executing both blocks."
    )
    level_note = (
        "main-chain configuration with all forks active and a positive fee rate (fork flags are model parameters but "
        "only this setting is driven); groups are well-formed (checkTxGroup passes); drivers are the synthetic "
        "program interpreters registered by the harness plus the none driver; proxy-exec (EVM) path, MVCC state "
        "reads and API-environment errors are not modelled; the remote local store's merged iterator is modelled as "
        "a sorted merged view (its own correctness is C07/C08)."
    )
    assumptions = (
        "contracts are straight-line programs over SetState/GetState/SetLocal/GetLocal/ListLocal/Fail/Panic interpreted by synthetic drivers",
        "the mavl store answers reads at the parent state hash as a fixed key-value map (C01)",
        "the blockchain module's layered local store behaves as a sorted merged view of txcache > cache > main db (C08)",
        "coins accounts are values with a balance; undecodable account bytes make LoadAccount panic (block-level panic)",
        "all forks active, MinTxFeeRate > 0, not a para chain, no proxy-exec transactions, well-formed groups",
    )


SPEC = C11()
