from ..runner import Spec


class C11(Spec):
    prop = "C11"
    drv = "drv_c11"
    harness = "h_c11"
    lean_deps = ("C12",)
    required_theorems = ()
    level_text = ""
    level_note = ""
    assumptions = ()


SPEC = C11()
