from ..runner import Spec


class C12(Spec):
    prop = "C12"
    drv = "drv_c12"
    harness = "h_c12"
    lean_deps = ("C11",)
    extra_lean_targets = ("drv_c11",)
    required_theorems = ()
    level_text = ""
    level_note = ""
    assumptions = ()

    def runs(self, tier, seed):
        return [dict(env={"C12_MODE": "pure"}), dict(env={"C12_MODE": "blocks"})]

    def drv_for(self, run):
        return "drv_c11" if run.get("env", {}).get("C12_MODE") == "blocks" else "drv_c12"


SPEC = C12()
