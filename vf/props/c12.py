from ..runner import Spec


class C12(Spec):
    prop = "C12"
    drv = "drv_c12"
    harness = "h_c12"
    lean_deps = ("C11",)
    extra_lean_targets = ("drv_c11",)
    required_theorems = (
        "C12.allow_iff_spec",
        "C12.localkey_iff",
        "C12.exec_ok_implies_covered",
        "C12.local_ok_prefix",
    )
    level_text = (
        "Lean theorems about a byte-level model of isAllowKeyWrite / FindExecer / GetExecKey / GetParaExec / "
        "GetRealExecName / isAllowLocalKey(2) / checkKV: the code-shaped predicate accepts exactly the keys of a "
        "declarative grammar (own namespace | own deposit area mavl-X-Y-exec-<addr>: | friend-approved, owner chosen "
        "by deposit address; two pre-ForkExecKey exceptions) for every configuration, address function and friend "
        "oracle (allow_iff_spec); isAllowLocalKey2 accepts exactly LODB-<execer>-<non-empty> (localkey_iff); a "
        "successful execTxOne implies every StateDB-written key is in the receipt and every receipt key is in the "
        "grammar (exec_ok_implies_covered), local KVs accepted by execLocalTx (execution-time and AddBlock path) carry "
        "the prefix (local_ok_prefix, exec_ok_local_prefix). Tie: the real "
        "predicates are called in-process on >= 1e5 generated (key, execer) pairs under a main-chain config (before/"
        "after ForkExecKey) and a user.p.x. para config and compared with the model byte for byte and with an "
        "independent string-splitting grammar; synthetic executors write such keys in real blocks (receipts compared)."
    )
    level_note = (
        "drivers.ExecAddress (a hash) and the friend decision of the owning driver are parameters of the theorems; "
        "in the tie the addresses come from the real function and the friend rule is the synthetic drivers' "
        "(prefix mavl-<self>-fr-, caller's real name vfa); system drivers coins/manage/none answer false for the "
        "transaction shapes used. Block executions run on the main chain only (para names there fall to the none driver). "
        "procExecDelBlock -> checkPrefix (ExecDelLocal KVs) is not modelled: it applies the same isAllowLocalKey, whose "
        "characterisation localkey_real_iff covers, and is exercised by the pure run only."
    )
    assumptions = (
        "drivers.ExecAddress is an arbitrary function of the executor name (theorems hold for every such function)",
        "the friend rule of real dapps is abstracted as an oracle; the tie uses the synthetic drivers' rule",
        "key comparison is bytes.Equal / string equality on the raw bytes",
    )

    def runs(self, tier, seed):
        return [dict(env={"C12_MODE": "pure"}), dict(env={"C12_MODE": "blocks"})]

    def drv_for(self, run):
        env = run.get("env", {})
        # corpus files of C12 hold block scenarios only; the harness replays them in blocks mode
        return "drv_c11" if env.get("C12_MODE") == "blocks" or "VERIF_REPLAY" in env else "drv_c12"


SPEC = C12()
