from ..runner import Spec


class C13(Spec):
    prop = "C13"
    drv = "drv_c13"
    harness = "h_c13"
    required_theorems = ("C13.plugins_order_irrelevant", "C13.fanin_by_index", "C13.verify_all_order_irrelevant", "C13.verify_worker_count_irrelevant",
                         "C13.delDupKey_spec", "C13.checkKV_order_irrelevant", "C13.merge_order_irrelevant",
                         "C13.findByValue_order_irrelevant", "C13.two_runs_equal_partial",
                         "C13.checkFlag_genesis_history_independent", "C13.checkFlag_history_independent_consistent")
    partial = ("C13.two_runs_equal_partial: composite over the modelled helpers only (sorted plugin names, merkle fan-in, signature "
               "worker pool, DelDupKey, checkKV, cache merge); transaction execution inside the drivers, state tree and "
               "database are compared by the repeated-execution predicate, not modelled",
               "C13.checkFlag_history_independent_consistent: the cached flag came from this chain's database")
    quick_timeout = 3600
    level_text = ("Lean theorems of order-irrelevance where Go is non-deterministic: every modelled source of run-to-run "
                  "variation on the block-execution path is an explicit permutation argument - sorted plugin / title names for "
                  "any map iteration order, goroutine results stored by index for any arrival order (GetMerkleRoot, "
                  "calcMultiLayerMerkleInfo), the conjunction of signature verdicts for any arrival order, DelDupKey = first-seen "
                  "keys with last values, checkKV, cacheDB.Merge, ActionName - proved for all inputs and all permutations. "
                  "The helpers are composed in two_runs_equal_partial (two admissible schedules of one block give equal helper results); pluginBase.checkFlag, the one history-dependent site, is modelled (genesis emits the flag KV whatever was cached). Regenerated tie: a go/packages + go/types extractor lists every range-over-map, go statement, multi-way "
                  "select, clock/rand use and package-level cache reachable (static call graph, interface calls resolved by class "
                  "hierarchy, dapp hooks as roots) from procExecTxList / procExecAddBlock / procExecDelBlock / PreExecBlock / "
                  "ExecBlock in /repo's current source; the list must equal the committed annotated list (101 sites; it also covers writes to package-level variables and to fields of values whose type is reachable from a package-level variable, e.g. the plugin instances in globalPlugins). The "
                  "property predicate itself runs in every check: a generated chain (groups, failing transactions, manage, "
                  "para-titled transactions, >80-transaction blocks) is executed in fresh processes and in processes that first executed ANOTHER chain (own genesis and blocks, fresh databases), with the default plugins, with enableStat and (genesis only) with enableMVCC, with "
                  "GOMAXPROCS 1/2/16 and CPU affinity 1/4/16 and twice per process; receipts, state KV set, state root, "
                  "transaction roots, the verdicts (Block.CheckSign, PreExecBlock as peer / own block) on 18 blocks that must be rejected (flipped / missing signature, foreign public key; first / middle / last; single / group member) - which must be ErrSign whatever GOMAXPROCS and CPU count -, the EventAddBlock / EventDelBlock local KV sets of every height including 0 and the persisted local database after genesis and at the end are compared byte for byte.")
    level_note = ("partial by nature: Go's scheduler and map randomisation are not modelled, only enumerated as sites and "
                  "abstracted as permutations; non-determinism inside code the extractor does not load (plugin dapps, database "
                  "backends other than the configured one, cgo) is seen only by the repeated-execution comparison; the worker "
                  "count dependence of the merkle chunking is property C18.")
    assumptions = ("Go's string order is a linear order", "Go maps have pairwise distinct keys",
                   "the registered action-number maps are injective: regenerated fact (values of every map[string]int32 literal extracted from the source, Nodup decided by the driver)")

    def runs(self, tier, seed):
        return [dict(env={"VERIF_C13_MODE": m}) for m in ("sites", "functions", "exec")]


SPEC = C13()
