from ..runner import Spec


class C14(Spec):
    prop = "C14"
    drv = "drv_c14"
    harness = "h_c14"
    required_theorems = ("C14.del_after_add_id_plugins_key", "C14.del_after_add_id_plugins_except_stx",
                         "C14.del_after_add_id_plugins_partial", "C14.plugins_full_false", "C14.del_after_add_id_coins",
                         "C14.del_after_add_id_block_partial", "C14.regression_coins_failed_transfer",
                         "C14.heightstr_injective", "C14.mvcc_del_after_add_id")
    partial = ("C14.del_after_add_id_plugins_partial: also the 8-byte short-hash keys STX:hash[:8] of the block's transactions "
               "are unused (no on-chain transaction shares an 8-byte hash prefix with one of the block)",
               "C14.del_after_add_id_block_partial: the same, and no successful genesis action; MVCC and manage local data are "
               "not part of the block model",
               "C14.mvcc_del_after_add_id: every key except .-mvcc-.m.versionkl.<v>; non-empty state KV set (DelMVCC panics otherwise)")
    refuted = ("C14.plugins_full_false",)
    quick_timeout = 1200
    level_text = ("Lean theorems about the model of the local-index writers (txindex, addrindex incl. the per-address "
                  "counter read-modify-write, addrfeeindex, fee, MVCC AddMVCC/DelMVCC, coins ExecLocal/ExecDelLocal, "
                  "AddTxs/DelTxs nil=>delete): for every store and every block (any repetition of addresses, self-transfers, "
                  "failed transactions, groups) whose own slots are fresh, applying the add list and then the del list "
                  "restores every key observationally (absent = empty value = zero counter) - key by key: a key is restored if it was "
                  "unused before when it is one of the block's own keys; under what a chain guarantees (full transaction keys, "
                  "slots, fee key unused) every key except the short-hash keys STX:hash[:8] is restored, and the full statement is "
                  "refuted on a witness and on the real code with a real 8-byte hash-prefix collision (known finding); for coins and for the whole "
                  "block the only hypothesis is that no genesis action executed successfully (impossible above height 0); the "
                  "defect S-C14 found by this check (Coins.ExecLocal counted failed transfers) was repaired in /repo (303f1d2) "
                  "and is kept as a regression witness. Tie: two real testnodes follow the same generated chain; on one of them every height "
                  "first gets a junk block (coins/none/manage/user transactions, groups, failing ones) that is removed again "
                  "by a reorganisation; the KV sets of the real executor for EventAddBlock/EventDelBlock are compared byte "
                  "for byte with the model, add-then-del is replayed on the real lists, and after the removal every "
                  "local-index key of the chain database and every local query answer is compared with the node that "
                  "never saw the junk block. AddMVCC/DelMVCC are driven on a real goleveldb through common/db.LocalDB.")
    level_note = ("keys are structured in the model and rendered by the driver (rendering, protobuf encodings of counters, "
                  "fee totals and the MVCC key list are checked only by the byte-exact differential run); opaque values are "
                  "tokens; manage's table/rollback local data is covered only by the node-level comparison; the exec-level "
                  "MVCC plugin cannot run on a node past genesis (version 0 is stored as an empty value and read back as "
                  "not found), so it is tied at plugin level; DelMVCC leaves the '.-mvcc-.m.versionkl.<v>' entry of the "
                  "removed version behind (not readable through any MVCC query, overwritten by the next AddMVCC of that "
                  "version) - excluded from the MVCC statement; removal is exercised through reorganisation, not the para "
                  "delete path.")
    assumptions = ("dbversion != 0 (per-address counters enabled)",
                   "counter / fee-total keys hold only values written by the index code",
                   "a block's own slots (height*MaxTxsPerBlock+index), its full transaction keys and its block hash are unused "
                   "before it is added: guaranteed by duplicate checking on full hashes and removal of all higher blocks (NOT the "
                   "8-byte short-hash keys)")

    def runs(self, tier, seed):
        return [dict(env={"VERIF_C14_MODE": m}) for m in ("quick", "noquick", "mvcc")]


SPEC = C14()
