from ..runner import Spec


class C15(Spec):
    prop = "C15"
    drv = "drv_c15"
    harness = "h_c15"
    required_theorems = (
        "C15.err_no_change", "C15.nonneg_main_partial", "C15.nonneg_partial", "C15.supply_delta_partial",
        "C15.deficit_delta_partial", "C15.alias_safe", "C15.alias_rejected", "C15.old_guard_alias_mints", "C15.no_overflow_partial",
        "C15.case_insensitive", "C15.case_insensitive_write", "C15.normEth_idempotent", "C15.normEth_case_variants",
        "C15.nonneg_full_false", "C15.no_overflow_full_false", "C15.supply_full_false",
    )
    partial = (
        "C15.nonneg_main_partial: hypothesis 'no negative genesis grant' (GenesisInit has no CheckAmount)",
        "C15.nonneg_partial: + at most 92 operations (the exec sub-ledger adds without safeAdd)",
        "C15.no_overflow_partial: hypothesis Backed (every exec balance covers its sub-accounts)",
        "C15.supply_delta_partial: hypothesis 'no negative genesis grant'",
        "C15.deficit_delta_partial: hypotheses sub-account fields <= 2^63-1-1e17 (no wrap), no negative grant; any spellings",
        "C15.alias_safe: any spellings of from/to (no alias hypothesis since repo fix 3bc3d2b); remaining hypothesis: no wrap (cap)",
    )
    refuted = (
        "C15.nonneg_full_false: genesis A -1 => balance -1",
        "C15.no_overflow_full_false: 93 x ExecDeposit(1e17-1) wraps int64",
        "C15.supply_full_false: genesis -2^63 then transfer 1 wraps the payer to +2^63-1",
    )
    level_text = (
        "Lean theorems about a model of account.DB with explicit int64 wrap-around, for every normalisation function, "
        "every state and every operation list: an error changes nothing; the main ledger stays in [0, MaxTokenBalance] "
        "and the supply moves exactly by minted/burned/issued/granted amounts (given non-negative genesis grants); the exec "
        "equation moves by an explicit per-operation amount (0 for the preserving operations, for arbitrary spellings) given no "
        "wrap; ExecTransfer/ExecTransferFrozen between two spellings of one account are rejected (the pre-fix guard is kept as a "
        "regression theorem: it minted balance); no overflow while every exec balance covers its sub-accounts; equal storage keys read one record. Three full "
        "statements are refuted on concrete witnesses that replay on the real code (negative grant: balance and supply; "
        "sub-ledger int64 wrap). The model is tied to account/*.go by a "
        "differential run (error enum + every involved record after each of ~1e5 generated operations over base58/hex "
        "spellings and edge amounts) and the property is evaluated on the implementation against an unbounded-integer ledger."
    )
    level_note = (
        "address.FormatAddrKey is a parameter (norm) of the theorems; the driver uses the concrete lower-casing of hex "
        "addresses and the tie checks it. Go panics (TransferWithdraw / GenesisInitExec after a partial write) are an explicit "
        "model outcome compared with the code; ledger equations are not asserted across a panic (the executor rolls back)."
    )
    assumptions = (
        "the KV store behaves as a map (GoMemDB in the harness)",
        "protobuf encode/decode of types.Account round-trips addr/balance/frozen (observed through LoadAccount in the tie)",
        "address.FormatAddrKey lower-cases exactly the strings go-ethereum IsHexAddress accepts (model normEth, proved idempotent and case-insensitive on hex addresses; agreement with the code is checked by the differential run, ASCII spellings only)",
        "a Go panic inside TransferWithdraw/GenesisInitExec aborts the caller's transaction; no ledger equation is asserted across it",
    )


SPEC = C15()
