from ..runner import Spec


class C15(Spec):
    prop = "C15"
    drv = "drv_c15"
    harness = "h_c15"


SPEC = C15()
