from ..runner import Spec


class C15(Spec):
    prop = "C15"
    drv = "drv_c15"
    harness = "h_c15"
    required_theorems = (
        "C15.err_no_change", "C15.nonneg", "C15.no_overflow", "C15.no_overflow_step", "C15.supply_delta",
        "C15.supply_delta_step", "C15.deficit_delta", "C15.alias_safe", "C15.alias_rejected",
        "C15.negative_grant_rejected", "C15.exec_equation_partial", "C15.case_insensitive_partial",
        "C15.case_insensitive_exec_full_false", "C15.case_insensitive_write",
        "C15.normEth_idempotent", "C15.normEth_case_variants",
        "C15.old_guard_alias_mints", "C15.old_genesis_accepts_negative_grant", "C15.old_execDeposit_wraps",
    )
    partial = (
        "C15.case_insensitive_partial: the exec-address argument is one spelling (execAccountKey does not normalise execaddr); account spellings are arbitrary",
        "C15.exec_equation_partial: balance(e) = sum of sub-accounts for op lists that name e by one spelling, do not touch e's own record by plain Transfer/Mint/Burn/Genesis/Issue, do not use raw ExecDeposit/ExecWithdraw on e, and in which no step panicked",
    )
    refuted = (
        "C15.case_insensitive_exec_full_false: toexec a E 400 then the sub-account read through another spelling E' of the same exec address is empty (main record shared)",
    )
    level_text = (
        "Lean theorems about a model of account.DB with explicit int64 wrap-around, for every normalisation function, "
        "every configuration and every operation list: an error changes nothing; every balance "
        "and frozen amount of the main ledger and of every exec sub-ledger stays in [0, MaxTokenBalance] (never negative, "
        "no int64 wrap); the supply after a run equals the sum of the minted/burned/issued/granted amounts; in every "
        "reachable state a successful operation moves the exec equation balance(exec) - sum(sub-accounts) by an explicit "
        "per-operation amount (0 for the preserving operations) for arbitrary address spellings; two spellings of one "
        "account are rejected by the exec-internal transfers; the exec equation holds as an invariant for op lists that use one "
        "spelling of the exec address (hypotheses listed under partial); equal storage keys of the ACCOUNT argument read and "
        "write one record, while the exec-address argument is refuted on a witness that replays on the real code (known "
        "finding: execAccountKey keeps execaddr as spelled); the concrete "
        "hex lower-casing satisfies the normalisation laws. The behaviour before the repo fixes 3bc3d2b / b0959e4 (alias "
        "mints balance, negative genesis grant, sub-ledger int64 wrap) is kept as regression theorems about separate "
        "...Old definitions. The model is tied to account/*.go by a differential run (error enum + every involved record "
        "after each of ~1e5 generated operations over base58/hex spellings and edge amounts, plus corpus witnesses of the "
        "repaired defects) and the property is evaluated on the implementation against an unbounded-integer ledger."
    )
    level_note = (
        "address.FormatAddrKey is a parameter (norm) of the theorems; the driver uses the concrete lower-casing of hex "
        "addresses and the tie checks it. Go panics (TransferToExec / TransferWithdraw / GenesisInitExec after a partial "
        "write) are an explicit model outcome compared with the code; the invariants are proved across a panic, the "
        "ledger equations of the harness are not asserted across it (the executor rolls back)."
    )
    assumptions = (
        "the KV store behaves as a map (GoMemDB in the harness)",
        "protobuf encode/decode of types.Account round-trips addr/balance/frozen (observed through LoadAccount in the tie)",
        "address.FormatAddrKey lower-cases exactly the strings go-ethereum IsHexAddress accepts (model normEth, proved idempotent and case-insensitive on hex addresses; agreement with the code is checked by the differential run, ASCII spellings only)",
        "a Go panic inside TransferToExec/TransferWithdraw/GenesisInitExec aborts the caller's transaction; no ledger equation is asserted across it by the harness",
    )


SPEC = C15()
