from ..runner import Spec


class C16(Spec):
    prop = "C16"
    drv = "drv_c16"
    harness = "h_c16"
    required_theorems = (
        "C16.varint_injective", "C16.lenDelim_prefixFree", "C16.encode_injective", "C16.hash_binds", "C16.hash_changes",
        "C16.hash_ignores", "C16.fullHash_binds", "C16.clone_preserves", "C16.clone_covers_fields",
        "C16.sign_verify", "C16.sign_binds", "C16.header_is_signed", "C16.disabled_rejects",
        "C16.unknown_type_rejects", "C16.unsigned_rejects", "C16.altered_sig_rejected_full_false",
        "C16.altered_sig_rejected_partial", "C16.altered_sig_rejected_exact65",
        "C16.appended_bytes_ignored_first64", "C16.appended_bytes_ignored_der",
        "C16.altered_field_rejected_partial", "C16.altered_header_rejected_partial",
        "C16.altered_pubkey_rejected_partial", "C16.altered_field_rejected_full_false",
        "C16.altered_pubkey_rejected_full_false",
    )
    # hypotheses added w.r.t. the property text:
    #  altered_sig_rejected_partial   : parsed form differs (parseSig p sig' != parseSig p sig) + verifier accepts <= 1 parsed signature
    #  altered_field_rejected_partial / altered_header_rejected_partial : scheme is message-binding (C16.MsgBinding)
    #  altered_pubkey_rejected_partial: scheme is key-binding (C16.KeyBinding) — false of plain ECDSA (finding)
    #  sign_binds / header_is_signed  : conclude only that the signed bytes differ (no scheme hypothesis)
    partial = ("C16.altered_sig_rejected_partial", "C16.altered_field_rejected_partial",
               "C16.altered_header_rejected_partial", "C16.altered_pubkey_rejected_partial",
               "C16.sign_binds", "C16.header_is_signed")
    refuted = ("C16.altered_sig_rejected_full_false", "C16.altered_sig_rejected_der_false",
               "C16.altered_field_rejected_full_false", "C16.altered_pubkey_rejected_full_false")
    level_text = (
        "Lean theorems about a field-by-field model of types.Transaction: the proto3 encoding is injective on "
        "in-range records (varint/length-delimited prefix-freeness, fields peeled by tag), hence Hash binds every "
        "field except signature and header or exhibits an explicit collision of the hash function; Hash ignores "
        "signature and header; Clone/CloneTx preserve Hash and FullHash; sign-then-verify holds for every scheme "
        "with verify(sign)=true that is enabled at the height; any change of a signed field (header included) "
        "changes the signed bytes; disabled/unknown types and unsigned transactions are rejected. The model is tied "
        "to /repo by a byte-exact differential run (Encode, Hash, FullHash, the exact bytes handed to the crypto "
        "driver observed through a spy driver, Clone, crypto.Load/Init gate) and the property predicate is evaluated "
        "on the real code with every proto field mutated in turn, for every registered key-based crypto driver x "
        "address id, at heights around each enable height under several crypto.Init configurations.")
    level_note = (
        "'CheckSign fails after altering a signed field / the public key' is proved only under named hypotheses on "
        "the scheme (MsgBinding resp. KeyBinding; both shown necessary by a lax scheme). KeyBinding is FALSE of the "
        "plain-ECDSA drivers: the alternative key recovered from an honest signature verifies the same message "
        "(replayed on secp256k1 and secp256r1, known findings). "
        "Partial on the cryptographic soundness of the drivers: 'altered signature bytes are rejected' is refuted for "
        "the prefix-tolerant parsers (witness in Lean, replayed on the code, listed as known findings) and proved "
        "only up to the parsed form; unforgeability is not assumed and nothing is concluded from it. SHA-256 is "
        "abstract in the theorems (Collision disjunct). Executor-specific crypto drivers (GetCryptoDriver override) "
        "and the btcscript driver (no key API) are outside the sign/verify runs; heights < 0 bypass the enable check "
        "by design and are outside the 'disabled' claim.")
    assumptions = (
        "int64/int32 fields are in range of their Go types (WF); nil and empty byte slices are identified (proto3 does)",
        "hash function abstract: conclusions carry an explicit Collision disjunct",
        "signature schemes abstract: only verify(sign sk m) = true is assumed",
        "protobuf `to` strings are valid UTF-8 (golang/protobuf refuses others before encoding)",
        "regenerated facts: proto field lists by reflection and CloneTx/Signature.Clone assignments by go/ast are "
        "compared with the model's constants on every run",
    )
    trusted_base_extra = ("h_c16 + drv_c16 differential tie (byte-exact)", "executable SHA-256 of Base/Sha256.lean validated against crypto/sha256 on every run")


SPEC = C16()
