from ..runner import Spec


class C16(Spec):
    prop = "C16"
    drv = "drv_c16"
    harness = "h_c16"
    required_theorems = ("C16.cloneTx_eq",)
    level_text = "wip"
    level_note = "wip"
    assumptions = ()


SPEC = C16()
