from ..runner import Spec


class C17(Spec):
    prop = "C17"
    drv = "drv_c17"
    harness = "h_c17"
    lean_deps = ("C16",)
    required_theorems = (
        "C17.check_implies_chained", "C17.group_binding", "C17.tamper_changes_signbytes", "C17.fee_rules",
        "C17.fee_nonzero_rejected", "C17.fee_too_low_rejected", "C17.created_group_checks",
        "C17.created_group_chained", "C17.signed_group_checkSign", "C17.group_checkSign_all", "C17.realFee_eq",
        "C17.tampered_group_rejected_partial", "C17.resigned_member_accepted", "C17.signers_bound_full_false",
    )
    # hypotheses added w.r.t. the property text:
    #  group_binding / tamper_changes_signbytes : 'up to signatures' and conclude on the signed bytes only
    #  tampered_group_rejected_partial          : scheme is message-binding (C16.MsgBinding); tamper = change outside signatures
    #  created_group_checks                     : signature field <= 300 bytes, no stale Next, <= 20 members, head fee fits
    partial = ("C17.group_binding", "C17.tamper_changes_signbytes", "C17.tampered_group_rejected_partial",
               "C17.created_group_checks")
    refuted = ("C17.signers_bound_full_false", "C17.resigned_member_accepted")
    level_text = (
        "Lean theorems about the model of CreateTxGroup / Transactions.CheckWithFork / CheckSign (shared transaction "
        "model of C16): two groups that pass Check and share the head's header are equal member by member up to "
        "signatures, or the hash function collides (induction along the next chain); hence any reorder/drop/add/"
        "substitute/field change that still passes Check changes the header and therefore the bytes covered by every "
        "member signature; an accepted group has zero fee on non-head members and a head fee >= the sum of required "
        "fees, and violations are answered with ErrTxGroupFeeNotZero / ErrTxFeeTooLow; a group created by "
        "CreateTxGroup and signed by its members passes Check at the creation fee rate (stated side conditions: "
        "signature field <= 300 bytes, no stale Next on the last input, <= 20 members, fees fit int64) and CheckSign "
        "for every scheme with verify(sign)=true enabled at the height. Tied to /repo by a byte-exact differential run of CreateTxGroup, "
        "RebuiltGroup, Tx(), Check/CheckWithFork (error kind), CheckSign on generated groups of 2..20 members "
        "(para/main mixes, expiry kinds, fee-step sizes) signed with real keys, with every structural and field "
        "mutant (also re-chained by RebuiltGroup) required to fail Check or CheckSign on the real code.")
    level_note = (
        "WHO signs a member is not bound by the group: every tamper theorem is 'up to signatures', and "
        "resigned_member_accepted / signers_bound_full_false prove that a member re-signed, content unchanged, by any "
        "other key passes Check and CheckSign again (replayed on the real code: known finding "
        "C17|Check+CheckSign|resign-member-other-key-accepted). 'CheckSign fails on a tampered group' is proved under "
        "the message-binding hypothesis on the scheme (tampered_group_rejected_partial). Unforgeability of the signature "
        "schemes is outside (as C16): the theorem shows the signed bytes change, the run shows the real drivers then "
        "reject. int64 fee arithmetic is modelled without wrap-around (fee rates <= 2^40 in the runs). Decoding of "
        "the group from Transaction.Header (GetTxGroup) is checked by round trip on the code, not modelled.")
    assumptions = (
        "int64/int32 fields in range (WF); nil = empty for byte slices",
        "hash function abstract with explicit Collision disjunct",
        "fee arithmetic does not overflow int64 (minfee * (size/1000+1) * members < 2^63)",
        "created_group_checks: last input member has no stale Next, at most 20 members (stated hypotheses)",
    )
    trusted_base_extra = ("h_c17 + drv_c17 differential tie (byte-exact)",)


SPEC = C17()
