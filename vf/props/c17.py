from ..runner import Spec


class C17(Spec):
    prop = "C17"
    drv = "drv_c17"
    harness = "h_c17"
    lean_deps = ("C16",)
    required_theorems = ()
    level_text = "wip"
    level_note = "wip"
    assumptions = ()


SPEC = C17()
