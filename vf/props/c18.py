from ..runner import Spec


class C18(Spec):
    prop = "C18"
    drv = "drv_c18"
    harness = "h_c18"
    required_theorems = ("C18.parallel_eq_seq", "C18.computation_root_eq", "C18.branch_verifies",
                         "C18.multilayer_ok", "C18.multilayer_total", "C18.multilayer_tiles",
                         "C18.mutated_complete", "C18.binding", "C18.binding_pattern", "C18.binding_nodup",
                         "C18.binding_dupcheck", "C18.dup_tail_same_root")
    claimed = True
    level_text = ("Lean theorems about the model of common/merkle/merkle.go for every list of hashes and every worker "
                  "count, over an arbitrary two-to-one function H2: chunked parallel root = sequential root "
                  "(parallel_eq_seq); streaming Computation root = sequential root without panic below 2^32 leaves "
                  "(computation_root_eq); every position's branch verifies (branch_verifies); child-chain roots, their "
                  "branches and the per-transaction branches verify, the child chains tile the transaction list and the "
                  "computation cannot panic on non-nil hashes (multilayer_ok, multilayer_tiles, multilayer_total); equal roots of "
                  "different lists imply that one list repeats a transaction and is rejected by the duplicate-transaction check of "
                  "PreExecBlock (DelDupTx), or an explicit H2 collision, or a leaf equal to an inner value (binding_dupcheck, "
                  "binding_nodup); the same with Computation's mutated flag (binding, mutated_complete) — a return value no caller "
                  "in /repo reads. The model is tied to the code by a byte-exact differential run (Lean SHA-256) under "
                  "taskset for 1,2,3,5,8,13,16 CPUs: roots for a stratified set of leaf counts up to 4096 (thorough: every "
                  "count), branches at many positions, duplicated-tail lists, mixed main/para transaction lists; the "
                  "predicates are evaluated on the implementation and the roots are compared across worker counts; the stored "
                  "para-tx table and header TxHash of blocks delivered to a real node are compared with the model as well.")
    level_note = ("H2 (double SHA-256 of the concatenation) is abstract in the theorems: binding concludes '... or Collision or "
                  "LeafIsInner' instead of assuming injectivity; leaves are 32-byte hashes (GetHashFromTwoHash's copy into a "
                  "64-byte buffer is modelled for 32-byte or nil arguments only); blockchain.getMultiLayerProofs is driven through a "
                  "non-mining testnode (ProcessBlock, then ProcQueryTxMsg for every transaction, proofs verified against the stored "
                  "header) — proofs of blocks stored in TransactionSort order verify, proofs of accepted unsorted peer blocks do not "
                  "(known finding); a duplicated-tail peer block (same TxHash) is delivered to the node and must be rejected "
                  "(observed: ErrTxDup) — the defence is the duplicate-transaction check, which needs ForkCheckTxDup active and "
                  "Exec.DisableTxDupCheck off, not the mutated flag; binding theorems need non-empty lists (the root of the empty "
                  "list is nil), computation/branch theorems fewer than 2^32 leaves (Go panics beyond: modelled); "
                  "worker counts above 16 are covered by the theorem only.")
    assumptions = (
        "GetHashFromTwoHash behaves as a function of its two 32-byte (or nil) arguments; sha256 is the Go standard library's",
        "runtime.NumCPU() equals the affinity set by taskset (checked: the harness prints the count it sees)",
        "goroutine completion order does not matter: each child root is stored at its own index (modelled as a pure map)",
        "the model is pure, Go's getMerkleRoot overwrites the slice it is given and appends into spare capacity: assumed that no "
        "caller reuses the argument afterwards (true of every in-repo caller; the harness passes a fresh copy and counts the overwrite)",
        "binding_dupcheck: the duplicate check compares tx.Hash(), the leaves after ForkRootHash are tx.FullHash(): equal full hashes "
        "are assumed to mean equal transactions (SHA-256 of the whole encoding, C16); only the in-block part (DelDupTx) is modelled",
    )
    NCPUS = (1, 2, 3, 5, 8, 13, 16)

    def __init__(self):
        self._roots = {}

    def runs(self, tier, seed):
        import os
        avail = len(os.sched_getaffinity(0))
        rs = []
        for k in self.NCPUS:
            if k > avail:
                continue
            rs.append(dict(env={}, args=("all" if k == 1 else "multi" if k in (3, 16) else "roots",),
                           prefix=("taskset", "-c", "0-%d" % (k - 1) if k > 1 else "0"), ncpu=k))
        # the real proof path of a node (ProcessBlock -> stored block + para-tx table -> ProcQueryTxMsg)
        rs.append(dict(env={}, args=("node",), ncpu=0))
        return rs

    def post(self, trace, run):
        # cross-run predicate: one leaf list has one root, whatever the worker count
        # (the run with one CPU is the sequential getMerkleRoot itself).
        for op, impl in zip(trace.ops, trace.impl):
            if not op.startswith("root "):
                continue
            _, k, spec = op.split(" ", 2)
            prev = self._roots.get(spec)
            if prev is None:
                self._roots[spec] = (k, impl)
            elif prev[1] != impl:
                trace.preds.append(("C18|GetMerkleRoot|root-depends-on-worker-count",
                                    "spec=%s ncpu=%s root=%s but ncpu=%s root=%s" % (spec, prev[0], prev[1], k, impl)))


SPEC = C18()
