from ..runner import Spec


class C18(Spec):
    prop = "C18"
    drv = "drv_c18"
    harness = "h_c18"
    required_theorems = ("C18.parallel_eq_seq", "C18.computation_root_eq", "C18.branch_verifies", "C18.multilayer_ok")
    claimed = True
    NCPUS = (1, 2, 3, 5, 8, 13, 16)

    def __init__(self):
        self._roots = {}

    def runs(self, tier, seed):
        import os
        avail = len(os.sched_getaffinity(0))
        rs = []
        for k in self.NCPUS:
            if k > avail:
                continue
            rs.append(dict(env={}, args=("all" if k == 1 else "multi" if k in (3, 16) else "roots",),
                           prefix=("taskset", "-c", "0-%d" % (k - 1) if k > 1 else "0"), ncpu=k))
        return rs

    def post(self, trace, run):
        # cross-run predicate: one leaf list has one root, whatever the worker count
        # (the run with one CPU is the sequential getMerkleRoot itself).
        for op, impl in zip(trace.ops, trace.impl):
            if not op.startswith("root "):
                continue
            _, k, spec = op.split(" ", 2)
            prev = self._roots.get(spec)
            if prev is None:
                self._roots[spec] = (k, impl)
            elif prev[1] != impl:
                trace.preds.append(("C18|GetMerkleRoot|root-depends-on-worker-count",
                                    "spec=%s ncpu=%s root=%s but ncpu=%s root=%s" % (spec, prev[0], prev[1], k, impl)))


SPEC = C18()
