from ..runner import Spec


class C19(Spec):
    prop = "C19"
    drv = "drv_c19"
    harness = "h_c19"
    required_theorems = ("C19.check_history_independent", "C19.checkPure_mask_congr", "C19.accepted_is_valid",
                         "C19.pub2addr_history_independent", "C19.isEnable_spec")
    level_text = ("Lean theorems: after ANY history of earlier queries and cache evictions, CheckAddress answers the "
                  "history-free verdict (incl. the exact error), a function of address, height (through the set of enabled "
                  "drivers) and driver table only; eth PubKeyToAddr answers the format for the current height applied to "
                  "the key's address after any history; isEnable is the pure height predicate. Tie: the real "
                  "common/address + eth/btc drivers + crypto.Load are driven with generated query histories under three "
                  "enable-height configurations; every answer is compared with the model (told each driver's own verdict), "
                  "with the same query in other histories, and with 12 history-free re-evaluations (Go map order).")
    level_note = ("driver verdicts (base58 / hex validation) are inputs of the model; LRU eviction is modelled as dropping "
                  "arbitrary entries; three defects found by this check were repaired in /repo (fix: commits 6b621aa, "
                  "e34835e, 450981d). crypto.Load's purity is checked only differentially (no cache in the code).")
    assumptions = ("address.Init is called once per process", "hashicorp/golang-lru only ever drops entries",
                   "'the height' of eth address formatting (PubKeyToAddr / FormatAddr / FormatAddrKey, hence Transaction.From and "
                   "account keys) is the process-global crypto-context height of common/crypto/client, which those functions read "
                   "because they take no height argument; the theorems are about the function of (input, context height, "
                   "configuration). That the context height equals the height of the block being validated is NOT established by "
                   "this check: the context is updated asynchronously from EventAddBlock messages, so a block at the "
                   "ForkFormatAddressKey boundary is executed with the previous (or, when the crypto module lags, an older) "
                   "context height. Only chains that activate that fork above height 0 are affected.",
                   "signature / transaction validity at height h (crypto.Load, CheckSign, dapp.CheckAddress, the btc driver "
                   "caches, execAddrCache) has no Lean theorem; it is covered by the differential run only")

    def runs(self, tier, seed):
        return [dict(env={"VERIF_C19_MODE": m}) for m in ("cfgA", "cfgB", "cfgC")]


SPEC = C19()
