from ..runner import Spec


class C20(Spec):
    prop = "C20"
    drv = "drv_c20"
    harness = "h_c20"
    required_theorems = ("C20.calcWork_antitone",)
    assumptions = (
        "math/big arithmetic behaves as Lean Int/Nat arithmetic",
        "bit operations of difficulty.go are modelled as div/mod by powers of two; the tie is the differential run",
    )


SPEC = C20()
