from ..runner import Spec


class C20(Spec):
    prop = "C20"
    drv = "drv_c20"
    harness = "h_c20"
    required_theorems = ("C20.calcWork_antitone",)
    level_text = ("Lean theorems about the model of CompactToBig/BigToCompact/CalcWork (work antitone in the target; "
                  "re-compaction canonical; round trip keeps the mantissa precision) for all inputs; the model is tied to "
                  "common/difficulty by a byte-exact differential run over every exponent x sign x mantissa edges, random "
                  "compacts and integers of byte length 0..300.")
    level_note = ("math/big behaves as Lean Int; bit operations modelled as div/mod; integers of >= 255 bytes are outside the "
                  "8-bit exponent field (documented limit, targets are <= 2^256).")
    assumptions = (
        "math/big arithmetic behaves as Lean Int/Nat arithmetic",
        "bit operations of difficulty.go are modelled as div/mod by powers of two; the tie is the differential run",
    )


SPEC = C20()
