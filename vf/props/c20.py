from ..runner import Spec


class C20(Spec):
    prop = "C20"
    drv = "drv_c20"
    harness = "h_c20"
    required_theorems = ("C20.calcWork_antitone", "C20.recompact_value", "C20.recompact_idem",
                         "C20.big_roundtrip_partial", "C20.big_roundtrip_sharp", "C20.big_roundtrip_full_false",
                         "C20.td_monotone", "C20.td_antitone", "C20.calcWork_antitone_needs_positive")
    partial = ("C20.big_roundtrip_partial: byte length <= 254",
               "C20.calcWork_antitone / C20.td_antitone: hypothesis 'the smaller target is positive' (a non-positive target has work 0 by definition)")
    refuted = ("C20.big_roundtrip_full_false: 2^2039 (255-byte integers overflow the 8-bit exponent)",
               "C20.calcWork_antitone_needs_positive: target 0 (work 0) <= target 1 (work 2^255)")
    level_text = ("Lean theorems about the model of CompactToBig/BigToCompact/CalcWork (work antitone in the target; "
                  "re-compaction canonical; round trip keeps the mantissa precision) for all inputs; the model is tied to "
                  "common/difficulty by a byte-exact differential run over every exponent x sign x mantissa edges, random "
                  "compacts and integers of byte length 0..300.")
    level_note = ("math/big behaves as Lean Int; bit operations modelled as div/mod; for integers of >= 255 bytes the exponent "
                  "overflows its 8-bit field: the full round-trip statement is refuted in Lean (big_roundtrip_full_false, witness "
                  "2^2039 replayed from corpus/C20) and proved with the bound byteLen <= 254 (big_roundtrip_partial); targets are <= 2^256.")
    assumptions = (
        "math/big arithmetic behaves as Lean Int/Nat arithmetic",
        "bit operations of difficulty.go are modelled as div/mod by powers of two; the tie is the differential run",
    )


SPEC = C20()
