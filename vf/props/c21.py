from ..runner import Spec


class C21(Spec):
    prop = "C21"
    drv = "drv_c21"
    harness = "h_c21"
    required_theorems = ("C21.remove_absent_unchanged",)
    level_text = "wip"
    level_note = "wip"
    assumptions = ()


SPEC = C21()
