from ..runner import Spec


class C21(Spec):
    prop = "C21"
    drv = "drv_c21"
    harness = "h_c21"
    lean_deps = ("C22", "C23")   # Model/C21Wire.lean (the shared driver) imports the three models
    required_theorems = (
        "C21.pool_inv", "C21.pool_inv_step", "C21.block_removed", "C21.block_removed_until_pushed",
        "C21.block_removed_not_invariant", "C21.push_fail_unchanged",
        "C21.remove_absent_unchanged", "C21.removeTxs_absent_unchanged", "C21.latest_has_newest",
        "C21.shash_lookup_sound", "C21.shash_agrees_partial", "C21.shash_agrees_full_false",
    )
    partial = ("C21.shash_agrees_partial",)
    refuted = ("C21.shash_agrees_full_false",)
    level_text = (
        "Lean theorems about a model of txCache (SimpleQueue + AccountTxIndex + LastTxCache + SHashTxCache + "
        "byte/fee counters) with one atomic step per lock-protected event (push, RemoveTxs, setHeader, expiry sweep, "
        "add-block, del-block re-push): the invariant `pool_inv` (no duplicate hash, size <= capacity, per-sender <= "
        "limit, sender index = contents grouped by sender, latest list a bounded sub-sequence of the contents, byte "
        "size and fee total = sums, short-hash index holds only pooled txs) is proved inductively for every event "
        "sequence; block txs are gone after add-block; refused pushes / absent removals change nothing. The "
        "short-hash clause is false as stated (S-C21: two txs with equal 5-byte prefix) - refuted on a witness that "
        "is replayed on the real code (known finding), and proved under the no-collision hypothesis. The model is "
        "tied to system/mempool by a differential run against the real Mempool on a queue with fake neighbours: "
        "the full bookkeeping state after every event is compared, and every invariant is evaluated on the "
        "implementation's own state (hook VerifDump) and through the exported observers.")
    level_note = (
        "every public operation holds proxyMtx for its whole body: composite events are modelled as sequences of "
        "atomic steps and the invariant is inductive per step; concurrent bursts (<= 6 overlapping calls of PushTx / "
        "RemoveTxs / RemoveTxsOfBlock / sweep / observers) are trace-validated: the driver must find a linearisation "
        "of the model's atomic steps reproducing every response and the final state (thorough tier: also under the "
        "race detector); score/price queues are "
        "out of scope (SimpleQueue only); block_removed speaks of the instant after the removal (absence lasts until "
        "the hash is pushed again - eventAddBlock is several lock sections, a submission already past CheckDupTx can "
        "re-enter; also eventAddBlock's own pushExpiredDelayTx re-submits delayed transactions after the sweep: the "
        "delayed-tx cache is not modelled); miner transactions in rolled-back blocks and the delayed-tx cache are not "
        "modelled; configuration: perAcc > 0, lastMax > 0 (NewMempool defaults), shMax = cap (timeline constructor).")
    assumptions = (
        "transactions are abstract records (hash, sender, size, fee, expire fields, short hash); the harness maps real signed transactions/groups to them",
        "each Mempool method body is atomic (it holds proxyMtx); concurrent runs are only trace-validated (bursts of <= 6 calls), the schedule is not controlled",
        "types.Now() is driven through the add-only hook types.VerifSetTimeDelta; pool state is read through mempool.VerifDump",
        "tx.Check results for rolled-back block candidates are oracle inputs of the model",
    )

    def runs(self, tier, seed):
        # sequential histories, then concurrent bursts validated as linearisable traces (DESIGN.md 1.6a);
        # thorough tier repeats the bursts under the Go race detector
        rs = [dict(env={}), dict(env={"VERIF_MODE": "burst"})]
        if tier == "thorough":
            from .. import core
            b, _log = core.go_build(self.harness, race=True)
            if b:
                rs.append(dict(env={"VERIF_MODE": "burst"}, binary=b))
        return rs


SPEC = C21()
