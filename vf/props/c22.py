from ..runner import Spec


class C22(Spec):
    prop = "C22"
    drv = "drv_c22"
    harness = "h_c22"
    lean_deps = ("C21",)
    required_theorems = ()
    level_text = "wip"
    level_note = "wip"


SPEC = C22()
