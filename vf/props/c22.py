from ..runner import Spec


class C22(Spec):
    prop = "C22"
    drv = "drv_c22"
    harness = "h_c22"
    lean_deps = ("C21", "C23")
    required_theorems = ("C22.admit_sound_partial", "C22.reject_no_change", "C22.admit_ok_iff_pushed",
                         "C22.admit_full_false", "C22.member_nonce_full_false")
    partial = ("C22.admit_sound_partial",)
    refuted = ("C22.admit_full_false", "C22.member_nonce_full_false")
    level_text = (
        "Lean theorems about a model of the admission path (checkTxs: fee minimum incl. tiered fee, per-member "
        "checkTx; checkSign; checkTxRemote: on-chain duplicates, executor check, evmTxNonceCheck; PushTx): "
        "`admit_sound_partial` - an admitted plain tx or group satisfies every clause of the property, for every member "
        "(six clauses under the hypothesis that the node does not forward the tx to the main chain; the nonce clause "
        "for the head only - both restrictions refuted on witnesses that the harness replays on the real code, two "
        "known findings), and the new pool is exactly push(record); `reject_no_change` - a rejected submission leaves the pool unchanged. "
        "Tied to the code by a differential run through the real EventTx pipeline: generated submissions with each "
        "clause violated in turn (singles and groups) against generated pool/chain states; reply and full pool "
        "state compared with the model, and the property predicate evaluated from the harness' own knowledge.")
    level_note = (
        "signature validity, recipient validity, blacklist hits, the chain's duplicate set, the executor verdict and "
        "current nonces are oracle inputs; group structure checks (header/next/count) and chain-id checks are not "
        "modelled (the harness builds well-linked groups with the right chain id); the pipeline's goroutine fan-out "
        "is exercised one submission at a time.")
    assumptions = (
        "one submission in flight at a time (the pipeline's worker fan-out is not explored): checkTxs and PushTx see the same pool",
        "IsForward2MainChainTx is an oracle bit per submission (harness: para-chain config, executor not user.p.verif.*); forward-by-action-name configuration is not exercised",
        "crypto drivers' verify behaves as the harness' knowledge of which signatures it corrupted",
        "fake blockchain / execs / rpc modules answer EventTxHashList / EventCheckTx / EventGetEvmNonce from harness-controlled tables",
    )


SPEC = C22()
