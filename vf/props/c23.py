from ..runner import Spec


class C23(Spec):
    prop = "C23"
    drv = "drv_c23"
    harness = "h_c23"
    lean_deps = ("C21",)
    required_theorems = ()
    level_text = "wip"
    level_note = "wip"


SPEC = C23()
