from ..runner import Spec


class C23(Spec):
    prop = "C23"
    drv = "drv_c23"
    harness = "h_c23"
    lean_deps = ("C21", "C22")
    required_theorems = ("C23.len_le_count", "C23.nodup", "C23.excluded_absent", "C23.none_expired",
                         "C23.non_eth_keep_order", "C23.eth_consecutive_partial", "C23.eth_up_to_first_gap_partial",
                         "C23.eth_consecutive_full_false_para", "C23.eth_consecutive_full_false_prefork")
    partial = ("C23.eth_consecutive_partial", "C23.eth_up_to_first_gap_partial")
    refuted = ("C23.eth_consecutive_full_false_para", "C23.eth_consecutive_full_false_prefork")
    level_text = (
        "Lean theorems about a model of getTxList/filterTxList (walk in arrival order, exclusion set, isExpired for "
        "the next block by age/height/time/TxHeight, count cut) and sortEthSignTyTx (per-sender nonce chains from "
        "the current nonce), for EVERY duplicate-free iteration order of the Go map of eth senders: at most `count` "
        "entries, no duplicates, no excluded hash, none expired, non-eth entries kept in arrival order, each eth "
        "sender's entries carry consecutive nonces from its current nonce. Tied to the code by a differential run of "
        "EventTxList / EventGetMempool on the real Mempool over generated pools (mixed signature types, nonce gaps "
        "and repeats, expiring txs), counts, exclusion lists, heights and clock values; the canonicalised list is "
        "compared and the predicate evaluated on every returned list.")
    level_note = (
        "nonce ordering is proved for eth-signed transactions with a main-chain executor and with ForkCheckEthTxSort "
        "active (both restrictions are in the code and refuted as full statements; the para-executor case is replayed "
        "on the real code as a known finding, the pre-fork case cannot be driven with the default config whose fork "
        "height is 0 - tie only above the fork); len_le_count needs count > 0 (count <= 0 is refused by EventTxList); "
        "the current-nonce oracle (rpc EventGetEvmNonce) is a parameter; `nodup` assumes a pool without duplicate "
        "hashes (C21.pool_inv); output order across eth senders follows Go map order and is canonicalised by sender "
        "before comparison (the theorems quantify over that order).")
    assumptions = (
        "Go map iteration order over eth senders is an arbitrary duplicate-free list",
        "types.Now() is driven through the add-only hook types.VerifSetTimeDelta",
    )


SPEC = C23()
