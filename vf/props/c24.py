from ..runner import Spec


class C24(Spec):
    prop = "C24"
    drv = "drv_c24"
    harness = "h_c24"
    required_theorems = ()
    level_text = ("WORK IN PROGRESS")
    level_note = ""
    assumptions = ()


SPEC = C24()
