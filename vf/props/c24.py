from ..runner import Spec


class C24(Spec):
    prop = "C24"
    drv = "drv_c24"
    harness = "h_c24"
    required_theorems = (
        "C24.lanes_inv",
        "C24.lanes_sorted_nested",
        "C24.lane0_eq_sorted_insert",
        "C24.find_correct",
        "C24.update_array_correct",
        "C24.queue_refines_sortedlist",
        "C24.queue_step_refines",
        "C24.queue_observers",
        "C24.reference_order",
        "C24.reference_capacity",
        "C24.reference_eviction",
        "C24.queue_order_capacity",
        "C24.ties_in_arrival_order",
    )
    level_text = (
        "Lean theorems about the model of common/skiplist: the skip list as lanes over one node list (lane i = nodes of "
        "level > i) with the Go code's descending multi-lane search; for every op sequence and every choice of node "
        "levels >= 1 the lanes invariant is preserved by Insert/Delete, the search equals the linear scan, the bottom lane "
        "is the stable sorted insert / first-match delete, and Queue.Push/Remove (bucket per score, txMap, cacheBytes, "
        "evict-if-better) refine a reference stable sorted list whose order, capacity and eviction rule are proved; "
        "Walk/First/Last/Exist/GetItem/Size/bytes are functions of that list. The model is tied to the Go code by a "
        "differential run that feeds the observed level of every new node to the model and compares, after every op, "
        "results, walk order, first/last, size, bytes, node levels, every lane (through the VerifLanes accessor) and "
        "the prev chain; the C24 predicate is evaluated on the implementation against an independent reference list.")
    level_note = (
        "Pointer layer (next[]/prev/tail) is not modelled as pointers: it is determined by the bottom lane + levels and "
        "tied by the lane dump. Scorer.Compare of the harness items is a priority comparison; int64 scores/bytes are Lean "
        "Int (no arithmetic on scores; byte sizes small). Capacity <= 0 panics in Push (nil Last) - mirrored, not a predicate.")
    assumptions = (
        "randomLevel returns a level in 1..32 (the model and theorems take any level >= 1; the observed level is fed to the model)",
        "Scorer items are immutable while queued (GetScore/Hash/ByteSize constant)",
        "cacheBytes does not overflow int64",
    )


SPEC = C24()
