from ..runner import Spec


class C25(Spec):
    prop = "C25"
    drv = "drv_c25"
    harness = "h_c25"
    required_theorems = ("C25.connect_disconnect_inverse", "C25.reorg_lands", "C25.persisted_is_view",
                         "C25.tip_is_max", "C25.tie_keeps_tip", "C25.accepted_closure", "C25.order_independent")
    partial = ()
    refuted = ()
    quick_timeout = 600
    thorough_timeout = 3600
    level_text = ("Lean theorems about the model of ProcessBlock / orphan pool / connectBestChain / reorganizeChain: for EVERY "
                  "finite tree of valid blocks and EVERY delivery sequence over it (any order, duplicates) containing each "
                  "block, if the heaviest block is unique and at least the margin above the finalised height, the best chain "
                  "is its branch and height index, last height, tx index, stored blocks and total difficulties equal those of "
                  "a fresh node fed only that branch in order (order_independent); plus reorg_lands, tip_is_max, the orphan "
                  "lemma, connect/disconnect inverse. Tie: generated block trees above a short trunk minted on a producer "
                  "testnode, delivered in generated orders to fresh non-mining testnodes; results, tip, height->hash, TDs, "
                  "orphan pool, tx lookups, sequence log compared with the Lean driver; the property predicate (tip = unique "
                  "heaviest eligible branch; persisted chain = fresh node fed the winning branch) evaluated on the implementation.")
    level_note = ("all delivered blocks are valid (execution succeeds); index/orphan cache limits, orphan expiry, restart, "
                  "EnableBestBlockCmp and a finaliser moving up during the run are outside the model (the model's downward "
                  "reset is covered); finalised height 0 (no finaliser configured) in the tie; the tx index is modelled as "
                  "tx hash -> height (TxResult index/receipt, address indexes and the state read at the tip are compared "
                  "on the implementation only: fresh-node snapshot).")
    assumptions = (
        "delivered blocks are valid and execute successfully (invalid blocks are C27)",
        "index cache (102400), best-chain cache (10240), orphan pool limit (10240) and orphan expiry (10 min) are not reached",
        "no restart between deliveries; EnableBestBlockCmp off; finalised height fixed",
        "difficulty.CalcWork behaves as C20.calcWork (tied by C20)",
    )

    def runs(self, tier, seed):
        return [dict(env={})]


SPEC = C25()
