from ..runner import Spec


class C25(Spec):
    prop = "C25"
    drv = "drv_c25"
    harness = "h_c25"
    required_theorems = ("C25.connect_disconnect_inverse", "C25.reorg_lands", "C25.persisted_is_view",
                         "C25.tip_is_max", "C25.tie_keeps_tip", "C25.accepted_closure", "C25.order_independent",
                         "C25X.order_independent_events", "C25X.noPoolBound_false", "C25X.noTimeBound_false",
                         "C25X.finalFinSuffices_false", "C25X.probe_finish", "C25X.crun_sequential",
                         "C25X.orderIndependentConcurrent_false")
    refuted = ("C25X.noPoolBound_false", "C25X.noTimeBound_false", "C25X.finalFinSuffices_false",
               "C25X.orderIndependentConcurrent_false")
    partial = ("C25.order_independent", "C25X.order_independent_events")
    quick_timeout = 600
    thorough_timeout = 3600
    level_text = ("Lean theorems about the model of ProcessBlock / orphan pool / connectBestChain / reorganizeChain: for EVERY "
                  "finite tree of valid blocks and EVERY delivery sequence over it (any order, duplicates) containing each "
                  "block, if the heaviest block is unique and at least the margin above the finalised height, the best chain "
                  "is its branch and height index, last height, tx index, stored blocks and total difficulties equal those of "
                  "a fresh node fed only that branch in order (order_independent); plus reorg_lands, tip_is_max, the orphan "
                  "lemma, connect/disconnect inverse. Tie: generated block trees above a short trunk minted on a producer "
                  "testnode, delivered in generated orders to fresh non-mining testnodes; results, tip, height->hash, TDs, "
                  "orphan pool, tx lookups, sequence log compared with the Lean driver; the property predicate (tip = unique "
                  "heaviest eligible branch; persisted chain = fresh node fed the winning branch) evaluated on the implementation.")
    level_note = ("all delivered blocks are valid (execution succeeds). Extension layer (Model/C25Ext): moving finaliser "
                  "(snowmanAcceptBlock + downward reset), orphan pool limit/expiry (AddOrphanBlock incl. the stale "
                  "oldestOrphan pointer), clock, restart - tied on the real node (finaliser driven by EventSnowmanAcceptBlk, "
                  "clock by types.VerifSetTimeDelta, maxOrphanBlocks/orphanExpirationTime read from orphanpool.go). "
                  "order_independent_events needs: |tree| <= maxOrphanBlocks, run shorter than the orphan expiry, no "
                  "restart, margin measured against the HIGHEST finalised height of the run - each shown necessary by a "
                  "refuting witness (noPoolBound_false, noTimeBound_false, finalFinSuffices_false). Index/best-chain cache "
                  "limits (102400/10240), EnableBestBlockCmp are outside the model; TxResult index/receipts, address "
                  "indexes and the state at the tip are compared on the implementation only.")
    assumptions = (
        "ProcessBlock calls are SERIALISED (deliverAll/runX fold whole ProcessBlock calls). The node itself runs one "
        "goroutine per block message and the first half of ProcessBlock is outside chainLock: with overlapping calls "
        "order_independent is false (C25X.orderIndependentConcurrent_false; reproduced on the real node, findings.d/C25.json)",
        "delivered blocks are valid and execute successfully (invalid blocks are C27)",
        "index cache (102400) and best-chain cache / InitBlockNum (10240) are not reached",
        "convergence: tree no larger than maxOrphanBlocks, run shorter than orphanExpirationTime, no restart (explicit hypotheses, witnesses show they are needed)",
        "EnableBestBlockCmp off; orphans arrive at strictly increasing clock readings",
        "difficulty.CalcWork behaves as C20.calcWork (tied by C20)",
    )

    RACE_SIG = "C25|ProcessBlock|concurrent-child-stranded-in-orphan-pool"

    def runs(self, tier, seed):
        rs = [dict(env={})]
        # the concurrent-delivery experiment (timing dependent) only runs once its finding is listed:
        # a reproduction is then reported as KNOWN-FINDING, never as a fresh VIOLATION
        from .. import core
        if self.RACE_SIG in core.known_signatures("C25"):
            rs.append(dict(env={"VERIF_C25_RACE": "2000,0" if tier == "thorough" else "300,0"}))
        return rs


SPEC = C25()
