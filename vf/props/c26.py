from ..runner import Spec


class C26(Spec):
    prop = "C26"
    drv = "drv_c25"          # same op language and driver as C25 (the log is part of the chain model)
    harness = "h_c26"
    lean_deps = ("C25", "C29")
    required_theorems = ("C26.seq_consecutive", "C26.seq_no_reuse", "C26.replay_eq_best", "C26.replay_eq_chain",
                         "C26.seq_consecutive_events", "C26.seq_no_reuse_events", "C26.replay_eq_chain_restart")
    partial = ()
    refuted = ()
    quick_timeout = 600
    thorough_timeout = 3600
    level_text = ("Lean theorems about the model of saveBlockSequence/SaveBlock/DelBlock inside the C25 chain model: for ANY "
                  "sequence of delivered blocks the sequence numbers are consecutive from 0 without gaps or reuse and the "
                  "replay of the add/delete records yields the best chain; tied to blockchain/ by the C25 differential run "
                  "with sequence recording on (GetBlockSequences / LoadBlockLastSequence / GetSequenceByHash compared with "
                  "the model after every delivery), and the predicate (consecutive numbering, replay = height->hash, "
                  "hash->seq points at the latest add record) evaluated on the implementation.")
    level_note = ("numbering/append-only: any blocks, any events incl. restarts, finaliser requests, orphan evictions; "
                  "replay = height index across restarts: deliveries from a block tree (uses the lock-step relation of "
                  "C29 between a restarted and a clean node), finalised height 0. Restart tied on the real node (close + "
                  "reopen on the same directory). Parachain main-sequence records are not modelled.")
    assumptions = (
        "ProcessBlock calls are serialised (as C25); connectBlock/disconnectBlock themselves run under chainLock, so the "
        "log invariants do not depend on it, but the run-level statements are about non-overlapping deliveries",
        "delivered blocks execute successfully; chains shorter than InitBlockNum (10240)",
        "LevelDB batch atomicity: the sequence record is written in the same batch as the block",
        "parachain mode (main-chain sequence records) is not modelled",
    )

    def runs(self, tier, seed):
        return [dict(env={})]


SPEC = C26()
