from ..runner import Spec


class C27(Spec):
    prop = "C27"
    drv = "drv_c27"
    harness = "h_c27"
    lean_deps = ("C25", "C20")
    required_theorems = ("C27.best_chain_only_executed", "C27.best_chain_linked", "C27.reject_tip_extension_noop", "C27.reject_orphan_placement_noop",
                         "C27.reject_processed_orphan_noop", "C27.reject_side_placement_noop", "C27.reject_no_fork_noop",
                         "C27.no_fork_regression_old_connectBestChain", "C27.reject_noop_full_false",
                         "C27.no_poisoning_full_false", "C27.no_poisoning_partial",
                         "C27.rejected_body_not_served_full_false")
    partial = ("C27.reject_tip_extension_noop", "C27.reject_orphan_placement_noop", "C27.reject_processed_orphan_noop",
               "C27.reject_side_placement_noop", "C27.reject_no_fork_noop", "C27.no_poisoning_partial")
    refuted = ("C27.reject_noop_full_false", "C27.no_poisoning_full_false", "C27.rejected_body_not_served_full_false")
    quick_timeout = 900
    thorough_timeout = 5400
    level_text = ("Lean theorems about a model of ProcessBlock / maybeAcceptBlock / dbMaybeStoreBlock / connectBestChain / "
                  "reorganizeChain / connectBlock.handleErrBlk with block hash = H(header) only and the execution verdict as "
                  "an arbitrary (state-dependent) parameter: for ANY sequence of deliveries (any bodies under any headers, any "
                  "source, any order) every block on the best chain passed execution (best_chain_only_executed); an invalid "
                  "block extending the tip leaves best chain, state and indexes unchanged in any node state "
                  "(reject_tip_extension_noop). The three remaining clauses of the property are FALSE of model and code and "
                  "refuted on concrete witnesses that are replayed on the real code: a rejected block that triggers a "
                  "reorganisation changes the chain (S-C27c), a tampered body under the genuine header poisons the hash "
                  "(S-C27a/b, orphan variant), the rejected body stays served under the hash; partial: no poisoning for the "
                  "download path on a tip extension. Tie: every header-field and body mutation of minted valid blocks, as tip "
                  "extension / side branch / orphan / last block of a heavier branch, broadcast or sync or download, with none / "
                  "some / ALL of the block's transactions in the receiving node's mempool, the duplicate-tail mutant minted "
                  "with the tx and state roots its body really gives, optionally a node restart, then the "
                  "genuine block (header roots also EMPTY, one byte short / long, all-zero); ProcessBlock result, tip, height index, bodies by height and by hash, TDs, orphan pool and "
                  "tx index compared with the Lean driver; the property predicates evaluated on the implementation.")
    level_note = ("validity (signatures, duplicates, tx root, state root, consensus check) enters the model as oracle inputs "
                  "per block/transaction, re-derived from the real objects by the harness; self-produced blocks "
                  "(errReturn=false), transaction groups, restart, cache limits, the dangling parent pointer after "
                  "index.DelNode and fault-peer bookkeeping are outside the model; finalised height 0 in the tie.")
    assumptions = (
        "ProcessBlock calls are SERIALISED: the model is sequential, while the node dispatches EventSyncBlock / "
        "EventBroadcastAddBlock / EventAddBlockDetail with `go chain.processMsg` and the first half of ProcessBlock "
        "(blockExists, IsKnownOrphan, AddOrphanBlock) runs outside chainLock; the tie delivers one block at a time",
        "header law for best_chain_linked: Block.Hash covers parent hash and height; no block hash equals genesis' parent hash",
        "PreExecBlock's checks are modelled as an ordered list of oracle inputs (Model/C27.lean preExec); the oracle inputs "
        "of every generated case are recomputed from the real transactions/blocks by the harness",
        "index cache (102400), orphan pool limit/expiry not reached; EnableBestBlockCmp off; restart modelled for chains "
        "shorter than InitBlockNum (index rebuilt from the main chain, orphan pool / error log / mempool empty)",
        "after index.DelNode (download path) no further descendants of the deleted node are delivered in the tie",
        "difficulty.CalcWork behaves as C20.calcWork (tied by C20)",
    )

    def runs(self, tier, seed):
        return [dict(env={})]


SPEC = C27()
