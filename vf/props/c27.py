from ..runner import Spec


class C27(Spec):
    prop = "C27"
    drv = "drv_c27"
    harness = "h_c27"
    lean_deps = ("C25",)
    required_theorems = ()
    partial = ()
    refuted = ()
    quick_timeout = 900
    thorough_timeout = 5400
    level_text = ("TODO")
    level_note = ("TODO")
    assumptions = ()

    def runs(self, tier, seed):
        return [dict(env={})]


SPEC = C27()
