from ..runner import Spec


class C28(Spec):
    prop = "C28"
    drv = "drv_c28"
    harness = "h_c28"
    lean_deps = ("C25", "C27")
    required_theorems = ()
    partial = ()
    refuted = ()
    quick_timeout = 900
    thorough_timeout = 5400
    level_text = ("TODO")
    level_note = ("TODO")
    assumptions = ()

    def runs(self, tier, seed):
        return [dict(env={})]


SPEC = C28()
