from ..runner import Spec


class C28(Spec):
    prop = "C28"
    drv = "drv_c28"
    harness = "h_c28"
    lean_deps = ("C25", "C27", "C20")
    required_theorems = ("C28.chain_tx_unexpired_fee_chainid", "C28.chain_tx_signed",
                         "C28.chain_tx_signed_regression_old_preExec", "C28.chain_tx_unique", "C28.txheight_window_cached",
                         "C28.produced_block_clean")
    partial = ("C28.chain_tx_unexpired_fee_chainid", "C28.chain_tx_signed", "C28.chain_tx_unique",
               "C28.txheight_window_cached")   # hypothesis hns: no self-produced blocks among the deliveries
    refuted = ()
    quick_timeout = 900
    thorough_timeout = 5400
    level_text = ("Lean theorems about the C27 chain model instantiated with a model of PreExecBlock's order of checks "
                  "(signature verification for every transaction except those the mempool holds as the very same signed "
                  "transaction — repo fix 28243c8; DelDupTx + chain "
                  "lookup through the tx index / the TxHeight window cache; executor checkTx: expiry at block height/time, fee, "
                  "chain id; tx root; state root; consensus check): for ANY sequence of deliveries (valid or not, any order, "
                  "reorganisations) and mempool events, every transaction on the best chain is unexpired and passes fee and "
                  "chain-id checks (chain_tx_unexpired_fee_chainid); no transaction hash occurs twice on the best chain, TxHeight "
                  "transactions and tampered bodies included (chain_tx_unique, FULL: from the invariant that the running "
                  "TxHeight cache contains the last hi+lo blocks' transactions across connect / disconnect / reorganize / "
                  "restart, txheight_window_cached; hypotheses: Hash() covers Expire, Block.Hash covers parent and height); every transaction is "
                  "correctly signed, assuming only that the mempool admits verified transactions — re-insertion by "
                  "mempool.delBlock is covered by the proof (chain_tx_signed, full); what the "
                  "node keeps of a body offered to its own block production is duplicate-free, unexpired and fee/chain-id "
                  "clean in any state (produced_block_clean). "
                  "S-C28 (exemption by Hash() alone: key-substituted copy of a pooled transaction accepted, victim debited) was "
                  "found by this check, repaired in /repo (28243c8) and is kept as a regression witness over the old rule "
                  "and as corpus replay (now ErrSign). Tie: generated submission histories (duplicates in one block / later "
                  "block / after reorganisation, TxHeight inside and outside small windows, expired, low-fee, wrong chain id, "
                  "unpayable, mis-signed with and without the hash in the pool; well-formed transaction GROUPS of 2..20 members "
                  "paying the per-member fee sum, one unit less, the summed-size figure, in between) offered as peer blocks and to the node's own "
                  "block production (ExecBlock with errReturn=false on the tip), with none / some / ALL of a block's "
                  "transactions in the receiving node's mempool, and across node RESTARTS on the same data directory "
                  "(InitCache rebuild of the TxHeight window cache; quick: one history with 140 blocks between packing and "
                  "restart plus restarts inside short small-window histories, thorough: gaps 125..160); results, surviving transactions, chain, "
                  "bodies, tx index, pool membership compared with the Lean driver; the best chain of the implementation "
                  "scanned for the property predicate.")
    level_note = ("transaction attributes (signature valid, fee/chain ok, expiry class, hash class) are oracle inputs "
                  "re-derived from the real transactions by the harness; mempool admission itself is C22's subject (the "
                  "harness only submits admissible transactions); the mempool's block events are applied synchronously in "
                  "the model (generated cases do not depend on EventDelBlock timing); transaction groups and para-chain "
                  "transactions are not generated.")
    assumptions = (
        "ProcessBlock calls are SERIALISED: the model is sequential, while the node dispatches EventSyncBlock / "
        "EventBroadcastAddBlock / EventAddBlockDetail with `go chain.processMsg` and the first half of ProcessBlock "
        "(blockExists, IsKnownOrphan, AddOrphanBlock) runs outside chainLock; the tie delivers one block at a time",
        "blocks arrive from peers or the download path (hypothesis hns of every chain theorem): blocks the node produces "
        "itself (PreExecBlock with errReturn=false) are covered by produced_block_clean (single step) and by the tie's "
        "`produce` op only",
        "hash laws (chain_tx_unique, txheight_window_cached): Transaction.Hash() covers Expire; Block.Hash covers parent "
        "hash and height; genesis: height 0, no transactions, parent hash is no block's hash; hi+lo >= 1",
        "the mempool admits correctly signed transactions only (hypothesis hpool of chain_tx_signed; C22's subject)",
        "same model and assumptions as C27 (chain control flow), execution verdict = Model/C27.lean preExec over oracle inputs",
        "mempool block events (EventAddBlock/EventDelBlock) take effect before the next block is executed",
        "restart: index and best-chain view are rebuilt from the whole main chain (chains shorter than InitBlockNum=10240); "
        "deep forks after a restart are not tied",
        "transaction groups: coins transfers of one signer, fee verdict = per-member sum recomputed by the harness; no para-chain transactions; ForkCheckTxDup, ForkTxHeight, ForkTxChainIDStrict active (local test chain)",
    )

    def runs(self, tier, seed):
        return [dict(env={})]


SPEC = C28()
