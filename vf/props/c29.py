from ..runner import Spec


class C29(Spec):
    prop = "C29"
    drv = "drv_c29"
    harness = "h_c29"
    lean_deps = ("C25",)
    required_theorems = ("C29.crash_prefix_consistent", "C29.writes_replay_run")
    partial = ()
    refuted = ()
    quick_timeout = 3600
    thorough_timeout = 14400
    level_text = ("placeholder")
    level_note = ("placeholder")
    assumptions = (
        "LevelDB batch atomicity and durability of completed writes (process crash, not power loss; fsync/torn writes inside LevelDB are not modelled)",
    )

    def runs(self, tier, seed):
        return [dict(env={})]


SPEC = C29()
