from ..runner import Spec


class C29(Spec):
    prop = "C29"
    drv = "drv_c29"
    harness = "h_c29"
    lean_deps = ("C25", "C26")
    required_theorems = ("C29.crash_prefix_consistent", "C29.writes_replay_run", "C29.resume_converges_partial",
                         "C29.resume_full_false", "C29.resume_suffix_only_false")
    partial = ("C29.resume_converges_partial",)
    refuted = ("C29.resume_full_false", "C29.resume_suffix_only_false")
    quick_timeout = 3600
    thorough_timeout = 14400
    level_text = ("Lean theorems about the write-sequence model of block connection (durable state = blockchain db + state "
                  "store; an execution = the sequence of atomic durable writes emitted by ProcessBlock: store-block batch, "
                  "state batch of ExecBlock, connect batch, disconnect batch; crash n = state after the first n writes; recover = "
                  "the start-up logic), built on the C25 chain model: for EVERY delivery history over a block tree and EVERY "
                  "crash point, start-up succeeds and the recovered best chain is exactly the chain the run had reached after "
                  "that write (inside a reorganisation: common prefix + part attached so far), height / last block / "
                  "height->hash / tx index / stored blocks / total difficulties are mutually consistent, the state of every "
                  "chain block is in the store and the surviving sequence log is gap-free and replays (C26) to the recovered "
                  "chain (crash_prefix_consistent); continuing delivery from the recovered node reaches the "
                  "same final chain as the uninterrupted run IF the heaviest block is unique and at least the margin high and "
                  "every block is delivered again (resume_converges_partial, by a lock-step simulation with a fresh node fed "
                  "the recovered chain + C25.order_independent); the unconditional clause is REFUTED: with a total-difficulty "
                  "tie at the top the resumed node ends on the other, equally heavy branch (resume_full_false, replayed on the "
                  "real code by corpus/C29/tie-resume.ops -> finding), and re-delivering only the not-yet-delivered blocks "
                  "strands the successors of forgotten side-chain blocks in the orphan pool (resume_suffix_only_false); replaying all writes yields the C25 final state "
                  "(writes_replay_run). Tie: a goleveldb wrapper (build tag verif) counts/logs every durable write of the "
                  "blockchain and store databases; the uninterrupted run's write classes are compared with the model's write "
                  "sequence; the history is re-run in child processes killed right after the k-th write (quick: stratified "
                  "sample incl. every write class inside reorganisations; thorough: every k), a node is restarted on the "
                  "surviving directories, the C29 predicate is evaluated on it (restart ok; recovered chain = chain of the "
                  "written prefix; node identical to a fresh node fed that chain: headers, bodies, receipts, tx lookups, TDs, "
                  "account state; every key of the tip state readable; sequence log replays; resumed node = uninterrupted "
                  "final node) and recovered state and resumed deliveries are compared with the Lean driver.")
    level_note = ("LevelDB batch atomicity and durability of completed writes are assumed (process crash between writes, not "
                  "power loss/torn writes); in-flight goroutines (wallet, mempool, push) and their databases are outside the "
                  "model; all delivered blocks are valid; the state store is modelled at the granularity 'state tree of block b "
                  "completely present' (a state batch adds the nodes new relative to the parent's tree); no finaliser is configured: "
                  "the finaliser's own point writes (finalizer.setFinalizedBlock / reset -> snowChoiceKey) are NOT in the write "
                  "model (none occurs in the logged runs) and recover restarts from the initial finalised height, so "
                  "resume_converges_partial is stated for finalised height 0; ProcessBlock calls are serialised (one delivery "
                  "completes before the next starts), as in C25; cache/orphan-pool limits of C25 not reached; sequence recording on or off, push subscription off.")
    assumptions = (
        "LevelDB applies each batch atomically and a completed write survives a process crash (fsync/torn writes not modelled)",
        "delivered blocks are valid and execute successfully; C25's cache and orphan-pool limits are not reached",
        "no finaliser configured: finalised height 0, no finalizer.setFinalizedBlock/reset point writes (not in the write model; recover uses the initial finalised height)",
        "resume: unique heaviest block at least the margin high, and after restart every block is delivered again (block synchronisation re-requests unknown parents)",
        "ProcessBlock calls are serialised: deliveries are atomic steps (in the node they are dispatched on goroutines and the orphan/exists checks run outside chainLock)",
        "wallet/mempool/push goroutines and databases other than blockchain and store are outside the model",
        "difficulty.CalcWork behaves as C20.calcWork (tied by C20)",
    )

    def runs(self, tier, seed):
        return [dict(env={})]


SPEC = C29()
