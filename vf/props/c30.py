from ..runner import Spec


class C30(Spec):
    prop = "C30"
    drv = "drv_c30"
    harness = "h_c30"
    required_theorems = (
        "C30.limit_is_latest_fork",
        "C30.count_le_max",
        "C30.size_le_bound",
        "C30.encoded_le_maxBlockSize",
        "C30.groups_atomic",
        "C30.order_sublist",
        "C30.blacklisted_skipped",
        "C30.expire_removes_whole_groups",
        "C30.expire_removes_whole_groups_partial",
        "C30.expire_removes_whole_groups_full_false",
        "C30.expire_decodable_header_regression",
        "C30.encoded_bound_needs_limit",
        "C30.expire_truncated_group_kept",
    )
    partial = ("C30.expire_removes_whole_groups_partial", "C30.encoded_le_maxBlockSize", "C30.expire_removes_whole_groups")
    refuted = ("C30.expire_removes_whole_groups_full_false", "C30.encoded_bound_needs_limit", "C30.expire_truncated_group_kept")
    level_text = (
        "Lean theorems, for every configuration, height, prefilled block and pool list, about the model of "
        "BaseClient.AddTxsToBlock (count <= per-height limit; accumulated Size <= MaxBlockSize-100000 and encoded block "
        "<= MaxBlockSize; result = expansion of a sub-list of pool entries, i.e. groups whole-or-nothing and order kept; "
        "no blacklisted transaction or group once the fork is active) and of CheckTxExpire (well-formed expanded list: "
        "exactly the segments without an expired member survive; the statement with field-level expiry is refuted on a "
        "model witness and proved under 'no member Header decodes as that member's own packed group (GroupCount members all carrying GroupCount)'; regression theorem for the two repaired decodable-hash cases). The model is tied to system/consensus/base.go, "
        "cfg.GetP and the fork gate by a differential run on real types.Transaction values and groups (CreateTxGroup, "
        "signed with secp256k1) at counts/sizes on and around the limits, heights around the maxTxNumber forks and the "
        "blacklist fork, malformed group headers; the C30 predicates are evaluated on the implementation's block.")
    level_note = (
        "Transactions are abstracted to (id, Size(), touches-blacklisted-account); address matching of the blacklist is "
        "C31's subject. GetTxGroup/Size/IsExpire inputs are described by the harness through the repo's own functions. "
        "No finding remains after repairs c2f0f61/879d416: the ground empty-decoding and one-garbage-tx-decoding group hashes are rebuilt in every run and must be removed; a forged 32-byte Header that passes isPackedGroupOf is run differentially only (as a real hash it needs ~2^48 trials, not exhibited).")
    assumptions = (
        "configuration: maxTxNumber <= 20000 at every height (stock configs <= 10000) - needed for the encoded-size clause "
        "(encoded_le_maxBlockSize; encoded_bound_needs_limit refutes it for maxTxNumber = 100000, replayed on the code)",
        "CheckTxExpire is given a well-formed expanded list (singles and whole groups, as AddTxsToBlock produces); a truncated "
        "trailing group is kept unchecked (expire_truncated_group_kept, replayed differentially) - no caller in /repo passes one",
        "Transaction.Size() and GetTxGroup() are taken as given inputs (described per transaction by the harness)",
        "the blacklist core check is abstracted to a per-transaction flag; only the fork gate is modelled",
        "proto framing of Block.txs (1 tag byte + length varint) modelled by framed; per-tx Size < 2^28 follows from the bound",
    )


SPEC = C30()
