from ..runner import Spec


class C30(Spec):
    prop = "C30"
    drv = "drv_c30"
    harness = "h_c30"
    required_theorems = ()
    level_text = ("WORK IN PROGRESS")
    level_note = ""
    assumptions = ()


SPEC = C30()
