from ..runner import Spec


class C31(Spec):
    prop = "C31"
    drv = "drv_c31"
    harness = "h_c31"
    required_theorems = ("C31.core_iff_touches", "C31.exec_ok_not_blocked", "C31.old_executor_runs_forwarded_blocked", "C31.exec_before_activation", "C31.proxied_outer_not_checked", "C31.delay_admits_proxied_blocked", "C31.pool_para_forwarded_unchecked", "C31.pool_rejects_always",
                         "C31.spelling_invariant", "C31.realExec_user_evm", "C31.core_spelling_invariant", "C31.old_pool_admits_proxied_blocked",
                         "C31.producer_skips_blocked", "C31.delay_rejects_always")
    quick_timeout = 1200
    level_text = ("Lean theorems about the model of the account blacklist: the four-position check "
                  "(checkTxBlockedAccountCore + checkEVMTxBlockedTarget) reports a hit exactly when sender, recipient, real "
                  "recipient, EVM contract address or 20-byte EVM target denotes a listed 20-byte account, for every blacklist, "
                  "transaction and spelling (the verdict depends on texts only through their parse); at an active height every "
                  "receipt other than ExecErr - single transaction, every group member, the inner transaction of a proxied one - "
                  "belongs to a transaction touching no listed account; the producer takes no such transaction; the pool, at "
                  "any height, accepts no submission (single, group member, delayed) touching a listed account nor a proxy-exec "
                  "submission (Ethereum sign id, To = exec.proxyExecAddress, real executor evm, payload Para decodes as a "
                  "transaction) whose inner transaction does - full after fix 1445781 in /repo (found by this check; the old pool "
                  "is kept as a regression witness). "
                  "An EVM position is decided by the modelled GetRealExecName (evm, user.evm.<name>, user.p.<title>.evm, user.p.<title>.user.evm.<name>; not xevm, user.evmx, user.write.evm ...), compared with the real function. Heights are numbers (active iff height >= fork height). Declared, with witness theorems and tie observations: the executor does not look at the OUTER transaction of a proxied item (its payload is never executed; producer and pool do check it); a delayed proxy-exec transaction is cached and only rejected when its delay expires (checkTxs unwraps then); a para node's pool passes forwarded submissions on unchecked (they are meant for the main chain). Para-chain forwarded transactions (IsForward2MainChainTx) are part of the consensus theorem: executor.checkTx applies the rule to them since fix d931b79 (the bypass found by this check is kept as a regression witness). Tie: types.CheckTxBlockedAccount/Immediate on every position x 9 spellings x blacklist entries in the same "
                  "spellings x before/at/after activation on a main-chain and a para-chain configuration; on a real testnode "
                  "EventExecTxList receipts, consensus AddTxsToBlock, mempool EventTx replies, EventAddDelayTx and "
                  "block-embedded delayed transactions; the Lean side parses the spellings itself (base58 + SHA-256d, hex).")
    level_note = ("fee/balance/driver outcomes are inputs of the model (each execution is repeated with an empty blacklist); "
                  "tx.From()/GetRealToAddr()/payload decoding are done by the real code and handed to the model; an address "
                  "spelling is 'accepted' when the real address drivers accept it (eth driver enabled in the tie); over-blocking "
                  "(base58 entries of any version byte, a base58 and a hex spelling of the same 20 bytes) is not a violation "
                  "and is mirrored; para-chain enforcement is tied at function level and on a para-titled testnode (executor receipts, pool) under five forwardExecs settings; para blocks are not produced (no para consensus in the repository).")
    assumptions = ("the blacklist is configured once (parseBlockedAccounts panics on an unparsable entry)",
                   "types.AllowUserExec contains evm and mempool.disableExecCheck=true for proxied pool submissions (the evm "
                   "plugin is not part of this repository)")

    def runs(self, tier, seed):
        return [dict(env={"VERIF_C31_MODE": m}) for m in ("core", "para", "node", "paranode")]


SPEC = C31()
