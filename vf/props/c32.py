from ..runner import Spec


class C32(Spec):
    prop = "C32"
    drv = "drv_c32"
    harness = "h_c32"
    required_theorems = ("C32.run_refines_spec", "C32.accepted_contiguous", "C32.delivered_contiguous",
                         "C32.delivered_from_resume", "C32.persisted_only_after_ack", "C32.three_failures_deactivate")
    level_text = ("Two-layer Lean proof: the task loop of blockchain/push.go (notification consumption with back-off, "
                  "post acknowledged / refused, deactivation after three failures, re-registration, node restart) as a "
                  "transition function over ANY fault history refines a specification acceptor written from the property "
                  "text (run_refines_spec, by a simulation relation); every accepted event trace has its acknowledged "
                  "ranges chained from the resume point — strictly increasing, no gaps, no repeats — and records a sequence "
                  "only right after its acknowledgement (accepted_contiguous, delivered_from_resume, "
                  "persisted_only_after_ack). Tie: trace validation — the real Push runs against a scripted HTTP "
                  "subscriber and in-memory stores under generated fault histories (bursts of blocks, refusals of three "
                  "kinds, immediate and late re-registration, restarts), every visible event is logged in order and must "
                  "be accepted by the compiled specification; the predicate is also evaluated directly on the log.")
    level_note = ("header/block subscriptions only (payload never empty); the data source is abstract (a post covers "
                  "last+1..last+n); timers (1 s retry sleeps), HTTP and goroutine scheduling are runtime — liveness is not "
                  "claimed; store write failures (ignored by the code) are not modelled. Found and fixed in /repo: a "
                  "second task goroutine on quick re-registration (fix e771544).")
    assumptions = ("one registration request at a time per subscriber name (concurrent registrations are outside the quantifier)",)
    quick_timeout = 900


SPEC = C32()
