from ..runner import Spec


class C32(Spec):
    prop = "C32"
    drv = "drv_c32"
    harness = "h_c32"
    required_theorems = ("C32.run_refines_spec", "C32.run_refines_strict", "C32.accepted_delivery", "C32.run_delivery",
                         "C32.accepted_contiguous_partial", "C32.delivered_contiguous_partial",
                         "C32.delivered_dense_partial", "C32.delivered_from_resume_partial", "C32.delivered_full_false",
                         "C32.persisted_only_after_ack", "C32.pending_only_from_ack", "C32.step_persisted_shape",
                         "C32.accepted_three_strikes", "C32.run_three_strikes",
                         "C32.batch_delivers_every_matching_block", "C32.batch_progress", "C32.batch_first_match_sent",
                         "C32.oversize_first_block_is_posted", "C32.new_size_rule_never_stalls",
                         "C32.old_size_rule_drops_exact_fit", "C32.old_size_rule_stalls_on_oversize")
    # hypotheses: strict acceptance / noLoss = no store failure and no crash between PostData (ack) and
    # setLastPushSeq (record); dense = no range without matching data (see level_note)
    partial = ("C32.accepted_contiguous_partial", "C32.delivered_contiguous_partial", "C32.delivered_dense_partial",
               "C32.delivered_from_resume_partial")
    refuted = ("C32.delivered_full_false",)
    level_text = ("Two-layer Lean proof: the task loop of blockchain/push.go (notification consumption with back-off, "
                  "post acknowledged / refused, ranges WITHOUT matching data of the contract-filter subscriptions "
                  "(in-memory cursor advance without record), record written / store "
                  "error ignored / crash between acknowledgement and record, deactivation after three failures, "
                  "re-registration, node restart) as a transition function over ANY fault history refines a "
                  "specification acceptor written from the property text (run_refines_spec; run_refines_strict for "
                  "histories without a lost record; by a simulation relation). Every accepted trace: EVERY post, "
                  "acknowledged or refused, and every skipped range starts right after the task's cursor, "
                  "retransmissions start at the same sequence, a (re)started task stands at the record "
                  "(accepted_delivery, run_delivery); a record is written only right after the acknowledged post ending "
                  "there (persisted_only_after_ack, pending_only_from_ack, step_persisted_shape); three consecutive "
                  "refused posts are followed by the deactivation before any further post, in whole runs "
                  "(accepted_three_strikes, run_three_strikes); acknowledged ranges strictly increasing — and gap-free "
                  "for dense subscriptions — from the resume point when no record is lost (…_partial); the full "
                  "statement over histories with lost records is refuted (delivered_full_false). The batch loop of "
                  "getTxReceipts after fix 87f57a6 (batchNew): the payload holds exactly the matching blocks "
                  "of the range gone over, the first matching block is sent whatever its size, a non-empty range is "
                  "always advanced over, so an oversize first block is posted and the task never stalls "
                  "(batch_delivers_every_matching_block, batch_first_match_sent, batch_progress, "
                  "oversize_first_block_is_posted, new_size_rule_never_stalls); the loop before the fix (batchOld) is kept "
                  "as regression witnesses (old_size_rule_drops_exact_fit, old_size_rule_stalls_on_oversize). Tie: trace "
                  "validation — the real Push (PushBlock, PushBlockHeader, PushTxReceipt with a contract filter, "
                  "PushTxResult) runs against a scripted HTTP subscriber and in-memory stores under generated fault "
                  "histories (bursts of blocks, blocks with/without matching transactions, 1 MB size cuts, single blocks "
                  "above 1 MB, the exact-fit and oversize regression histories, refusals of "
                  "three kinds, immediate and late re-registration, restarts, failing writes of the last-pushed key, "
                  "crashes frozen between ack and record), every visible event is logged in order and must be accepted by "
                  "the compiled specification (strict for histories without injected store faults); the predicate is "
                  "also evaluated directly on the log and on the payload contents (every matching block listed, nothing "
                  "else, nothing twice).")
    level_note = ("PushEVMEvent is not driven: getEVMEvent still has the OLD size rule (batchOld: exact-fit block dropped, oversize first block never sent) because the existing test Test_PostEVMEvent_bigsize pins that behaviour (repo commit dbb0015 restored it); the data source is "
                  "abstract (a pass covers last+1..last+n; which sequences hold matching data is an oracle input, the "
                  "harness checks the payloads against the blocks); timers (1 s retry sleeps), HTTP and goroutine "
                  "scheduling are runtime — liveness in Lean is the one-step statement oversize_first_block_is_posted / "
                  "new_size_rule_never_stalls (runTask itself would still spin on an answer (nil, startSeq-1); the batch "
                  "loop no longer gives it; the specification tolerates the .stalled event, the harness predicate "
                  "reports any pass repeated three times without a post). DECLARED, not a "
                  "finding: an acknowledged range is delivered again after a crash or an ignored setLastPushSeq error "
                  "between ack and record — at-least-once delivery across that window; crashes and store errors are not "
                  "in the property's fault list, and no implementation without a two-phase handshake can avoid it "
                  "(delivered_full_false on the witness subscribe 5; post 6..9 acked; crash; post 6..9 again — replayed on the real code as w-crash / w-store-fail; the …_partial theorems carry the hypothesis noLoss: no store failure and no crash between ack and record; for filter subscriptions their conclusion is 'strictly increasing, no repeats', the no-gap form needs dense histories). A subscriber without a recorded point ('start from the "
                  "newest') loses its in-memory cursor on restart and starts from the newest again. The write of the "
                  "not-active status after the third failure also ignores its error (not modelled). For filter posts the "
                  "end of the covered range is observable only through the record / the next pass; the harness takes it "
                  "from there and checks it against the blocks read. Found and fixed in /repo earlier: a second task "
                  "goroutine on quick re-registration (fix e771544); two defects of the size-limit handling in "
                  "getTxReceipts/getEVMEvent — a matching block dropped when the batch size equals pushMaxSize, a stall "
                  "on a first block above pushMaxSize (fix 87f57a6; both predicates stay strict, the histories are "
                  "replayed as w-exact-fit / w-oversize).")
    assumptions = ("one registration request at a time per subscriber name (concurrent registrations are outside the quantifier)",
                   "the sequence log is append-only: whether a sequence holds matching data does not change")
    quick_timeout = 900


SPEC = C32()
