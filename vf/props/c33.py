from ..runner import Spec


class C33(Spec):
    prop = "C33"
    drv = "drv_c33"
    harness = "h_c33"
    required_theorems = ("C33.node_survives", "C33.tick_total", "C33.recovered_paths", "C33.recvLt_wellformed_total",
                         "C33.dlReply_total", "C33.dlReply_checks_height", "C33.dlOld_panic_iff", "C33.dlNew_panic_iff",
                         "C33.reqTick_total", "C33.short_mempool_reply_panics", "C33.reqTick_empty_answer_panics",
                         "C33.no_lock_left_behind", "C33.loops_stay_alive", "C33.denied_loop_never_blocked_by_peer",
                         "C33.old_pend_tick_panicked", "C33.old_denied_tick_panicked", "C33.witnesses_survive")
    # node_survives is proved over `Reach`, whose environment steps carry two assumptions about LOCAL modules (not peers):
    # the mempool answers one entry per requested short hash, the blockchain never answers GetBlocks with an empty success;
    # both are necessary (short_mempool_reply_panics, reqTick_empty_answer_panics) and replayed on the real code
    partial = ("C33.node_survives", "C33.tick_total", "C33.reqTick_total")
    refuted = ()
    level_text = ("Lean model of the index and nil logic of every dht receive path as total functions with an explicit panic "
                  "outcome (light block receive + buildPendBlock incl. group expansion, the tick bodies of pendBlockLoop / "
                  "blockRequestLoop / manageDeniedPeer, block request/response peer messages, topic validators, download and "
                  "peer stream handlers, download reply decoding). Theorems: the full statement 'every input in every "
                  "reachable state leaves the node alive' is proved by an inductive invariant over all input sequences (queued "
                  "blocks have a hash for every empty slot, no nil message queued); the two former crashes (a pooled group "
                  "expanded past len(Txs) inside pendBlockLoop; a nil queue message dereferenced by manageDeniedPeer with two p2p "
                  "types) are kept as regression witnesses over the old definitions; paths under a recover cannot kill the "
                  "process; liveness half: no reachable state holds a lock of the light-broadcast/validator state, so every "
                  "background loop can step (lock discipline per function is a go/ast fact); "
                  "download reply decoding, the new download handler and the version/peer-info handlers are total; the old "
                  "download handler panics exactly on an absent Message (recovered). Tie: abstract inputs are concretised "
                  "into real protobuf messages / stream frames and pushed through the real functions (receive path with its "
                  "recover, loop bodies stepped tick by tick, validators, handlers behind RegisterStreamHandler), outcome "
                  "compared line by line with the model; byte-level mutants go through the abstraction function; which "
                  "functions carry a deferred recover and whether the stepped loop bodies equal the production ones is "
                  "re-read from the source (go/ast) on every run; every call into the code under test runs under a watchdog (a call "
                  "that does not return is the predicate failure stuck-after-peer-input, with the inputs so far), and after "
                  "malformed inputs every loop is stepped and a well-formed light block must be processed (liveness probe); both former crash inputs are also run in a child process with the "
                  "production goroutines, which must survive.")
    level_note = ("Inputs of node_survives: light blocks, pendBlockLoop / blockRequestLoop / manageDeniedPeer ticks, block request / "
                  "response peer messages, full blocks, download requests (old/new) and replies, version / peer-info requests, "
                  "peer-info and version REPLIES (a peer's header/height announcement), and the three topic validators. Covered "
                  "by the tie only (no Lean content): the validators and the snappy/protobuf decode in handleSubMsg contain no "
                  "index or nil operation on peer data, so their model functions are total by construction — crash-freedom "
                  "there rests on the byte-level fuzz under the watchdog; block.Hash(cfg) on a decoded block likewise. "
                  "Transactions / batches reach the mempool through validateTx/validateBatchTx only (handleSubMsg drops the tx "
                  "topics before handleBroadcastReceive), so postMempool is not peer-reachable. State proofs (mavl tree.go) are "
                  "property C03's subject and not modelled here. 'Permanently stop a background loop' = no lock left behind "
                  "(loops_stay_alive) + each tick returns (node_survives) + manageDeniedPeer's timer-less Wait is never left "
                  "without a verdict by peer input (denied_loop_never_blocked_by_peer: the blockchain module replies on every "
                  "path); the recovered/lock tables are definitional, their content is the go/ast tie. partial: libp2p / gossipsub / protobuf / snappy internals and memory exhaustion (txCount between 2^16 and "
                  "2^45 really allocates) are not modelled; the local mempool and blockchain modules are scripted (one reply "
                  "entry per requested hash; GetBlocks error or n items); the block filter is modelled unbounded (real LRU "
                  "of 1024, runs are shorter).")
    assumptions = ("the mempool answers EventTxListByHash with one entry per requested short hash (getTxListByHash)",
                   "protobuf-decoded repeated fields contain no nil elements",
                   "Go runtime panics on out-of-range index / nil dereference / negative make exactly as modelled")
    quick_timeout = 900


SPEC = C33()
