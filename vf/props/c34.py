from ..runner import Spec


class C34(Spec):
    prop = "C34"
    drv = "drv_c34"
    harness = "h_c34"
    lean_deps = ("C33",)
    required_theorems = ("C34.rebuild_exact", "C34.rebuild_or_wait", "C34.available_when_distinct", "C34.missing_waits",
                         "C34.timeout_requests_full", "C34.complete_pool_rebuilds_at_any_time", "C34.late_arrival_rebuilds_exact",
                         "C34.late_arrival_posted_exact", "C34.missing_waits_exact", "C34.timeout_exact",
                         "C34.request_only_after_failed_rebuild", "C34.no_request_for_old_height")
    level_text = ("Lean theorems over the light-block model shared with C33 (addLtBlock / buildPendBlock incl. in-place "
                  "group expansion / buildPendList / pendBlockLoop tick; the pool as the first-push-wins short-hash map of "
                  "mempool.SHashTxCache), for every block shape (miner + any sequence of single transactions and groups): if "
                  "every segment head is retrievable by its short hash (which follows from 'all transactions pooled and short "
                  "hashes of pool and block pairwise distinct'), the block posted is exactly the original transaction list in "
                  "the original positions; a block that cannot be completed stays queued below the timeout; at every pass the rebuild is tried first, so a "
                  "block the pool completes is rebuilt whatever its pending time and a request is only sent after a failed rebuild; at the timeout it "
                  "is removed and a block request goes to the sender iff its height is above the current one. Tie: real blocks "
                  "with real CreateTxGroup groups at every position -> real buildLtBlock -> wire encode/decode -> real receive "
                  "path, pool = every subset (real SHashTxCache), arrivals before / after the timeout (also before the timeout with the next loop pass only after it) with the clock moved by "
                  "types.SetTimeDelta, the loop body stepped; each step abstracted to the model's op line and compared; the "
                  "property predicate (byte-identical transactions in place, block hash, merkle root, nothing posted while "
                  "incomplete, request on timeout) evaluated on the implementation.")
    level_note = ("Restrictions stated in the theorems: the mempool module is up and answers one entry per hash, the block has at "
                  "most 2^16 transactions (larger counts are outside the model), and for rebuild_or_wait an absent segment has "
                  "none of its short hashes in the pool (the mempool indexes a group under its head only and does not hold a "
                  "group member as a plain transaction). 'Same hash' has no Lean content (slots are transaction ids, the header "
                  "is copied): byte-identical transactions, block hash and merkle root are checked by the differential run "
                  "only. missing_waits / timeout_requests_full give membership for an arbitrary queue, missing_waits_exact / "
                  "timeout_exact the complete outcome for a one-block queue. the mempool module is scripted around the real SHashTxCache (getTxListByHash's five lines are mirrored); a "
                  "40-bit short-hash collision is the named hypothesis (shown to splice the colliding transaction in, on model "
                  "and code); timers: the 200 ms ticker is replaced by stepping the tick body (syntax-tree equality with the "
                  "production loop body is checked by C33 on every run).")
    assumptions = ("short hashes (5 bytes of the tx hash) of pool and block transactions pairwise distinct",
                   "the mempool answers EventTxListByHash with one entry per requested short hash")
    quick_timeout = 900


SPEC = C34()
