from ..runner import Spec


class C35(Spec):
    prop = "C35"
    drv = "drv_c35"
    harness = "h_c35"
    required_theorems = ("C35.worker_terminates", "C35.seq_delivers", "C35.seq_no_reask", "C35.concurrent_no_reask_false",
                         "C35.wrong_height_accepted", "C35.delivers_false", "C35.seq_delivers_right_height",
                         "C35.concurrent_pass_loses_unasked_peer", "C35.fetch_has_no_deadline")
    partial = ("C35.seq_delivers_right_height", "C35.seq_delivers", "C35.seq_no_reask")
    refuted = ("C35.concurrent_no_reask_false", "C35.delivers_false")
    level_text = ("Lean LTS of the download workers (labels = the two atomic sections of downloadBlock) with the Go slice "
                  "aliasing explicit: one backing array, per-worker view lengths, shared TaskNum/Index fields. Theorems for "
                  "every interleaving and every peer behaviour: a download event for k heights performs at most 104*k worker "
                  "steps (50 tries per worker); a worker alone (checkTask's re-download) asks its peers in list order, each "
                  "once, and stops at the first that answers. Refuted with concrete reachable witnesses: 'a failed peer is not "
                  "asked again' (the shared array makes a second worker see the peer twice), delivery of a servable height by "
                  "the concurrent pass, and delivery when a peer answers with a block of another height (accepted as "
                  "success). Tie: real goroutines run the real downloadBlock on one shared task slice built by initJob; the "
                  "fake host's NewStream blocks until the script releases one fetch, so the interleaving is the script's; "
                  "every observation (peer asked next, block delivered, error kind, the shared array) is compared line by "
                  "line with the model; failed heights then go through initJob+downloadBlock alone as checkTask does; plus "
                  "handleEventDownloadBlock under real concurrency against generated peer behaviour with the predicate "
                  "evaluated on the implementation.")
    level_note = ("partial: libp2p streams, the scheduler and timers are runtime; all peer latencies equal (tasks.Sort is then "
                  "the identity for n <= 12, harness uses <= 8 peers); a fetch is assumed to return (the code arms no deadline "
                  "— reported as a finding, observed on a fake stream that records SetDeadline calls); 'not asked again "
                  "within the same task' is read per downloadBlock pass: checkTask deliberately starts over with all peers.")
    assumptions = ("Go append within capacity writes the shared backing array in place",
                   "equal peer latencies (no latency samples in the peerstore)",
                   "every fetch eventually returns (violated by a silent peer: finding read-without-deadline)")
    quick_timeout = 900


SPEC = C35()
