from ..runner import Spec


class C35(Spec):
    prop = "C35"
    drv = "drv_c35"
    harness = "h_c35"
    required_theorems = ("C35.worker_terminates", "C35.progress", "C35.concurrent_no_reask", "C35.event_delivers",
                         "C35.event_needs_at_most_50_failing_peers", "C35.stale_advertised_height_never_asked",
                         "C35.delivered_right_height", "C35.servable_never_no_peer", "C35.seq_delivers", "C35.delivers",
                         "C35.concurrent_pass_can_exhaust_tries", "C35.old_reask_witness", "C35.old_wrong_height_accepted",
                         "C35.old_shared_index_witness")
    partial = ("C35.delivers", "C35.event_delivers")
    refuted = ("C35.concurrent_pass_can_exhaust_tries", "C35.event_needs_at_most_50_failing_peers",
               "C35.stale_advertised_height_never_asked")
    level_text = ("Lean LTS of the download workers (labels = the two atomic sections of downloadBlock) of the repaired code: "
                  "every worker owns a clone of the task list and drops failed peers by identity, only the TaskNum counters are "
                  "shared, a block of another height is a failed fetch, the reply stream has a deadline. Theorems for every "
                  "interleaving and every peer behaviour: a download event for k heights performs at most 104*k worker steps; "
                  "no worker asks a peer twice and failed peers are gone from its list; only a block of the requested height "
                  "is delivered; a peer serving a worker's height is never dropped, so a servable height never ends with 'no "
                  "peer'; a worker alone (checkTask's re-download, <= 50 peers) delivers every servable height, asking its "
                  "peers in order once each. Remaining refuted statement: delivery by the concurrent pass alone (TaskNum limit: "
                  "51 heights on one peer exhaust the 50 tries of the 51st worker) - the event as a whole relies on checkTask. "
                  "The pre-repair behaviour (shared backing array and Index field, wrong height accepted, no deadline) is kept "
                  "as C35.Old with regression witnesses. Tie: real goroutines run the real downloadBlock on the task slice built "
                  "by initJob; the fake host's NewStream blocks until the script releases one fetch, so the interleaving is the "
                  "script's; every observation (peer asked next, block delivered, error kind, the task array and TaskNum) is "
                  "compared line by line with the model; failed heights then go through initJob+downloadBlock alone as "
                  "checkTask does; a silent peer is served by a fake stream that records the deadline the code arms; plus "
                  "handleEventDownloadBlock under real concurrency against generated peer behaviour with the predicate "
                  "evaluated on the implementation.")
    level_note = ("partial: libp2p streams, the scheduler and timers are runtime; all peer latencies equal (tasks.Sort is then "
                  "the identity for n <= 12, harness uses <= 8 peers); every fetch returns because the code arms a 30 s deadline "
                  "(observed on a fake stream that records SetDeadline calls; libp2p honouring it is runtime); 'not asked again "
                  "within the same task' is read per downloadBlock pass: checkTask deliberately starts over with all peers.")
    assumptions = ("delivery (delivers / event_delivers): at most 50 peers in the task (p2p hands out at most 41) and every peer's "
                   "advertised height covers the request — both hypotheses are necessary (witnesses)",
                   "distinct Pids in the request (initJob does not deduplicate; peers are modelled as list positions)",
                   "time is not modelled: the stream deadline is a source fact observed on a fake stream, not a theorem",
                   "Go append within capacity writes the shared backing array in place",
                   "equal peer latencies (no latency samples in the peerstore)",
                   "libp2p streams honour SetDeadline")
    quick_timeout = 900


SPEC = C35()
