from ..runner import Spec


class C36(Spec):
    prop = "C36"
    drv = "drv_c36"
    harness = "h_c36"
    required_theorems = ("C36.reply_matches_request", "C36.reply_lands_in_own_request", "C36.recv_at_most_once",
                         "C36.recv_at_most_once_from", "C36.recv_delivers_sent_request",
                         "C36.close_unblocks", "C36.after_close_outcomes", "C36.wait_after_close_returns",
                         "C36.send_after_client_close", "C36.closeclient_closes",
                         "C36.never_panics", "C36.old_close_panics_on_overlap",
                         "C36.discipline_necessary", "C36.reach_inv", "C36.reach_cinv")
    partial = ("C36.reply_matches_request / recv_at_most_once: callers follow the FreeMessage contract (Reach only "
               "contains disciplined frees); C36.discipline_necessary is the counterexample without it")
    refuted = ()
    level_text = ("Lean LTS of the message bus (one label per atomic step of queue.go/client.go: NewMessage, Send on the "
                  "high/low channel incl. blocked senders, subscriber forward, Reply, Wait/WaitTimeout, FreeMessage, "
                  "closeTopic, queue Close, and the requester's client.Sub/Close split at its racy points). Races of Go's "
                  "select are explicit label parameters (wait: reply | done; blocked sender: channel | done; timer), and "
                  "the theorems hold for every resolution. Proved by inductive invariants for every interleaving of any "
                  "length: whatever a Wait hands out as reply was produced for exactly that object and generation; along "
                  "every disciplined run from the initial state no tag occurs twice among the recv outputs (history "
                  "argument: a received request never returns to `queued`), and each received tag is the current, sent "
                  "request of its object; after a close of the topic/queue/requester's client every new send returns "
                  "closed, the done-branch of every wait and of every blocked sender is enabled, and no enabled branch "
                  "yields `blocked`; clientClosed is reachable (closeclient_closes + examples). Panic is an explicit "
                  "outcome: never_panics proves that no step of any reachable state panics, overlapping Close calls "
                  "included (compare-and-swap on isCloseing, /repo c931423); the pre-fix Close is kept as configuration "
                  "oldClose with the regression witness old_close_panics_on_overlap, and the harness's concurrent "
                  "double-Close probe (which found the defect on the real code) stays strict. Tie: a scripted driver "
                  "performs the same labels on real queue objects (pointer-identified, so pool recycling is observed), "
                  "outputs compared line by line with the compiled model; where a select race is open (reply buffered at "
                  "a close) the harness reports the branch Go took and the model must allow it with the same output; "
                  "plus concurrent stress runs (requesters x responders, timeouts, recycling, close with requests pending) "
                  "with the predicate evaluated on the implementation.")
    level_note = ("Go channel semantics (FIFO, at-most-once receive), select fairness, timers and sync.Pool's reuse policy "
                  "are runtime behaviour: the model takes the recycled object identity from the observation. The theorems "
                  "hold under the documented FreeMessage discipline (free only what nobody references); "
                  "discipline_necessary and the harness's `stale` scenario show the same stale reply on model and code "
                  "when a caller violates it (no in-repo caller does). Liveness is stated as enabledness of a ready select "
                  "case after close, not under a fairness assumption. One topic and one requester client are modelled. "
                  "Select races: the wait race (reply vs done) is exercised on the real code with the observed branch; the "
                  "blocked-sender race after a close (the sender slips into the orphaned channel because the pump drained "
                  "it) is allowed by the model but never observed by the harness, whose full-channel scenario has no "
                  "subscriber, so nothing drains the orphaned channel and only the done case is ever ready; recv after a "
                  "close is allowed by the model and not exercised. Abstractions declared in the Model docstring: the "
                  "channel + client.recv buffer + pump hand are one list; client.Close's drain loop (ErrChannelClosed "
                  "replies to requests still in client.recv) is indistinguishable from the done branch for the requester "
                  "and not modelled. client.Close itself hangs in wg.Wait() when the subscriber stopped reading Recv with more "
                  "than 5 messages pending (the pump blocks on the full buffer) — outside the send/wait clauses; the "
                  "harness drains Recv during closetopic like a real module. 'Or crashing': panic sources enumerated — (1) Wait/Send panic on ErrQueueTimeout: "
                  "dead code, timeout -1 gives a nil timer channel, so the model has no timer branch for them; (2) "
                  "close(client.done) / close(client.recv) twice by overlapping Close calls: modelled, proved "
                  "unreachable (never_panics), probed on the real code; (3) Sub racing Close of the same client beyond "
                  "the isCloseing check and CloseQueue called twice without Start (blocks on `interrupt`): not modelled, "
                  "covered by nothing but the stress run's panic counter; (4) sends/waits/replies themselves: covered by the "
                  "stress run (panic predicate) and by gen.Guard in the scripted run.")
    assumptions = ("callers follow the FreeMessage contract (in-repo callers free only after a successful Wait)",
                   "Go channels/select/sync.Pool behave as specified by the language/runtime")
    quick_timeout = 600


SPEC = C36()
