from ..runner import Spec


class C36(Spec):
    prop = "C36"
    drv = "drv_c36"
    harness = "h_c36"
    required_theorems = ("C36.reply_matches_request", "C36.reply_lands_in_own_request", "C36.recv_consumes",
                         "C36.close_unblocks", "C36.discipline_necessary", "C36.reach_inv")
    level_text = ("Lean LTS of the message bus (one label per atomic step of queue.go/client.go: NewMessage, Send on the "
                  "high/low channel incl. blocked senders, subscriber forward, Reply, Wait/Timeout, FreeMessage, "
                  "closeTopic, Close) with an inductive invariant proved for every interleaving of any length: whatever "
                  "Wait takes out of a message's reply buffer was produced for exactly that object and generation; a "
                  "recv consumes exactly the delivered entry; in any state with the topic/queue closed every new send, "
                  "every wait and every blocked sender (high or low) has an enabled step returning an error. Tie: a "
                  "scripted driver performs the same labels on real queue objects (pointer-identified, so pool recycling "
                  "is observed), outputs compared line by line with the compiled model; plus concurrent stress runs "
                  "(requesters x responders, timeouts, recycling, close with requests pending) with the predicate "
                  "evaluated on the implementation.")
    level_note = ("Go channel semantics (FIFO, at-most-once receive), select fairness, timers and sync.Pool's reuse policy "
                  "are runtime behaviour: the model takes the recycled object identity from the observation. The theorem "
                  "holds under the documented FreeMessage discipline (free only what nobody references); the theorem "
                  "discipline_necessary and the harness's `stale` scenario show the same stale reply on model and code "
                  "when a caller violates it (no in-repo caller does). Liveness is stated as enabledness after close, not "
                  "under a fairness assumption. One topic is modelled.")
    assumptions = ("callers follow the FreeMessage contract (in-repo callers free only after a successful Wait)",
                   "Go channels/select/sync.Pool behave as specified by the language/runtime")
    quick_timeout = 600


SPEC = C36()
