from ..runner import Spec


class C37(Spec):
    prop = "C37"
    drv = "drv_c37"
    harness = "h_c37"
    required_theorems = ("C37.cbc_roundtrip", "C37.cbc_legacy", "C37.cbc_other_lengths_do_not_roundtrip",
                         "C37.gcm_roundtrip", "C37.gcm_legacy", "C37.gcm_legacy_needs_authentication",
                         "C37.setpasswd_preserves", "C37.setpasswd_failure_unchanged",
                         "C37.history_keeps_every_secret", "C37.malformed_record_is_left_behind")
    level_text = ("Lean theorems about a model of the wallet's secret encryption, for EVERY block cipher with dec(enc b)=b on "
                  "16-byte blocks and every AEAD with open(seal p)=p (AES / AES-GCM are instances), every password (zero-padded "
                  "or cut to 32 bytes), every IV / nonce: CBCEncrypterPrivkey->CBCDecrypterPrivkey returns the key for the "
                  "supported key lengths 32 and 64 (and provably for no other block-aligned length; unaligned input panics), "
                  "legacy fixed-IV records of 32/64 bytes decrypt through the legacy branch, seeds of every length round-trip, "
                  "legacy fixed-nonce seed records decrypt (under the stated hypothesis that the mis-parsed record fails "
                  "authentication; shown necessary), a successful ProcWalletSetPasswd leaves seed and every stored key "
                  "decryptable to the same bytes under the new password, a failed one (wrong old / invalid new password, "
                  "undecryptable seed, panic, failed batch write) leaves the store unchanged. Tie: differential run of the real "
                  "functions and of real wallet histories (leveldb store, secp256k1 / ed25519 / sm2 wallets, legacy records "
                  "written by a reference legacy encrypter, injected batch-write failures, restarts) against the compiled model "
                  "run with lawful toy primitives, comparing key-derivation bytes, panics, record lengths, the format branch "
                  "taken and whether the original came back; the predicate (every secret recoverable under the wallet's current "
                  "password) is evaluated on the implementation.")
    level_note = ("AES and AES-GCM are abstract (laws above); the driver cannot run AES, so which key / format branch the "
                  "implementation used is observed through a reference CBC/GCM built from Go's aes primitives in the shape of the "
                  "Lean model. Supported private-key lengths are read off the registered crypto drivers at run time (32: "
                  "secp256k1, secp256k1eth, secp256r1, sm2; 64: ed25519) and bipwallet rejects every other length on import. "
                  "Wallet passwords are generated in ASCII (isValidPassWord's unicode classes are not modelled). A record whose "
                  "hex does not decode is skipped by the re-encryption loop; the wallet never writes such a record. The "
                  "history theorem (any list of successful and failed changes) is stated for stores whose Account records have "
                  "a non-empty Addr: SetWalletAccountInBatch fails exactly for an empty Addr, the loop only logs that and the "
                  "record stays under the old password (theorem malformed_record_is_left_behind; replayed on the real store "
                  "with a record injected behind the wallet's back, op w.addbad). The wallet's own writers (GetAccountByte) "
                  "refuse an empty Addr, so this is not reachable through requests and is not reported as a finding. "
                  "gcm_legacy stays conditional on its disclosed authentication hypothesis; cbc_roundtrip/cbc_legacy are for "
                  "the lengths 32/64, which the harness reads off the registered drivers (a run-time fact, not a Lean fact).")
    assumptions = ("AES is a keyed permutation of 16-byte blocks; AES-GCM opens what it sealed and adds 16 bytes",
                   "gcm_legacy: a legacy seed record mis-parsed as new format fails GCM authentication (probability 2^-128 otherwise)",
                   "goleveldb batch writes are atomic",
                   "wallet passwords are ASCII")
    quick_timeout = 900


SPEC = C37()
