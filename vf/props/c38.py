from ..runner import Spec


class C38(Spec):
    prop = "C38"
    drv = "drv_c38"
    harness = "h_c38"
    required_theorems = ("C38.full_statement", "C38.guarded_secret_needs_unlock", "C38.sign_with_stored_key_needs_unlock",
                         "C38.sign_locked_never_uses_stored_key", "C38.ticket_path_needs_unlock_or_ticket_mode",
                         "C38.ticket_mode_does_not_open_requests", "C38.password_change_never_touches_flag",
                         "C38.unlocked_needs_unlock_without_password_change", "C38.window_excludes_guarded", "C38.lock_locks",
                         "C38.unlock_wrong_password_no_change", "C38.guarded_locked",
                         "C38.regression_old_transient_unlock", "C38.regression_old_lost_lock",
                         "C38.regression_old_statement_false")
    partial = ()
    refuted = ()
    level_text = ("Lean LTS of the wallet lock flag with one label per atomic step of ProcWalletUnLock / ProcWalletLock / the "
                  "unlock-timeout callback / IsWalletLocked+GetWalletStatus / the handlers guarded by checkWalletStatus / wallet "
                  "restart, and one label per micro-step of ProcWalletSetPasswd; ghost 'a successful unlock happened since the last "
                  "lock/timeout/restart'. For the code as it is (since /repo fd9f097 a password change never touches the flag) the "
                  "FULL statement is proved by an inductive invariant over every interleaving of any length: unlocked => ghost; a "
                  "guarded handler returns a secret only after a successful unlock; no micro-step of a password change (failed or "
                  "successful) changes the flag. Tie: scripted interleavings on a real wallet (leveldb store, real queue) in which "
                  "ProcWalletSetPasswd is HELD at store accesses inside the call (VerifyPasswordHash, batch write) while readers / "
                  "Lock / blocked callers run and an observer reads the flag at EVERY store access of a password change, SignRawTx with "
                  "every combination of its two key-selecting fields (Addr wins over Privkey; whose key signed is read off the "
                  "returned transaction) in every lock state (never unlocked, unlocked, locked again, ticket-only unlock, locked "
                  "by the timeout), the real unlock timer, ten guarded handlers through the wallet's message loop, every "
                  "answer compared with the compiled model; plus polling observers during failing password changes, a Lock racing "
                  "with a password change, and concurrent generated request mixes (every 'unlocked' observation / returned key must "
                  "be explained in real time by a successful unlock not followed by a completed lock), predicate evaluated on the "
                  "implementation.")
    level_note = ("A wallet with a saved seed is modelled. No time is modelled: 'before the unlock timeout' means 'before the timer "
                  "callback fires' (label timer, enabled iff a timer is armed); that it fires after Timeout seconds is runtime "
                  "behaviour, exercised with the real 1 s timer by the harness. Which handlers count as `guarded` is a harness "
                  "fact (ten request types through the message loop), not a Lean fact; the regression_old_* theorems are "
                  "kernel-evaluated literal traces about older variants. sync.Mutex, sync/atomic and time.AfterFunc are taken as specified by Go. "
                  "The check found two defects in the code before fd9f097 (transient unlock during a password change, also with a "
                  "wrong old password; a Lock/timeout between the load and the CAS of the temporary unlock was lost and the wallet "
                  "stayed unlocked), reproduced both on the real wallet, and they were repaired in /repo; the theorems named "
                  "regression_old_* keep the two interleavings and what held of the old variants (VERIF_C38_VARIANT=old replays "
                  "them against an old tree). GetPrivKeyByAddr (plugin interface, not a request) does not look at the flag by "
                  "design and is outside the property.")
    assumptions = ("the wallet has a saved seed (otherwise Lock/Unlock never touch the flag)",
                   "Go's sync.Mutex / sync/atomic / time.AfterFunc behave as specified",
                   "wallet plugins (policies) do not write the flag themselves",
                   "a mining plugin's mineStatusReporter reports 'ticket unlocked' only after a ticket unlock with the correct password (ticket mode is a declared exception of the locked-wallet clause)")
    quick_timeout = 900


SPEC = C38()
