from ..runner import Spec


class C38(Spec):
    prop = "C38"
    drv = "drv_c38"
    harness = "h_c38"
    required_theorems = ("C38.full_statement_false", "C38.transient_unlock_witness", "C38.lost_lock_witness",
                         "C38.unlocked_needs_unlock_partial", "C38.unlocked_only_in_window_partial",
                         "C38.quiescent_unlocked_needs_unlock_partial", "C38.guarded_secret_needs_unlock_partial",
                         "C38.verify_first_window_partial", "C38.verify_first_failed_change_harmless",
                         "C38.statement_repaired", "C38.window_excludes_guarded", "C38.lock_locks", "C38.guarded_locked")
    partial = ("C38.unlocked_needs_unlock_partial", "C38.unlocked_only_in_window_partial",
               "C38.quiescent_unlocked_needs_unlock_partial", "C38.guarded_secret_needs_unlock_partial",
               "C38.verify_first_window_partial")
    refuted = ("C38.full_statement_false", "C38.statement_verify_first_false")
    level_text = ("Lean LTS of the wallet lock flag with one label per atomic step of ProcWalletUnLock / ProcWalletLock / the "
                  "unlock-timeout callback / IsWalletLocked+GetWalletStatus / the handlers guarded by checkWalletStatus / wallet "
                  "restart, and one label per micro-step (load, CAS, verify, getSeed's status check, batch write, deferred restore) "
                  "of ProcWalletSetPasswd; ghost 'a successful unlock happened since the last lock/timeout/restart'. The property "
                  "(unlocked => ghost) is proved FALSE of the code as it is on two interleavings (transient unlock during a password "
                  "change with a wrong old password; a Lock between load and CAS is lost and the wallet stays unlocked), both "
                  "reproduced on the real wallet; it is proved for every interleaving without a password change, for every "
                  "interleaving in which no lock/timeout falls between load and CAS outside the temporary-unlock window "
                  "(inductive invariant), and in full for the variant without a temporary unlock. Tie: scripted interleavings on a "
                  "real wallet (leveldb store, real queue) in which ProcWalletSetPasswd is HELD at store accesses inside the call "
                  "while readers / Lock / blocked callers run, the real unlock timer, a battery of guarded handlers through the "
                  "wallet's message loop; every answer compared with the compiled model; plus polling-observer and Lock-race "
                  "stress runs and concurrent generated request mixes (every 'unlocked' observation / returned key must be "
                  "explained in real time by a successful unlock not followed by a completed lock) with the predicate "
                  "evaluated on the implementation.")
    level_note = ("A wallet with a saved seed is modelled. sync.Mutex, sync/atomic and time.AfterFunc are taken as specified by Go. "
                  "The scripted tie can hold ProcWalletSetPasswd only at store accesses (inside VerifyPasswordHash and before the "
                  "batch write), so load/CAS are always adjacent there; the lost-lock interleaving is reproduced by a real race "
                  "(its KNOWN-FINDING line appears only in runs where the race is won). GetPrivKeyByAddr (plugin interface, not a "
                  "request) does not look at the flag by design and is outside the property. The harness tells the driver which "
                  "ProcWalletSetPasswd variant to model (default `current`; VERIF_C38_VARIANT=verifyfirst|repaired were "
                  "run against the two candidate repairs in a scratch copy of /repo: no diff; `repaired` removes all three "
                  "findings, `verifyfirst` leaves the second one and the lost lock for a right old password).")
    assumptions = ("the wallet has a saved seed (otherwise Lock/Unlock never touch the flag)",
                   "Go's sync.Mutex / sync/atomic / time.AfterFunc behave as specified",
                   "wallet plugins (policies) do not write the flag themselves")
    quick_timeout = 900


SPEC = C38()
