from ..runner import Spec


class C39(Spec):
    prop = "C39"
    drv = "drv_c39"
    harness = "h_c39"
    required_theorems = ("C39.ip_gate", "C39.ip_gate_strict", "C39.zero_entry_admits_unlisted",
                         "C39.gate_method_eq_dispatch_method", "C39.gate_accepts_dispatch_same",
                         "C39.jrpc_gate", "C39.jrpc_gate_body", "C39.jrpc_method_that_runs", "C39.jrpc_auth_always",
                         "C39.grpc_unary_gate", "C39.grpc_all_gated",
                         "C39.grpc_runs_without_basic_auth", "C39.grpc_gate_full_false",
                         "C39.eth_eq_main", "C39.reinit_admits_union", "C39.ip_gate_reinit",
                         "C39.reinit_keeps_old_entries")
    partial = ("C39.grpc_unary_gate / C39.grpc_all_gated: GrpcGateFull without its AuthOK conjunct (the gRPC "
               "interceptors never look at credentials; the full statement is refuted, see `refuted`)",
               "C39.ip_gate / jrpc_gate / jrpc_gate_body / grpc_*_gate: 'wildcard' includes the named assumption "
               "zero-entry-is-wildcard (a configured entry 0.0.0.0); C39.ip_gate_strict is the statement with the "
               "documented wildcard `*` only, under the hypothesis that no configured entry is 0.0.0.0",
               "C39.ip_gate and everything built on it speak about one InitCfg from empty package maps; "
               "C39.ip_gate_reinit is the statement after two configurations (either one may cover the address)")
    refuted = ("C39.grpc_gate_full_false (witness C39.grpc_runs_without_basic_auth: whitelist=[10.0.0.7], "
               "jrpcUserName=admin, jrpcUserPasswd=pw, gRPC /types.chain33/Version from 10.0.0.7 without credentials "
               "runs; replayed on the real gRPC server from corpus/C39/grpc_without_basic_auth.ops; finding "
               "C39|grpc-unary|ran-without-basic-auth and C39|grpc-stream-SubEvent|ran-without-basic-auth)",)
    level_text = ("Lean theorems about the decision logic of the three RPC gates for every configuration, client address, "
                  "credentials and request body. Request shapes: a body is the ordered member list of the top-level JSON "
                  "object; Go's struct-field matching (exact key, else case-folded key incl. U+017F/U+212A, later members "
                  "overwrite, null keeps a value field and nils a pointer field, type errors reject the body) is modelled "
                  "for rpc/http.go's clientRequest (the gate) and net/rpc/jsonrpc's serverRequest (the dispatcher) as they "
                  "are declared; gate_method_eq_dispatch_method proves that both read the same Method from every member "
                  "list, gate_accepts_dispatch_same that a body the gate accepts is accepted by the codec with that method, "
                  "and jrpc_gate_body that whatever ServiceMethod the middleware hands to net/rpc for a non-loopback client "
                  "is whitelisted and not blacklisted, the address is whitelisted (or wildcard) and basic auth succeeded. "
                  "The IP gate needs no side hypothesis (a non-loopback address never renders as the default entry "
                  "127.0.0.1: Nat.repr injectivity / an IPv6 text contains ':'). Same gate for unary and server-streaming "
                  "gRPC minus basic auth, whose clause is refuted in Lean and on the real server (finding). The "
                  "Ethereum-compatible endpoint admits exactly the addresses the main endpoints admit whenever a whitelist "
                  "is configured under either key (eth_eq_main, full equality). Two configurations on one process: "
                  "reinit_admits_union (the package map is the union). "
                  "Tie: the real middleware/handlers of /repo are served in-process with arbitrary remote addresses "
                  "(JSON-RPC handler through a verif hook, the real grpc.Server on an in-memory listener, ethrpc ServeHTTP) "
                  "under generated configurations, credentials (header / gRPC metadata) and bodies; generated member lists "
                  "(key spellings, duplicates, decoys, nulls, wrong kinds, uint64 overflow) are rendered to JSON text, sent "
                  "through the real handler, and the first gate that stopped the request plus the probe method that actually "
                  "ran are compared with the model decoding the same member list; InitIPWhitelist is called a second time "
                  "without reset and the admitted addresses compared; the spec predicate is evaluated on what actually ran.")
    level_note = ("JSON lexing (whitespace, string/key escapes, number syntax, which literal stands for an array / another kind), "
                  "net.ParseIP/To4/IsLoopback, base64, net/rpc service lookup and grpc-go dispatch are runtime behaviour covered "
                  "by the differential run only; unicode.SimpleFold is modelled on the orbits of ASCII letters only (other runes "
                  "cannot match an ASCII field name); addresses are modelled structurally (v4, v4-mapped, ::1, other IPv6 text "
                  "pre:post); the Ethereum endpoint's own method blacklist and its lack of basic auth are outside the property "
                  "text (IP clause only) and are not modelled.")
    assumptions = ("InitCfg-once: a node calls rpc.InitCfg once, the package access maps start empty (necessary: "
                   "C39.reinit_keeps_old_entries, shown on the real code by op ipadd; the harness resets the maps between "
                   "configurations through the verif hook)",
                   "zero-entry-is-wildcard: a configured IP entry `0.0.0.0` (the code's internal encoding of `*`) anywhere in "
                   "the effective list admits every address on all three endpoints; undocumented in chain33.toml / types.RPC, "
                   "which name only `*` (C39.zero_entry_admits_unlisted; counted as admitted_only_via_0.0.0.0_entry); the gate "
                   "theorems count it as 'wildcard', C39.ip_gate_strict is the statement without it",
                   "gRPC peers are TCP addresses (isLoopBackAddr never matches)",
                   "request bodies hold one JSON value (json.Unmarshal rejects trailing data that Decoder.Decode would ignore: "
                   "the gate is the stricter side)")


SPEC = C39()
