from ..runner import Spec


class C39(Spec):
    prop = "C39"
    drv = "drv_c39"
    harness = "h_c39"
    required_theorems = ("C39.jrpc_gate", "C39.jrpc_auth_always", "C39.grpc_unary_gate", "C39.grpc_all_gated",
                         "C39.eth_eq_main")
    level_text = ("Lean theorems about the decision logic of the three RPC gates for every configuration, client "
                  "address, credentials and method string: a JSON-RPC / unary gRPC request from a non-loopback address "
                  "reaches the dispatcher only if the address is whitelisted (or wildcard), the method is whitelisted and "
                  "not blacklisted and basic auth succeeded; the same gate for server-streaming gRPC; the Ethereum-compatible "
                  "endpoint admits exactly the addresses the main endpoints admit whenever a whitelist is configured under "
                  "either key (both full after the two fix: commits in /repo). "
                  "Tie: the real middleware/handlers of /repo are served in-process with arbitrary remote addresses "
                  "(JSON-RPC handler through a verif hook, the real grpc.Server on an in-memory listener, ethrpc "
                  "ServeHTTP) under generated configurations, credentials and request-body shapes; the first gate that "
                  "stops each request is compared with the model, and the spec predicate is evaluated on what actually ran.")
    level_note = ("net.ParseIP/To4/IsLoopback, encoding/json decoding (gate and dispatcher both use it), net/rpc and "
                  "grpc-go dispatch are runtime behaviour covered only by the differential run; addresses are modelled "
                  "structurally (v4, v4-mapped, ::1, other IPv6 text); the package-level access maps are reset between "
                  "configurations (a node initialises them once).")
    assumptions = ("a node calls rpc.InitCfg once (access maps start empty)",
                   "gRPC peers are TCP addresses (isLoopBackAddr never matches)")


SPEC = C39()
