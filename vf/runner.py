"""Generic check flow shared by all properties (DESIGN.md 1.5/1.6)."""
import importlib
import json
import os
import sys
import time
import traceback

from . import core


class Spec:
    """Per-property declaration; subclasses live in vf/props/cXX.py as `SPEC`."""
    prop = None
    drv = None                 # lean_exe name (None: no model driver, predicate-only tie)
    harness = None             # harness/cmd/<name>
    race = False
    facts = False              # needs factgen + FactsChecks
    extra_lean_targets = ()
    lean_deps = ()             # other property ids whose Lean files this one imports
    required_theorems = ()     # names that must be present among the audited obligations
    partial = ()               # theorem names that are `_partial` (documented hypothesis)
    refuted = ()               # theorem names that are proved negations of the full statement
    assumptions = ()
    claimed = True             # listed in MANIFEST.checks (False: work in progress)
    level_text = ""            # MANIFEST level_claimed.text
    level_note = ""            # MANIFEST level_note (assumptions / trusted base)
    design_ref = None
    technique = None
    trusted_base_extra = ()
    quick_timeout = 900
    thorough_timeout = 7200

    def runs(self, tier, seed):
        """harness invocations: list of dict(env=..., args=..., prefix=...)."""
        return [dict(env={})]

    def drv_for(self, run):
        return self.drv

    def classify(self, sig, detail):
        """map a predicate failure to the signature stored in known_findings.json."""
        return sig

    def post(self, trace, run):
        """optional extra analysis of a trace; may append to trace.preds."""
        return None


def load_spec(prop):
    mod = importlib.import_module("vf.props." + prop.lower())
    return mod.SPEC


def _corpus_files(prop):
    d = os.path.join(core.CORPUS, prop)
    if not os.path.isdir(d):
        return []
    return sorted(os.path.join(d, f) for f in os.listdir(d) if f.endswith(".ops"))


def _execute(spec, binary, tier, seed, replay_ops=None, scale=None):
    """Run corpus + generated runs; returns (traces, diffs, errors)."""
    traces, diffs, errors = [], [], []
    todo = []
    if replay_ops is not None:
        todo.append(("replay", dict(env={"VERIF_REPLAY": replay_ops})))
    else:
        for f in _corpus_files(spec.prop):
            todo.append(("corpus:" + os.path.basename(f), dict(env={"VERIF_REPLAY": f})))
        for i, r in enumerate(spec.runs(tier, seed)):
            todo.append(("gen%d" % i, r))
    for name, r in todo:
        env = {"VERIF_SEED": seed, "VERIF_TIER": tier}
        if scale:
            env["VERIF_SCALE"] = scale
        env.update(r.get("env", {}))
        tmp = core.tmpdir(spec.prop)
        env["VERIF_TMP"] = tmp
        try:
            to = spec.thorough_timeout if tier == "thorough" else spec.quick_timeout
            try:
                rc, out, err = core.run_harness(binary if not r.get("binary") else r["binary"], env, r.get("args", ()),
                                                timeout=to, prefix=r.get("prefix", ()), cwd=tmp)
            except Exception as e:  # timeout
                errors.append("%s: harness did not finish: %s" % (name, e))
                # a harness that hangs is reported once; the remaining runs would only repeat the wait
                break
            t = core.Trace()
            t.name = name
            t.feed(out)
            if rc != 0:
                errors.append("%s: harness exit %d: %s" % (name, rc, err[-1500:]))
            spec.post(t, r)
            traces.append(t)
            drv = spec.drv_for(r)
            if drv and t.ops:
                rc2, model, err2 = core.run_drv(drv, t.ops)
                if rc2 != 0:
                    errors.append("%s: model driver exit %d: %s" % (name, rc2, err2[-500:]))
                for d in core.diff_streams(t.ops, t.impl, model):
                    d["run"] = name
                    diffs.append(d)
        finally:
            import shutil
            shutil.rmtree(tmp, ignore_errors=True)
    return traces, diffs, errors


def run_check(prop, tier, seed, replay=None):
    t0 = time.time()
    spec = load_spec(prop)
    known = core.known_signatures(prop)
    problems = []       # broken obligations / correspondence (strings)
    obligations = []

    # 1. facts
    if spec.facts:
        from . import facts
        ok, log = facts.regenerate()
        if not ok:
            problems.append("factgen failed: " + log[-800:])

    # 2. Lean build + hygiene + audit
    targets = ["Chain33Model.Props." + prop]
    if spec.drv:
        targets.append(spec.drv)
    targets += list(spec.extra_lean_targets)
    ok, log = core.lean_build(targets)
    build_ok = ok
    if not ok:
        problems.append("lake build failed for %s: %s" % (targets, log[-1500:]))
    hy = core.hygiene([prop] + list(spec.lean_deps))
    if hy:
        problems.append("banned constructs in Lean tree: " + "; ".join(hy[:10]))
    if build_ok:
        aok, obligations, alog = core.lean_audit(prop)
        if not aok:
            problems.append("axiom audit failed to run: " + alog[-800:])
        names = {o["name"] for o in obligations}
        for req in spec.required_theorems:
            if req not in names:
                problems.append("required theorem missing: " + req)
        for o in obligations:
            if not o["ok"]:
                problems.append("theorem %s depends on disallowed axioms %s" % (o["name"], o["axioms"]))
    discharged = sum(1 for o in obligations if o["ok"]) if build_ok and not hy else 0
    rechecked = None
    if build_ok and tier == "thorough" and not replay:
        # independent re-check of the compiled property module (and everything it imports from this project)
        rcc, clog = core.sh(["lake", "env", "leanchecker", "Chain33Model.Props." + prop], cwd=core.LEAN, timeout=3600)
        rechecked = (rcc == 0)
        if rcc != 0:
            problems.append("leanchecker rejected Chain33Model.Props.%s: %s" % (prop, clog[-800:]))

    # 3. Go build
    binary = None
    if spec.harness:
        binary, blog = core.go_build(spec.harness, race=spec.race)
        if binary is None:
            problems.append("harness build failed against /repo working tree: " + blog[-1500:])

    # 4. runs
    traces, diffs, errors = [], [], []
    replay_info = None
    if binary and build_ok:
        replay_ops = None
        if replay:
            replay_info = json.load(open(replay))
            if replay_info.get("ops"):
                replay_ops = os.path.join(core.BUILD, "replay.%s.ops" % prop)
                open(replay_ops, "w").write("\n".join(replay_info["ops"]) + "\n")
            else:
                seed = replay_info.get("seed", seed)
                tier = replay_info.get("tier", tier)
        try:
            traces, diffs, errors = _execute(spec, binary, tier, seed, replay_ops)
        except Exception:
            errors.append("runner exception: " + traceback.format_exc()[-1500:])
    for e in errors:
        problems.append(e)
    if diffs:
        d = diffs[0]
        problems.append("correspondence broken (%s line %d): op=%s impl=%s model=%s"
                        % (d.get("run"), d["line"], d["op"][:300], d["impl"][:300], d["model"][:300]))

    # 5. verdict
    preds = []
    for t in traces:
        for sig, detail in t.preds:
            preds.append((spec.classify(sig, detail), detail, t.name))
    new = [(s, d, n) for (s, d, n) in preds if s not in known]
    hit_known = sorted({s for (s, d, n) in preds if s in known})
    n_known = sum(1 for (s, d, n) in preds if s in known)

    widened = False
    hung = any("harness did not finish" in e for e in errors)
    if not new and problems and binary and build_ok and not replay and not hung:
        # tie or obligation broken but no failing input yet: widen the search on the implementation
        widened = True
        try:
            wt, wd, we = _execute(spec, binary, "thorough", int(seed) + 7919, None, scale=os.environ.get("VERIF_WIDEN_SCALE", "0.5"))
            for t in wt:
                for sig, detail in t.preds:
                    s = spec.classify(sig, detail)
                    if s not in known:
                        new.append((s, detail, "widened:" + t.name))
        except Exception:
            pass

    out_lines = []
    for s in hit_known:
        out_lines.append("KNOWN-FINDING: property=%s %s — %s" % (prop, s, known[s].get("what", "")))
    violations = 0
    rc = 0
    if new:
        violations = len({s for (s, d, n) in new})
        s, d, n = new[0]
        path = core.write_replay(prop, seed, {
            "property": prop, "signature": s, "detail": d, "run": n, "seed": int(seed), "tier": tier,
            "all_new_signatures": sorted({x[0] for x in new})[:50],
            "problems": problems[:10],
            "how": "./check %s --replay <this file> re-runs the harness with this seed/tier on /repo" % prop})
        out_lines.append("VIOLATION property=%s replay=%s" % (prop, path))
        rc = 1
    elif problems:
        violations = 1
        path = core.write_replay(prop, seed, {
            "property": prop, "no_failing_input_found": True, "seed": int(seed), "tier": tier,
            "broken": problems[:20], "first_diffs": diffs[:10], "widened_search": widened,
            "note": "a proof obligation or the model/implementation correspondence no longer checks; "
                    "no input violating the property predicate was found on the implementation"})
        out_lines.append("VIOLATION property=%s replay=%s no-failing-input-found" % (prop, path))
        rc = 1

    # 6. evidence
    stats = {}
    samples = []
    nops = 0
    for t in traces:
        nops += len(t.ops)
        for k, v in t.stats.items():
            stats[k] = stats.get(k, 0) + v
        for s_ in t.samples:
            if len(samples) < 10:
                samples.append(s_)
    for t in traces:
        if len(samples) < 6 and t.ops:
            samples.append("%s -> %s" % (t.ops[0][:300], t.impl[0][:300]))
    thm_samples = [{"theorem": o["name"], "axioms": o["axioms"]} for o in obligations[:60]]
    cov = {
        "obligations": max(len(obligations), 1),
        "discharged": discharged,
        "checker_cmd": "cd /verif/lean && lake build %s && lake env lean /verif/.build/audit/%s.lean  (run by ./check %s)" % (" ".join(targets), prop, prop),
        "trusted_base": core.TRUSTED_BASE + list(spec.trusted_base_extra),
        "theorems": thm_samples,
        "partial_theorems": list(spec.partial),
        "refuted_full_statements": list(spec.refuted),
        "traces_validated_against_impl": len(traces),
        "evaluations": nops,
        "ops_compared_with_model": nops if spec.drv else 0,
        "correspondence_diffs": len(diffs),
        "predicate_failures_known": n_known,
        "predicate_failures_new": len(new),
        "known_findings_hit": hit_known,
        "stats": stats,
        "samples": samples or ["(no harness run)"],
        "leanchecker_rechecked": rechecked,
        "repo": core.repo_fingerprint(),
        "problems": problems[:10],
    }
    core.write_evidence(prop, tier, seed, cov, list(spec.assumptions), time.time() - t0, violations)
    for l in out_lines:
        print(l)
    print("%s %s tier=%s seed=%s obligations=%d/%d ops=%d diffs=%d preds(known=%d,new=%d) wall=%.1fs"
          % ("FAIL" if rc else "OK", prop, tier, seed, discharged, len(obligations), nops, len(diffs),
             n_known, len(new), time.time() - t0))
    return rc
