"""python3 -m vf.seedreport : markdown table of the seeded regressions under /verif/seeded (for DESIGN.md)."""
import glob
import json
import os

ROOT = os.path.dirname(os.path.dirname(os.path.abspath(__file__)))


def main():
    rows = []
    for f in sorted(glob.glob(os.path.join(ROOT, "seeded", "*", "meta.json"))):
        m = json.load(open(f))
        v = m.get("verification", {})
        name = os.path.basename(os.path.dirname(f))
        how = "no"
        if v.get("caught"):
            how = "yes, failing input (`%s`)" % (v.get("replay_signature", "")[:90]) if v.get("caught_with_failing_input") else "yes, as broken correspondence (no-failing-input-found)"
        ok = all(v.get(k) for k in ("demo_passes_unchanged", "patch_applies", "existing_tests_pass_with_patch", "demo_fails_with_patch"))
        rows.append("| %s | %s | %s | %s | %s |" % (name, ", ".join(v.get("touched", []))[:60], m.get("needs_to_manifest", "").replace("\n", " ").replace("|", "/")[:220], "yes" if ok else "NO", how))
    print("| id | file changed | needs to manifest | confirmed (tests pass, demo fails/passes) | caught by `./check` |")
    print("|---|---|---|---|---|")
    print("\n".join(rows))


if __name__ == "__main__":
    main()
