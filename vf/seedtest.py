"""python3 -m vf.seedtest <ID> <out_dir> [<name>]

Confirms a seeded regression produced by an independent sub-agent and runs the check against it:
 1. fresh scratch worktree of /repo HEAD (outside /repo and /verif), removed afterwards;
 2. the demonstration test PASSES on the unchanged tree;
 3. patch.diff applies; the touched packages still build and their existing tests pass;
 4. the demonstration FAILS with the patch;
 5. VERIF_REPO=<worktree> ./check <ID> — expected: VIOLATION (exit 1);
 6. result stored in /verif/seeded/<name>/ (patch.diff, demo_test.go, meta.json).
/repo itself is never modified.
"""
import json
import os
import re
import shutil
import subprocess
import sys
import time

ROOT = os.path.dirname(os.path.dirname(os.path.abspath(__file__)))
ENV = dict(os.environ, GOFLAGS="-mod=mod", GOPROXY="off", GOSUMDB="off", GOTOOLCHAIN="local",
           GOCACHE=os.path.join(ROOT, ".cache", "go-build"))


def sh(cmd, cwd=None, timeout=3600, env=None):
    p = subprocess.run(cmd, cwd=cwd, shell=isinstance(cmd, str), env=env or ENV, timeout=timeout,
                       stdout=subprocess.PIPE, stderr=subprocess.STDOUT)
    return p.returncode, p.stdout.decode("utf-8", "replace")


def main():
    pid, out = sys.argv[1], os.path.abspath(sys.argv[2])
    name = sys.argv[3] if len(sys.argv) > 3 else pid
    meta = json.load(open(os.path.join(out, "meta.json")))
    patch = os.path.join(out, "patch.diff")
    demo = os.path.join(out, "demo_test.go")
    wt = "/tmp/seedchk/%s-%d" % (name, os.getpid())
    os.makedirs("/tmp/seedchk", exist_ok=True)
    rec = {"property": pid, "checked_at": time.strftime("%Y-%m-%dT%H:%M:%SZ", time.gmtime())}
    rc, o = sh(["git", "-C", "/repo", "worktree", "add", "-q", "--detach", wt, "HEAD"])
    if rc != 0:
        print(o)
        return 2
    try:
        rec["repo_head"] = sh(["git", "-C", "/repo", "rev-parse", "--short", "HEAD"])[1].strip()
        demo_path = meta["demo_path"]
        if demo_path.endswith("/") or os.path.isdir(os.path.join(wt, demo_path)):
            demo_path = os.path.join(demo_path, "zz_seeded_demo_test.go")
        pkg = "./" + os.path.dirname(demo_path)
        dst = os.path.join(wt, demo_path)
        shutil.copyfile(demo, dst)
        m = re.search(r"-run\s+'?\"?([^\s'\"]+)", meta.get("demo_cmd", ""))
        run = m.group(1) if m else "."
        democmd = ["go", "test", "-count=1", "-run", run, pkg]
        rc0, o0 = sh(democmd, cwd=wt)
        rec["demo_passes_unchanged"] = (rc0 == 0)
        rc, o = sh(["git", "apply", patch], cwd=wt)
        rec["patch_applies"] = (rc == 0)
        if rc != 0:
            print("patch does not apply:", o)
        files = re.findall(r"^\+\+\+ b/(\S+)", open(patch).read(), re.M)
        pkgs = sorted({"./" + os.path.dirname(f) for f in files if f.endswith(".go")})
        rec["touched"] = files
        # existing tests of touched packages (demo moved away meanwhile)
        os.rename(dst, dst + ".off")
        rc2, o2 = sh(["go", "test", "-count=1"] + pkgs, cwd=wt, timeout=3000)
        rec["existing_tests_pass_with_patch"] = (rc2 == 0)
        if rc2 != 0:
            rec["existing_tests_output"] = o2[-1500:]
        os.rename(dst + ".off", dst)
        rc1, o1 = sh(democmd, cwd=wt)
        rec["demo_fails_with_patch"] = (rc1 != 0)
        os.remove(dst)
        # the check
        env = dict(os.environ, VERIF_REPO=wt)
        tier = os.environ.get("SEED_TIER", "quick")
        t0 = time.time()
        rc3, o3 = sh([os.path.join(ROOT, "check"), pid, "--tier", tier], cwd=ROOT, env=env, timeout=7200)
        rec["check_cmd"] = "VERIF_REPO=<worktree with patch> ./check %s --tier %s" % (pid, tier)
        rec["check_exit"] = rc3
        rec["check_wall_s"] = round(time.time() - t0, 1)
        lines = [l for l in o3.split("\n") if l.startswith("VIOLATION") or l.startswith("OK ") or l.startswith("FAIL ")]
        rec["check_output"] = lines[-3:]
        rec["caught"] = (rc3 == 1 and any(l.startswith("VIOLATION") for l in lines))
        rec["caught_with_failing_input"] = rec["caught"] and not any("no-failing-input-found" in l for l in lines)
        rp = None
        for l in lines:
            mm = re.search(r"replay=(\S+)", l)
            if mm:
                rp = mm.group(1)
        if rp and os.path.exists(rp):
            try:
                r = json.load(open(rp))
                rec["replay_signature"] = r.get("signature") or (r.get("broken") or [""])[0][:300]
            except Exception:
                pass
    finally:
        sh(["git", "-C", "/repo", "worktree", "remove", "--force", wt])
        shutil.rmtree(wt, ignore_errors=True)
    # restore the evidence file of the property (the run above rewrote it against a modified tree)
    sh(["git", "checkout", "--", "evidence/%s.json" % pid], cwd=ROOT)
    d = os.path.join(ROOT, "seeded", name)
    os.makedirs(d, exist_ok=True)
    if os.path.abspath(d) != out:
        shutil.copyfile(patch, os.path.join(d, "patch.diff"))
        shutil.copyfile(demo, os.path.join(d, "demo_test.go"))
    old = None
    try:
        old = json.load(open(os.path.join(d, "meta.json"))).get("verification")
    except Exception:
        pass
    if old and (old.get("caught_with_failing_input") != rec.get("caught_with_failing_input")):
        rec["earlier_run"] = {k: old.get(k) for k in ("checked_at", "caught", "caught_with_failing_input", "check_output")}
        rec["note"] = "the first run against this change did not produce a failing input; the check (generator/predicate) was strengthened afterwards, see DESIGN.md"
    elif old and old.get("earlier_run"):
        rec["earlier_run"] = old["earlier_run"]
        rec["note"] = old.get("note", "")
    meta["verification"] = rec
    json.dump(meta, open(os.path.join(d, "meta.json"), "w"), indent=1, ensure_ascii=False)
    print(json.dumps(rec, indent=1))
    return 0


if __name__ == "__main__":
    sys.exit(main())
