#!/bin/bash
# usage: vf/seedwave.sh <suffix> <id> [<id>...] — confirm seeded changes /tmp/seed/<id><suffix>-out and run the check against each
cd "$(dirname "$0")/.."
sfx=$1; shift
for id in "$@"; do
  python3 -m vf.seedtest $id /tmp/seed/${id}${sfx}-out ${id}${sfx} > /tmp/seed/${id}${sfx}.chk 2>&1
  python3 -c "
import json
m=json.load(open('/verif/seeded/${id}${sfx}/meta.json')).get('verification',{})
print('${id}${sfx}', 'demo_ok' if m.get('demo_passes_unchanged') and m.get('demo_fails_with_patch') else 'DEMO?', 'tests_ok' if m.get('existing_tests_pass_with_patch') else 'TESTS?', 'caught' if m.get('caught') else 'MISSED', 'input' if m.get('caught_with_failing_input') else 'NOINPUT', (m.get('replay_signature') or '')[:140])
"
done
