"""./check --setup : build everything from files on disk (offline)."""
import os
import re
import subprocess
import sys
import concurrent.futures as cf

from . import core


def main():
    rc = 0
    os.makedirs(core.BUILD, exist_ok=True)
    # Lean: whole library + all drivers
    exes = sorted("drv_" + f[:-5].lower() for f in os.listdir(os.path.join(core.LEAN, "Driver")) if f.endswith(".lean"))
    props = sorted("Chain33Model.Props." + f[:-5] for f in os.listdir(os.path.join(core.LEAN, "Chain33Model", "Props")) if f.endswith(".lean"))
    try:
        from . import facts
        ok, log = facts.regenerate()
        if not ok:
            print("factgen failed:\n" + log[-2000:])
            rc = 1
    except ImportError:
        pass
    ok, log = core.lean_build(["Chain33Model"] + props + exes)
    print(log[-3000:])
    if not ok:
        rc = 1
    # Go: all harness binaries (warms the build cache; checks rebuild anyway)
    core.ensure_gomod()
    cmds = sorted(os.listdir(os.path.join(core.HARNESS, "cmd")))
    def b(c):
        return c, core.go_build(c)
    failed = []
    with cf.ThreadPoolExecutor(4) as ex:
        for c, (binary, blog) in ex.map(b, cmds):
            print("go build %s: %s" % (c, "ok" if binary else "failed, will retry\n" + blog[-2000:]))
            if not binary:
                failed.append(c)
    for c in failed:   # once more, alone (setup only warms the caches; every check rebuilds its harness anyway)
        binary, blog = core.go_build(c)
        print("go build %s (retry): %s" % (c, "ok" if binary else "FAILED\n" + blog[-2000:]))
        if not binary:
            rc = 1
    return rc
