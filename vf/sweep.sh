#!/bin/bash
# usage: vf/sweep.sh "<seeds>" [tier]  — runs every claimed check for each seed, prints one line per run
cd "$(dirname "$0")/.."
tier=${2:-quick}
ids=$(python3 -c "
import json; print(' '.join(c['property_id'] for c in json.load(open('MANIFEST.json'))['checks']))")
for s in $1; do
  for p in $ids; do
    out=$(VERIF_SEED=$s ./check $p --tier $tier 2>&1 | grep -E "^(OK|FAIL|VIOLATION)" | tr "\n" " ")
    echo "seed=$s $p : $out"
  done
done
